#!/usr/bin/env python3
"""Regenerates /verif/MANIFEST.json from the table below (kept in one place so it is always schema-valid)."""
import json, os, subprocess
HERE = os.path.dirname(os.path.dirname(os.path.abspath(__file__)))
A = "A-symnum"; B = "B-crosshair"; C = "C-sched"
T_A = "symbolic execution of the real rules on NumPy object arrays of z3-backed dual numbers + SMT (z3, cvc5 fallback) per call configuration; float64 replay"
T_B = "CrossHair symbolic execution (z3) of the real tracing core over a pure-Python value type; per-path verdicts, counterexample replay"
NOTE_A = "trusted: NumPy object-dtype kernels (cross-checked per configuration against the float64 run), the stubs listed in evidence, the textbook derivative table for abstracted transcendental functions, z3/cvc5; exact reals instead of floats; bounds = enumerated configuration grid"
NOTE_B = "trusted: CrossHair's Python semantics and z3; bounds stated in the harness preconditions (program size, nesting depth, integer-valued leaves); 'Confirmed over all paths' required, anything else is inconclusive"
CHECKS = {}
def add(pid, engine, text, note, technique, ref):
    CHECKS[pid] = dict(property_id=pid, quick_cmd="./check %s --tier quick" % pid, thorough_cmd="./check %s --tier thorough" % pid,
        evidence_file="evidence/%s.json" % pid, replay_cmd_template="./check %s --replay {path}" % pid, engine=engine,
        level_claimed=dict(category="model_checking", text=text, design_ref=ref), level_note=note, technique=technique)
add("C01", A, "bounded symbolic: for every enumerated call configuration the real VJP rule is executed on symbolic arrays and an SMT solver decides <vjp(g),d> == <g,f'(x;d)> for ALL entries, cotangents and directions on every explored path; kink claims by full lexicographic forking", NOTE_A, T_A, "DESIGN.md §4 C01")
add("C02", A, "bounded symbolic: for every enumerated call configuration the real JVP rule is executed on symbolic arrays and an SMT solver decides jvp(v) == f'(x;v) entry-wise for ALL entries and tangents on every explored path", NOTE_A, T_A, "DESIGN.md §4 C02")
add("C04", A, "bounded symbolic: for every configuration with both rules the solver decides <g,jvp(v)> == <vjp(g),v> and linearity of both maps for ALL x, g, v and scalars a, b (no oracle: relates the two real rule tables)", NOTE_A, T_A, "DESIGN.md §4 C04")
add("C05", A, "bounded symbolic: on every explored path of every configuration (real grid + real/complex kind mixes) the structure (nesting, shape, real/complex kind) of VJP and JVP results is asserted against argument / output", NOTE_A, "symbolic execution of the real rules over the configuration grid with path forking by SMT feasibility, structural assertions on every path; plus CrossHair (z3) over a shape-level NumPy model bound into the real helper code (unbroadcast, broadcast, repeat_to_match_shape, repeat/tile/transpose/concatenate/broadcast_to rules, dot/tensordot/matmul adjoints) with UNBOUNDED symbolic dimensions, counterexamples replayed in plain Python", "DESIGN.md §4 C05, §9.9")
EXTRA = os.path.join(HERE, "tools", "manifest_extra.py")
if os.path.exists(EXTRA):
    exec(open(EXTRA).read())
SUPP = {
 "C01": "; supplementary float64 probe of pinned regular points (exact zeros, exponent 0) against closed forms",
 "C02": "; supplementary float64 probe of pinned regular points (exact zeros, exponent 0) against closed forms",
 "C06": "; supplementary float64 probes of autograd.misc.optimizers / fixed_points (read-only start points, kept callback iterates)",
 "C07": "; supplementary float64 probes: LAPACK-backed primitives (first order, reverse-over-reverse, VJP differentiated w.r.t. its cotangent at zero), second differences where the solver answers unknown, and nested derivatives at pinned values of the outer traced operand (closed forms; every binary ufunc against a central difference; np.sinc at 0)",
 "C08": "; supplementary float64 probes: LAPACK double-VJP probe, orders 2-3 through misc.fixed_point, nested derivatives at pinned values of the outer traced operand in all four mode combinations (closed forms; every binary ufunc against a central difference)",
 "C11": "; supplementary float64 probes: second order of complex indexing programs at real-valued complex points; mixed float32 / float64 contributions (dense, indexed, cancelling) to one float64 array in every order",
 "C09": "; supplementary float64 probe of pinned points of complex-typed inputs (0j, integer exponents, real_if_close on zero imaginary parts) with complex tangents",
 "C10": "; the float64 run of the reuse protocol (read-only arguments, fingerprints of captured index / option arrays) decides when the object-dtype run is clean",
 "C13": "; concrete closure checks of the numpy.linalg result named tuples and of dtypes / memory",
 "C16": "; forward- versus reverse-mode agreement (adjointness queries) on real contractions given by axis lists / subscripts",
 "C18": "; checker-history item (verdicts before / after unrelated failing checks) in a child interpreter on real draws",
 "C15": "; supplementary float64 probe of LAPACK-backed primitives with their option values (first order)",
 "C19": "; supplementary replay: every primitive's configurations differentiated in 8 (16) different orders in fresh interpreters (module-level state), NumPy global error state across raising differentiations, VJP / JVP / gradient functions applied repeatedly with the caller editing each returned value in place, fingerprints of every library-owned module-level container / class attribute / mutable default argument before and after a battery of differentiations",
 "C20": "; supplementary replay on real threads: exhaustive / sampled interleavings of array programs with scheduling points inside forward and backward passes, at trace entry/exit, and at every call inside autograd/numpy",
}
for _p, _t in SUPP.items():
    if _p in CHECKS and _t not in CHECKS[_p]["technique"]:
        CHECKS[_p]["technique"] += _t
ALL = ["C%02d" % i for i in range(1, 21)]
NA = {}
NA_FILE = os.path.join(HERE, "tools", "not_applicable.json")
if os.path.exists(NA_FILE):
    NA = json.load(open(NA_FILE))
engines = [
 {"name": A, "path": "vf/sym.py vf/enga.py vf/checks_a.py vf/stubs.py vf/grid.py vf/solve.py", "serves_properties": sorted(p for p, c in CHECKS.items() if c["engine"] == A), "kind_free_text": "own symbolic executor: real autograd code runs on NumPy object arrays whose entries are z3-backed truncated dual numbers; forking by re-execution; z3 + cvc5"},
 {"name": B, "path": "vf/ch/", "serves_properties": sorted(p for p, c in CHECKS.items() if c["engine"] == B), "kind_free_text": "CrossHair (symbolic execution of Python with z3) over the tracing core with a registered pure-Python value type"},
 {"name": C, "path": "vf/sched/", "serves_properties": sorted(p for p, c in CHECKS.items() if c["engine"] == C), "kind_free_text": "z3 encoding of thread interleavings over a transition relation extracted from the real TraceStack"},
]
hooks_commits = []
m = {"version": 1, "setup_cmd": "./setup.sh",
     "hooks": {"guard": "AUTOGRAD_VERIF", "enable": "no source hooks are needed: instrumentation goes through autograd.extend (public API) and in-process stubs of NumPy installed before autograd is imported", "baseline_off_cmd": "cd /repo && /venv/bin/python -m pytest -ra -q -p no:cacheprovider --timeout=900 --continue-on-collection-errors", "source_commits": hooks_commits, "add_only": True},
     "engines": [e for e in engines if e["serves_properties"]],
     "checks": [CHECKS[p] for p in ALL if p in CHECKS],
     "not_applicable": [{"property_id": p, "reason": NA.get(p, "check not built yet (work in progress)")} for p in ALL if p not in CHECKS],
     "notes": "See DESIGN.md. Exit codes: 0 held / 1 replay-confirmed violation (VIOLATION line) / 3 harness error. known_findings.json lists genuine defects recorded rather than repaired."}
json.dump(m, open(os.path.join(HERE, "MANIFEST.json"), "w"), indent=1)
print("MANIFEST.json written:", len(m["checks"]), "checks,", len(m["not_applicable"]), "not applicable")
