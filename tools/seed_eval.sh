#!/bin/bash
# tools/seed_eval.sh <ID> <src_demo_dir> [property ids to run...]
# 1. stores the seeded change under /verif/seeded/<ID>/ ; 2. confirms it on a fresh scratch worktree of /repo HEAD
# (suite passes, demo fails with / passes without the change) ; 3. runs the checks against that worktree (VF_REPO),
# never touching /repo itself; evidence / replays of those runs go to a scratch directory.
set -u
ID=$1; SRC=$2; shift 2
PROPS="${@:-}"
DST=/verif/seeded/$ID
mkdir -p $DST
[ "$SRC" != "$DST" ] && { cp $SRC/patch.diff $DST/patch.diff; cp $SRC/demo.py $DST/demo.py; cp $SRC/meta.json $DST/meta.json 2>/dev/null; }
WT=/tmp/confirm_$ID
git -C /repo worktree remove --force $WT >/dev/null 2>&1
git -C /repo worktree add -q --detach $WT HEAD || exit 2
OUT=$DST/confirm.log; : > $OUT
echo "repo HEAD: $(git -C /repo rev-parse --short HEAD)" >> $OUT
if ! git -C $WT apply $DST/patch.diff 2>>$OUT; then echo "PATCH DOES NOT APPLY to current HEAD" | tee -a $OUT; git -C /repo worktree remove --force $WT; exit 2; fi
( cd $WT && PYTHONPATH=$WT /venv/bin/python -m pytest -q -p no:cacheprovider -n 6 tests 2>&1 | tail -1 ) | sed 's/\x1b\[[0-9;]*m//g' | tee -a $OUT
sed "s#/tmp/w[t23456789a]_[A-Za-z0-9]*#$WT#g" $DST/demo.py > $WT/_demo_run.py
git -C $WT apply -R $DST/patch.diff
( cd $WT && PYTHONPATH=$WT timeout 900 /venv/bin/python _demo_run.py > $DST/demo_without.out 2>&1; echo "demo WITHOUT change: exit $?" ) | tee -a $OUT
git -C $WT apply $DST/patch.diff
( cd $WT && PYTHONPATH=$WT timeout 900 /venv/bin/python _demo_run.py > $DST/demo_with.out 2>&1; echo "demo WITH change: exit $?" ) | tee -a $OUT
for P in $PROPS; do
  ( cd /verif && VF_REPO=$WT VF_OUT=/tmp/seed_out_$ID timeout 3000 ./check $P --tier quick > $DST/check_$P.out 2>&1; echo "check $P against the change: exit $? ; VIOLATION lines: $(grep -c '^VIOLATION' $DST/check_$P.out)" ) | tee -a $OUT
  grep -A2 "^VIOLATION" $DST/check_$P.out | grep -v "^--" | head -4 | cut -c1-240
done
git -C /repo worktree remove --force $WT
rm -rf /tmp/seed_out_$ID
