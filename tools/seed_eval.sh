#!/bin/bash
# tools/seed_eval.sh <ID> <src_demo_dir> [extra property ids to run...]
# 1. stores the seeded change under /verif/seeded/<ID>/ ; 2. confirms it on a fresh scratch worktree of /repo HEAD
# (suite passes, demo fails with / passes without the change) ; 3. applies it to /repo, runs the checks, undoes it.
set -u
ID=$1; SRC=$2; shift 2
PROPS="${@:-}"
DST=/verif/seeded/$ID
mkdir -p $DST
cp $SRC/patch.diff $DST/patch.diff; cp $SRC/demo.py $DST/demo.py; cp $SRC/meta.json $DST/meta.json 2>/dev/null
WT=/tmp/confirm_$ID
git -C /repo worktree remove --force $WT >/dev/null 2>&1
git -C /repo worktree add -q --detach $WT HEAD || exit 2
OUT=$DST/confirm.log; : > $OUT
if ! git -C $WT apply $DST/patch.diff 2>>$OUT; then echo "PATCH DOES NOT APPLY to current HEAD" | tee -a $OUT; git -C /repo worktree remove --force $WT; exit 2; fi
( cd $WT && PYTHONPATH=$WT /venv/bin/python -m pytest -q -p no:cacheprovider -n 6 tests 2>&1 | tail -1 ) | sed 's/\x1b\[[0-9;]*m//g' | tee -a $OUT
sed "s#/tmp/wt_[A-Za-z0-9]*#$WT#g" $DST/demo.py > $WT/_demo_run.py
( cd $WT && PYTHONPATH=$WT timeout 600 /venv/bin/python _demo_run.py > $DST/demo_with.out 2>&1; echo "demo WITH change: exit $?" ) | tee -a $OUT
git -C $WT apply -R $DST/patch.diff
( cd $WT && PYTHONPATH=$WT timeout 600 /venv/bin/python _demo_run.py > $DST/demo_without.out 2>&1; echo "demo WITHOUT change: exit $?" ) | tee -a $OUT
git -C /repo worktree remove --force $WT
# run the checks against it
if [ -n "$PROPS" ]; then
  if [ -n "$(git -C /repo status --porcelain)" ]; then echo "/repo not clean"; exit 2; fi
  git -C /repo apply $DST/patch.diff || exit 2
  for P in $PROPS; do
    ( cd /verif && timeout 3000 ./check $P --tier quick > $DST/check_$P.out 2>&1; echo "check $P: exit $? ; violations: $(grep -c '^VIOLATION' $DST/check_$P.out)" ) | tee -a $OUT
    grep -A2 "^VIOLATION" $DST/check_$P.out | head -6 | cut -c1-260
  done
  git -C /repo checkout -- . ; git -C /repo status --porcelain | head -3
  ( cd /verif && git checkout -- evidence 2>/dev/null )
fi
