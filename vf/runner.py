"""Process pool, aggregation, known findings, evidence, exit codes — shared by all property drivers."""
import hashlib
import importlib
import json
import os
import re
import signal
import sys
import time
import traceback

VERIF = os.path.dirname(os.path.dirname(os.path.abspath(__file__)))
REPO = os.environ.get("VF_REPO") or "/repo"  # VF_REPO: run against a scratch worktree (seeded-change evaluation); default = /repo itself
SEED = int(os.environ.get("VERIF_SEED", "0") or 0)
VERBOSE = bool(os.environ.get("VF_VERBOSE"))
NPROC = int(os.environ.get("VERIF_NPROC", "0") or 0) or min(16, os.cpu_count() or 4)


class ItemTimeout(BaseException):
    pass


_W = {}


def _alarm(signum, frame):
    raise ItemTimeout()


def _winit(modname, tier):
    import warnings

    warnings.filterwarnings("ignore")
    sys.setrecursionlimit(10000)
    mod = importlib.import_module(modname)
    if hasattr(mod, "worker_init"):
        mod.worker_init(tier)
    _W["mod"] = mod
    _W["tier"] = tier
    _W["items"] = mod.items(tier)
    signal.signal(signal.SIGALRM, _alarm)


def _work(idx):
    mod, tier = _W["mod"], _W["tier"]
    item = _W["items"][idx]
    limit = getattr(mod, "ITEM_TIMEOUT", {"quick": 120, "thorough": 300})[tier]
    t0 = time.time()
    try:
        signal.alarm(int(limit))
        try:
            out = mod.check(item, tier)
        finally:
            signal.alarm(0)
        d = out if isinstance(out, dict) else out.to_dict()
    except ItemTimeout:
        d = {"key": mod.item_key(item), "status": "inconclusive", "detail": "per-item wall-time limit (%ds) reached" % limit,
             "paths": 0, "queries": 0, "validated": 0, "verdicts": {}}
    except BaseException as e:  # noqa
        d = {"key": mod.item_key(item), "status": "error", "detail": "harness exception %s: %s\n%s" % (type(e).__name__, e, traceback.format_exc()[-1500:]),
             "paths": 0, "queries": 0, "validated": 0, "verdicts": {}}
    d["time"] = time.time() - t0
    d["idx"] = idx
    from . import solve

    d["solver_time"] = solve.STATS["time"]
    solve.STATS["time"] = 0.0
    return _jsonable(d)


def _jsonable(o):
    if isinstance(o, dict):
        return {str(k): _jsonable(v) for k, v in o.items()}
    if isinstance(o, (list, tuple, set)):
        return [_jsonable(v) for v in o]
    if isinstance(o, (str, int, float, bool)) or o is None:
        return o
    return repr(o)


class _Slot:
    """one worker subprocess"""

    def __init__(self, modname, tier):
        import subprocess

        self.modname, self.tier = modname, tier
        env = dict(os.environ)
        env["PYTHONPATH"] = VERIF + os.pathsep + REPO + (os.pathsep + env["PYTHONPATH"] if env.get("PYTHONPATH") else "")
        self.p = subprocess.Popen([sys.executable, "-m", "vf.worker", modname, tier], stdin=subprocess.PIPE, stdout=subprocess.PIPE,
                                  stderr=subprocess.DEVNULL if not VERBOSE else None, text=True, bufsize=1, cwd=VERIF, env=env)
        self.ready = False

    def wait_ready(self, timeout=120):
        import select

        r, _, _ = select.select([self.p.stdout], [], [], timeout)
        if not r:
            return False
        line = self.p.stdout.readline()
        self.ready = line.startswith("READY")
        return self.ready

    def run(self, idx, limit):
        import select

        try:
            self.p.stdin.write("%d\n" % idx)
            self.p.stdin.flush()
        except (BrokenPipeError, OSError):
            return None, "worker died"
        deadline = time.time() + limit
        while True:
            left = deadline - time.time()
            if left <= 0:
                return None, "timeout"
            r, _, _ = select.select([self.p.stdout], [], [], min(left, 5.0))
            if r:
                line = self.p.stdout.readline()
                if not line:
                    return None, "worker died"
                if line.startswith("R "):
                    return json.loads(line[2:]), None
            elif self.p.poll() is not None:
                return None, "worker died"

    def kill(self):
        try:
            self.p.kill()
            self.p.wait(timeout=5)
        except Exception:
            pass

    def close(self):
        try:
            self.p.stdin.write("QUIT\n")
            self.p.stdin.flush()
            self.p.wait(timeout=5)
        except Exception:
            self.kill()


def run_items(modname, tier, indices=None, nproc=None):
    """run mod.check over mod.items(tier) in a pool of worker subprocesses with a hard per-item wall-time
    limit (a worker stuck inside a solver call is killed and replaced); returns list of outcome dicts"""
    import queue
    import random
    import threading

    nproc = nproc or NPROC
    mod = importlib.import_module(modname)
    _winit(modname, tier)
    n = len(_W["items"])
    keys = [mod.item_key(it) for it in _W["items"]]
    idxs = list(range(n)) if indices is None else list(indices)
    random.Random(SEED).shuffle(idxs)
    soft = getattr(mod, "ITEM_TIMEOUT", {"quick": 120, "thorough": 300})[tier]
    hard = soft + 30
    q = queue.Queue()
    for i in idxs:
        q.put(i)
    results = []
    lock = threading.Lock()
    t_start = time.time()
    recycle = getattr(mod, "TASKS_PER_CHILD", 400)

    def fail(i, status, why):
        return {"idx": i, "key": keys[i], "status": status, "detail": why, "paths": 0, "queries": 0, "validated": 0, "verdicts": {}, "time": 0}

    def loop():
        slot = None
        done_here = 0
        while True:
            try:
                i = q.get_nowait()
            except queue.Empty:
                break
            if slot is None or done_here >= recycle:
                if slot is not None:
                    slot.close()
                slot = _Slot(modname, tier)
                done_here = 0
                if not slot.wait_ready():
                    slot.kill()
                    slot = None
                    with lock:
                        results.append(fail(i, "error", "worker failed to start"))
                    continue
            d, err = slot.run(i, hard)
            if err == "timeout":
                slot.kill()
                slot = None
                d = fail(i, "inconclusive", "hard wall-time limit (%ds) reached; worker killed" % hard)
                d["time"] = hard
            elif err is not None:
                slot.kill()
                slot = None
                d = fail(i, "error", "worker process died while checking this item")
            done_here += 1
            with lock:
                results.append(d)
                if VERBOSE and len(results) % 200 == 0:
                    print("  .. %d/%d items, %.0fs" % (len(results), len(idxs), time.time() - t_start), file=sys.stderr, flush=True)
        if slot is not None:
            slot.close()

    threads = [threading.Thread(target=loop, daemon=True) for _ in range(min(nproc, max(1, len(idxs))))]
    for t in threads:
        t.start()
    for t in threads:
        t.join()
    results.sort(key=lambda d: d.get("idx", 0))
    return results


# ----------------------------------------------------------------------------------------------
# known findings


def load_findings(prop):
    p = os.path.join(VERIF, "known_findings.json")
    if not os.path.exists(p):
        return []
    with open(p) as f:
        data = json.load(f)
    return [e for e in data.get("findings", []) if e.get("property") == prop]


def match_finding(findings, key):
    for e in findings:
        if e.get("status") != "known":
            continue
        if re.search(e["match"], key):
            return e
    return None


# ----------------------------------------------------------------------------------------------
# source hashes / evidence


def source_hashes(files):
    out = {}
    for f in files:
        p = os.path.join(REPO, f)
        try:
            with open(p, "rb") as fh:
                out[f] = hashlib.sha256(fh.read()).hexdigest()[:16]
        except OSError:
            out[f] = "missing"
    return out


OUTDIR = os.environ.get("VF_OUT") or VERIF  # VF_OUT: redirect evidence / replays when evaluating a scratch worktree


def write_replay(prop, key, payload):
    d = os.path.join(OUTDIR, "replays", prop)
    os.makedirs(d, exist_ok=True)
    h = hashlib.sha256(key.encode()).hexdigest()[:12]
    p = os.path.join(d, "%s.json" % h)
    payload = dict(payload, property=prop, key=key)
    with open(p, "w") as f:
        json.dump(_jsonable(payload), f, indent=1, sort_keys=True)
    return p


def write_evidence(prop, tier, level, coverage, assumptions, wall, violations, extra=None):
    d = os.path.join(OUTDIR, "evidence")
    os.makedirs(d, exist_ok=True)
    ev = {"property_id": prop, "tier": tier, "seed": SEED, "level": level, "coverage": coverage, "assumptions": assumptions,
          "wall_s": round(wall, 2), "violations": violations}
    if extra:
        ev.update(extra)
    with open(os.path.join(d, "%s.json" % prop), "w") as f:
        json.dump(_jsonable(ev), f, indent=1, sort_keys=True)
    return ev


def finish(prop, tier, results, t0, functions, files, bounds, assumptions, stubs=None, extra_cov=None, selftest=None, engine="A"):
    """aggregate outcome dicts -> stdout report, evidence file, exit code"""
    findings = load_findings(prop)
    if os.environ.get("VF_DUMP"):
        with open(os.environ["VF_DUMP"], "w") as f:
            for r in results:
                f.write(json.dumps(_jsonable(r)) + "\n")
    by = {}
    for r in results:
        by.setdefault(r["status"], []).append(r)
    violations = []
    known = {}
    for r in by.get("violation", []):
        e = match_finding(findings, r["key"])
        if e is not None:
            known.setdefault(e["match"], (e, []))[1].append(r)
        else:
            violations.append(r)
    errors = by.get("error", [])
    inconc = by.get("inconclusive", [])
    for m, (e, rs) in known.items():
        print("KNOWN-FINDING: property=%s %s [%d configuration(s), e.g. %s]" % (prop, e["what"], len(rs), rs[0]["key"]))
    for r in violations:
        p = write_replay(prop, r["key"], {"cex": r.get("cex"), "detail": r.get("detail")})
        print("VIOLATION property=%s replay=%s" % (prop, os.path.relpath(p, VERIF)))
        print("  config: %s\n  %s" % (r["key"], r.get("detail", "")[:400]))
    for r in errors[:20]:
        print("HARNESS-ERROR property=%s config=%s :: %s" % (prop, r["key"], r.get("detail", "")[:600]))
    paths = sum(r.get("paths", 0) or 0 for r in results)
    queries = sum(r.get("queries", 0) or 0 for r in results)
    validated = sum(r.get("validated", 0) or 0 for r in results)
    verd = {}
    for r in results:
        for k, v in (r.get("verdicts") or {}).items():
            verd[k] = verd.get(k, 0) + v
    statuses = {k: len(v) for k, v in by.items()}
    wall = time.time() - t0
    samples = []
    for st in ("holds", "violation", "raises", "inconclusive", "numpy_rejects"):
        for r in by.get(st, [])[:3]:
            samples.append({"config": r["key"], "status": st, "paths": r.get("paths"), "queries": r.get("queries"), "detail": (r.get("detail") or "")[:200]})
    cov = {
        "states": max(1, paths),
        "transitions": max(1, queries),
        "traces_validated_against_impl": validated + len(by.get("violation", [])),
        "samples": samples or [{"note": "no items"}],
        "configurations": len(results),
        "configurations_by_status": statuses,
        "paths_explored": paths,
        "queries_discharged": queries,
        "query_verdicts": verd,
        "solver_time_s": round(sum(r.get("solver_time", 0) or 0 for r in results), 2),
        "cpu_time_s": round(sum(r.get("time", 0) or 0 for r in results), 2),
        "functions_encoded": functions,
        "source_sha256_16": source_hashes(files),
        "bounds": bounds,
        "inconclusive": [{"config": r["key"], "why": (r.get("detail") or "")[:160]} for r in inconc[:60]],
        "inconclusive_count": len(inconc),
        "known_findings_hit": [{"match": m, "what": e["what"], "configs": len(rs)} for m, (e, rs) in known.items()],
        "engine": engine,
        "exhaustive": False,
    }
    if stubs is not None:
        cov["stubs"] = stubs
    if selftest is not None:
        cov["selftest"] = selftest
    if extra_cov:
        cov.update(extra_cov)
    write_evidence(prop, tier, "model_checking", cov, assumptions, wall, len(violations) + sum(len(rs) for _, rs in known.values()))
    print("%s [%s] configurations=%d %s paths=%d queries=%d %s validated=%d wall=%.1fs" % (
        prop, tier, len(results), statuses, paths, queries, verd, validated, wall))
    if violations:
        return 1
    if errors:
        return 3
    if selftest is not None and not selftest.get("ok", True):
        print("HARNESS-ERROR property=%s self-test failed: %s" % (prop, selftest))
        return 3
    return 0
