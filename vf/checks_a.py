"""Per-configuration property instances decided with Engine A (C01, C02, C04, C05, ...)."""
import math
import os
import random
import time
import warnings

import numpy as onp
import z3

from . import enga, solve
from .enga import (Outcome, all_var_names, close, coeffs, exc_sig, flat_float, float_like, floats_of, model_env,
                   neq_any, pair, path_matches, rand_env, subst, sym_like)
from .sym import (CS, CTX, Fr, S, Infeasible, PathLimit, Unsupported, complete_env, evalf, is_complex, leaves,
                  structure, sym, sym_array, t_sub, toz, term_vars)

SEED = int(os.environ.get("VERIF_SEED", "0") or 0)


def _rng(cfg):
    return random.Random("%d|%s" % (SEED, cfg.key))


def tier_opts(tier):
    if tier == "thorough":
        return dict(max_paths=3000, timeout_ms=60000, feas_ms=4000)
    return dict(max_paths=400, timeout_ms=10000, feas_ms=1500)


# ----------------------------------------------------------------------------------------------
# shared symbolic run: oracle (NumPy primal on duals) + autograd reverse and/or forward mode


def sym_body(cfg, want_vjp=True, want_jvp=False, complex_g=None):
    """returns a body() for CTX.explore"""
    from autograd import core

    k = cfg.argnum
    anp = enga.anp

    def body():
        dual = cfg.make_args(eps={k: {1: "d"}})
        # pinned primal values (cfg.pin_args: (argument position, entry index or None, value)): the claim is decided AT that
        # value of the symbol - every value-dependent branch of the real code is then explored under p == value
        for (ai, idx, val) in getattr(cfg, "pin_args", ()):
            e = dual[ai][idx] if idx is not None else dual[ai]
            CTX.add_assume(toz(e.c[0]) == toz(Fr(val)), "pinned value")
        try:
            y = getattr(cfg, "oracle", cfg.call)(onp, *dual)
        except (Unsupported, Infeasible, PathLimit):
            raise
        except Exception as e:
            return {"tag": "numpy_rejects", "exc": e}
        if not _numeric(y):
            return {"tag": "nonnumeric", "y": y}
        res = {"tag": "ok", "x": dual[k], "y": y, "args": dual}
        plain = cfg.make_args()
        f = lambda x: cfg.call(anp, *subst(plain, k, x))
        if want_vjp:
            with warnings.catch_warnings(record=True) as w:
                warnings.simplefilter("always")
                try:
                    vjp, yv = core.make_vjp(f, plain[k])
                    res["untraced"] = any("independent" in str(m.message) for m in w)
                    res["yv"] = yv
                    g = sym_like(yv, "g")
                    res["g"] = g
                    res["got"] = vjp(g)
                except (Unsupported, Infeasible, PathLimit):
                    raise
                except Exception as e:
                    res["vjp_exc"] = e
        if want_jvp:
            with warnings.catch_warnings(record=True) as w:
                warnings.simplefilter("always")
                try:
                    v = tangent_of(dual[k])
                    res["v"] = v
                    yv2, tan = core.make_jvp(f, plain[k])(v)
                    res["untraced_fwd"] = any("independent" in str(m.message) for m in w)
                    res["yv_fwd"] = yv2
                    res["tan"] = tan
                except (Unsupported, Infeasible, PathLimit):
                    raise
                except Exception as e:
                    res["jvp_exc"] = e
        return res

    return body


def tangent_of(xd):
    """the direction d carried by a dual argument, as a plain symbolic value of the same structure"""
    if isinstance(xd, S):
        return S(xd.co(1))
    if isinstance(xd, CS):
        return CS(S(xd.re.co(1)), S(xd.im.co(1)))
    if isinstance(xd, dict):
        return {k_: tangent_of(v_) for k_, v_ in xd.items()}
    if isinstance(xd, (tuple, list)):
        return type(xd)(tangent_of(v_) for v_ in xd)
    if not isinstance(xd, onp.ndarray):
        return xd * 0
    out = onp.empty(onp.shape(xd), dtype=object)
    for i in onp.ndindex(*onp.shape(xd)):
        out[i] = tangent_of(xd[i])
    return out


def explore_cfg(cfg, out, body, opts):
    CTX.mode = cfg.mode
    CTX.feas_timeout_ms = opts["feas_ms"]
    try:
        paths = CTX.explore(body, max_paths=cfg.max_paths or opts["max_paths"])
    except PathLimit as e:
        out.status, out.detail = "inconclusive", "path bound exceeded: %s" % e
        return None
    except Unsupported as e:
        out.status, out.detail = "inconclusive", "unsupported by the symbolic engine: %s" % e
        return None
    out.paths = len(paths)
    return paths


def witness(path, out, opts):
    """reachability witness for the path: antecedent must be satisfiable"""
    r, m, _ = solve.check(path.antecedent(), timeout_ms=opts["timeout_ms"], want_model=True)
    out.queries += 1
    return r, m


def _small_model(path, neg, m, opts):
    """prefer a small, well-scaled counterexample for the replay"""
    names = term_vars(path.antecedent() + [neg])
    box = [z3.And(v >= -4, v <= 4) for n, v in names.items() if "!" not in n]
    r2, m2, _ = solve.check(path.antecedent() + [neg] + box, timeout_ms=min(3000, opts["timeout_ms"]), use_cvc5=False)
    return m2 if r2 == "sat" else m


def prove_eqs(path, eqs, split_vars, out, opts, split_vars2=(), groups=None):
    """claim: a == b for every (a, b) in eqs, under the path's antecedent.  (verdict, model).
    Every equation is (multi)linear in each group of symbols in `groups` (directions, cotangents, ...); when the joint
    query is not decided quickly it is split per equation and, group by group, per unit vector (d := e_i), which is
    equivalent by linearity in that group."""
    if groups is None:
        groups = [g for g in (list(split_vars), list(split_vars2)) if g]
    ante = path.antecedent()
    diffs = []
    for a, b in eqs:
        d = t_sub(a, b)
        if type(d) is Fr:
            if d != 0:
                r, m = witness(path, out, opts)
                return ("sat", m) if r == "sat" else (r, m)
            continue
        diffs.append(d)
    if not diffs:
        return "unsat", None
    fast = min(1500, opts["timeout_ms"])

    def q(neg, tmo, cvc):
        r, m, _ = solve.check(ante + [neg], timeout_ms=tmo, use_cvc5=cvc)
        out.queries += 1
        out.verdicts[r] += 1
        return r, m

    neg = z3.Or([d != 0 for d in diffs]) if len(diffs) > 1 else diffs[0] != 0
    r, m = q(neg, fast, False)
    if r == "sat":
        return r, _small_model(path, neg, m, opts)
    if r == "unsat":
        return r, None
    out.extra["split"] = out.extra.get("split", 0) + 1

    def rec(d, level, fixed):
        """decide d == 0 (d already specialised by `fixed`), splitting over groups[level:]"""
        if z3.is_rational_value(d):
            return ("unsat", None) if d.numerator_as_long() == 0 else ("sat", dict(fixed))
        last = level >= len(groups)
        r_, m_ = q(d != 0, opts["timeout_ms"] if last else fast, last)
        if r_ == "sat":
            m_ = dict(m_ or {})
            m_.update(fixed)
            return r_, m_
        if r_ == "unsat" or last:
            return r_, None
        present = term_vars([d])
        svs = [v for v in groups[level] if v.decl().name() in present]
        if not svs:
            return rec(d, level + 1, fixed)
        for v in svs:
            sub = [(w, z3.RealVal(1 if w.eq(v) else 0)) for w in svs]
            di = z3.simplify(z3.substitute(d, *sub))
            fx = dict(fixed)
            for w in svs:
                fx[w.decl().name()] = Fr(1 if w.eq(v) else 0)
            r2, m2 = rec(di, level + 1, fx)
            if r2 != "unsat":
                return r2, m2
        return "unsat", None

    for d in diffs:
        if len(diffs) > 1:
            r, m = q(d != 0, fast, False)
            if r == "sat":
                return r, _small_model(path, d != 0, m, opts)
            if r == "unsat":
                continue
        r, m = rec(d, 0, {})
        if r != "unsat":
            return r, m
    return "unsat", None


def leaf_eqs(a, ma, b, mb):
    """[(re_a, re_b), (im_a, im_b)] per leaf, for coefficient ma of a and mb of b; real leaves have im = 0"""
    from .sym import re_im

    la, lb = leaves(a), leaves(b)
    if len(la) != len(lb):
        raise ValueError("leaf count %d vs %d" % (len(la), len(lb)))
    out = []
    for x, y in zip(la, lb):
        xr, xi = re_im(x)
        yr, yi = re_im(y)
        out.append((xr.co(ma), yr.co(mb)))
        out.append((xi.co(ma), yi.co(mb)))
    return out


def cvals(obj, env, m=0):
    """complex values of the leaves of a symbolic structure under env"""
    from .sym import re_im

    cache = {}
    out = []
    for e in leaves(obj):
        r, i = re_im(e)
        out.append(complex(evalf(r.co(m), env, cache), evalf(i.co(m), env, cache)))
    return out


def fvals(obj):
    """(complex value, is_complex_typed) per leaf of a float structure"""
    out = []
    for e in leaves(obj):
        out.append((complex(e), isinstance(e, (complex, onp.complexfloating))))
    return out


def cclose(sym_vals, float_vals, rtol=1e-6, atol=1e-8):
    """symbolic complex values vs float leaves.  A float leaf of REAL dtype is compared with the real part only:
    NumPy's float kernels drop imaginary parts when accumulating complex contributions into a real buffer, which the
    object-dtype run cannot imitate (the kind itself is C05's business)."""
    if len(sym_vals) != len(float_vals):
        return False
    for s_, (f_, is_c) in zip(sym_vals, float_vals):
        if not is_c:
            s_ = complex(s_.real, 0.0)
        if s_ != s_ or f_ != f_:
            return False
        if abs(s_ - f_) > atol + rtol * max(abs(s_), abs(f_)):
            return False
    return True


def dir_vars(x):
    """the direction symbols (eps1 coefficients) of a dual argument"""
    out = []
    for t in coeffs(x, 1):
        if type(t) is not Fr and z3.is_const(t):
            out.append(t)
    return out


# ----------------------------------------------------------------------------------------------
# float64 executions of the real code (validation of the symbolic run, replay of counterexamples)


def float_vjp(cfg, env, g_struct_from=None):
    from autograd import core

    anp = enga.anp
    fa = cfg.float_args(env)
    k = cfg.argnum
    f = lambda x: cfg.call(anp, *subst(fa, k, x))
    with warnings.catch_warnings():
        warnings.simplefilter("ignore")
        vjp, yv = core.make_vjp(f, fa[k])
        g = float_like(yv if g_struct_from is None else g_struct_from, "g", env)
        got = vjp(g)
    return yv, g, got


def float_jvp(cfg, env):
    from autograd import core

    anp = enga.anp
    fa = cfg.float_args(env)
    k = cfg.argnum
    f = lambda x: cfg.call(anp, *subst(fa, k, x))
    v = cfg.float_dir(k, env, "d")
    with warnings.catch_warnings():
        warnings.simplefilter("ignore")
        yv, tan = core.make_jvp(f, fa[k])(v)
    return yv, v, tan


def float_dir_deriv(cfg, env, dname="d", h=1e-4, one_sided=0):
    """Richardson-extrapolated central difference of NumPy's own function along direction d (float64)."""
    k = cfg.argnum
    fa = cfg.float_args(env)
    d = cfg.float_dir(k, env, dname)

    def F(t):
        with warnings.catch_warnings():
            warnings.simplefilter("ignore")
            return onp.array(flat_float(getattr(cfg, "oracle", cfg.call)(onp, *subst(fa, k, enga.add_scaled(fa[k], d, t)))), dtype=float)

    if one_sided:
        s = one_sided
        d1 = (F(s * h) - F(0.0)) / (s * h)
        d2 = (F(s * h / 2) - F(0.0)) / (s * h / 2)
        return list(2 * d2 - d1)
    c1 = (F(h) - F(-h)) / (2 * h)
    c2 = (F(h / 2) - F(-h / 2)) / h
    sc = max(1.0, float(onp.max(onp.abs(c1))) if c1.size else 1.0)
    if c1.size and float(onp.max(onp.abs(c1 - c2))) > 1e-3 * sc:
        raise NonSmooth("finite differences with steps h and h/2 disagree: not a regular point")
    return list((4 * c2 - c1) / 3)


class NonSmooth(Exception):
    pass


def _float_arg_like(cfg, k, env):
    """float structure of argument k from an environment keyed by the argument's own variable names"""
    from .enga import _build_float, _ZeroDefault

    return _build_float(cfg.args[k], "x%d" % k, _ZeroDefault(env))


def dvec(cfg, env, dname="d"):
    k = cfg.argnum
    return flat_float(cfg.float_dir(k, env, dname))


def dot(a, b):
    return float(sum(x * y for x, y in zip(a, b)))


def cdot(a, b):
    """<conj(a), b>_R for possibly complex leaves"""
    tot = 0.0
    for x, y in zip(leaves(a), leaves(b)):
        x, y = complex(x), complex(y)
        tot += x.real * y.real - x.imag * y.imag
    return tot


def unflat_like(vals, like):
    """regroup a flat float list (re, im interleaved for complex leaves) into complex/real leaves of `like`"""
    out = []
    i = 0
    for e in leaves(like):
        if isinstance(e, (complex, onp.complexfloating)):
            out.append(complex(vals[i], vals[i + 1]))
            i += 2
        else:
            out.append(vals[i])
            i += 1
    return out


def validate_path(cfg, out, paths, want_vjp, want_jvp):
    """translation validation: evaluate the symbolic results of the path selected by a random concrete
    point and compare with the float64 execution of the same call (real NumPy / real autograd), and the
    oracle derivative with a finite difference of NumPy's function."""
    rng = _rng(cfg)
    ok_paths = [p for p in paths if p.res and p.res.get("tag") == "ok"]
    if not ok_paths:
        return None
    p0 = ok_paths[0]
    objs = list(p0.res["args"]) + [p0.res.get("g"), p0.res.get("v")]
    names = all_var_names([o for o in objs if o is not None])
    for attempt in range(4):
        env0 = rand_env(names, rng)
        for p in ok_paths:
            try:
                env = complete_env(env0, p.ack_list)
            except (Unsupported, KeyError, ZeroDivisionError, OverflowError, ValueError):
                continue
            if any(math.isnan(v) or math.isinf(v) for v in env.values()):
                continue
            if not path_matches(p, env):
                continue
            return _validate(cfg, out, p, env, want_vjp, want_jvp)
    # no random point satisfied a path condition (narrow domain): use a solver model of the first path, in a box
    p = ok_paths[0]
    vs = term_vars(p.antecedent())
    box = [z3.And(v >= -3, v <= 3) for n, v in vs.items() if "!" not in n]
    r, m, _ = solve.check(p.antecedent() + box, timeout_ms=3000, use_cvc5=False)
    if r == "sat":
        env0 = rand_env(names, rng)
        for n in names:
            if n in m:
                env0[n] = float(m[n])
        try:
            env = complete_env(env0, p.ack_list)
            if path_matches(p, env) and not any(math.isnan(v) or math.isinf(v) for v in env.values()):
                return _validate(cfg, out, p, env, want_vjp, want_jvp)
        except (Unsupported, KeyError, ZeroDivisionError, OverflowError, ValueError):
            pass
    return None


def _kind_pad(a, b):
    """an all-constant output (e.g. triu above the last diagonal) has integer-zero leaves in the object-dtype run and
    complex zeros in the float64 run: compare such real leaves with (re, 0) pairs"""
    if len(b) == 2 * len(a) and len(a):
        return [v for x in a for v in (x, 0.0)], b
    if len(a) == 2 * len(b) and len(b):
        return a, [v for x in b for v in (x, 0.0)]
    return a, b


def _validate(cfg, out, p, env, want_vjp, want_jvp):
    res = p.res
    msgs = []
    try:
        with warnings.catch_warnings():
            warnings.simplefilter("ignore")
            yf = flat_float(getattr(cfg, "oracle", cfg.call)(onp, *cfg.float_args(env)))
        ys = floats_of(res["y"], env, 0)
        if not close(*_kind_pad(ys, yf), 1e-6, 1e-8):
            msgs.append("primal: symbolic %s vs float64 %s" % (ys[:4], yf[:4]))
        dys = floats_of(res["y"], env, 1)
        try:
            fd = float_dir_deriv(cfg, env)
        except NonSmooth:
            fd = None
        if fd is not None and not close(*_kind_pad(dys, fd), 2e-4, 1e-6):
            msgs.append("oracle derivative: symbolic %s vs finite difference %s" % (dys[:4], fd[:4]))
        if want_vjp and "got" in res:
            yv, g, got = float_vjp(cfg, env)
            gs = cvals(res["got"], env, 0)
            if not cclose(gs, fvals(got)):
                msgs.append("vjp: symbolic %s vs float64 %s" % (gs[:4], flat_float(got)[:4]))
        if want_jvp and "tan" in res:
            yv, v, tan = float_jvp(cfg, env)
            ts = cvals(res["tan"], env, 0)
            if not cclose(ts, fvals(tan)):
                msgs.append("jvp: symbolic %s vs float64 %s" % (ts[:4], flat_float(tan)[:4]))
    except (Unsupported, KeyError) as e:
        return None
    except Exception as e:
        # the float64 run raised although the symbolic run did not
        msgs.append("float64 run raised %s" % exc_sig(e))
    if msgs:
        return msgs
    out.validated += 1
    return []


# ----------------------------------------------------------------------------------------------
# C01: reverse mode


def replay_vjp(cfg, env, tol=1e-5):
    """float64 replay of a reverse-mode counterexample.  returns (reproduces, info)"""
    try:
        yv, g, got = float_vjp(cfg, env)
    except Exception as e:
        return False, "float64 run raised %s" % exc_sig(e)
    k = cfg.argnum
    xs = structure(cfg.float_args(env)[k])
    if structure(got)[:2] != xs[:2]:
        return True, "cotangent structure %s != argument structure %s" % (structure(got), xs)
    d = cfg.float_dir(k, env, "d")
    lhs = cdot(got, d)
    try:
        fd = float_dir_deriv(cfg, env)
    except NonSmooth as e:
        return False, str(e)
    rhs = cdot(g, unflat_like(fd, g))
    if math.isnan(rhs) or math.isinf(rhs):
        return False, "NumPy's own function is not finite here (not a regular point)"
    scale = max(1.0, abs(lhs), abs(rhs))
    bad = (math.isnan(lhs) or math.isinf(lhs) or abs(lhs - rhs) > tol * scale * 10)
    return bad, "<vjp(g),d>=%.9g  <g,J d>(finite difference of NumPy's function)=%.9g" % (lhs, rhs)


def float_probe(cfg, out, mode):
    """The symbolic engine could not encode this configuration.  Fall back to a concrete float64 probe at 3 random
    regular points: a derivative that is non-finite or off by more than 1% at ALL of them is reported (with the
    concrete failing input) - this is replay evidence, not a solver verdict, and is labelled as such."""
    rng = _rng(cfg)
    bad_all = True
    info = ""
    env = None
    n = 0
    for _ in range(6):
        env = _Default({}, rng)
        try:
            rep, info = (replay_vjp if mode == "vjp" else replay_jvp)(cfg, env, tol=1e-3)
        except Exception as e:
            return
        if "regular point" in info or "raised" in info or "not finite" in info:
            continue
        n += 1
        if not rep:
            bad_all = False
            break
        if n >= 3:
            break
    if n >= 3 and bad_all:
        out.status = "violation"
        out.detail = "[float64 probe; engine: %s] wrong at 3/3 random regular points, e.g. %s" % (out.detail, info)
        out.cex = {"env": {k_: float(v) for k_, v in env.items()}, "mode": mode, "info": info}
        out.extra["decided_by"] = "float64 probe"


def check_vjp(cfg, tier="quick"):
    """C01 instance: <vjp(g), d> == <g, f'(x; d)> for all x, g, d on every smooth path; same structure"""
    opts = tier_opts(tier)
    out = Outcome(cfg)
    t0 = time.time()
    paths = explore_cfg(cfg, out, sym_body(cfg, True, False), opts)
    if paths is None:
        if out.detail.startswith("unsupported by the symbolic engine"):
            float_probe(cfg, out, "vjp")
        out.time = time.time() - t0
        return out
    _decide(cfg, out, paths, opts, mode="vjp")
    out.time = time.time() - t0
    return out


def check_jvp(cfg, tier="quick"):
    opts = tier_opts(tier)
    out = Outcome(cfg)
    t0 = time.time()
    paths = explore_cfg(cfg, out, sym_body(cfg, False, True), opts)
    if paths is None:
        if out.detail.startswith("unsupported by the symbolic engine"):
            float_probe(cfg, out, "jvp")
        out.time = time.time() - t0
        return out
    _decide(cfg, out, paths, opts, mode="jvp")
    out.time = time.time() - t0
    return out


def _float_raises(cfg, mode):
    """does the same call raise on float64 inputs (real code, no symbolic values)?"""
    rng = _rng(cfg)
    names = []
    p = cfg.make_args()
    names = all_var_names(p)
    env = rand_env(names, rng)
    try:
        if mode == "vjp":
            yv, _, _ = float_vjp(cfg, _with_g(cfg, env, rng))
        else:
            float_jvp(cfg, _with_v(cfg, env, rng))
        return None
    except Exception as e:
        return e


def _numpy_float_raises(cfg):
    rng = _rng(cfg)
    env = _Default(rand_env(all_var_names(cfg.make_args()), rng), rng)
    try:
        with warnings.catch_warnings():
            warnings.simplefilter("ignore")
            getattr(cfg, "oracle", cfg.call)(onp, *cfg.float_args(env))
        return False
    except Exception:
        return True


class _Default(dict):
    def __init__(self, base, rng):
        super().__init__(base)
        self.rng = rng

    def __missing__(self, k):
        v = self.rng.choice([-1, 1]) * (self.rng.randrange(3, 128) / 64.0)
        self[k] = v
        return v


def _with_g(cfg, env, rng):
    return _Default(env, rng)


_with_v = _with_g


def _decide(cfg, out, paths, opts, mode):
    k = cfg.argnum
    nrej = 0
    nraise = 0
    nok = 0
    notes = set()
    exc_key = "vjp_exc" if mode == "vjp" else "jvp_exc"
    for p in paths:
        if p.err is not None:
            out.status, out.detail = "error", "harness: body raised %s" % exc_sig(p.err)
            return
        res = p.res
        notes |= p.notes
        out.abstracted = out.abstracted or p.abstracted
        if res["tag"] == "numpy_rejects":
            nrej += 1
            out.detail = exc_sig(res["exc"])
            continue
        if res["tag"] == "nonnumeric":
            out.status, out.detail = "holds", "NumPy's result is not numeric (%s): nothing to differentiate" % type(res["y"]).__name__
            return
        # reachability witness (first path only needs the solver if no claim query follows)
        r, m = witness(p, out, opts)
        if r == "unsat":
            out.paths_dropped += 1
            continue
        if exc_key in res:
            nraise += 1
            out.detail = exc_sig(res[exc_key])
            out.extra["raised"] = type(res[exc_key]).__name__
            continue
        nok += 1
        x = res["x"]
        if mode == "vjp":
            got = res["got"]
            if structure(got)[:2] != structure(x)[:2] or len(leaves(got)) != len(leaves(x)):
                _violation(cfg, out, p, m if r == "sat" else {}, opts, mode,
                           "cotangent structure %s differs from argument structure %s" % (structure(got), structure(x)),
                           structural=True)
                return
            # real pairing with the documented conjugation: <conj(vjp(g)), d>_R == <conj(g), J_R d>_R
            lhs = pair(got, x, 0, 1, conj_a=True)
            rhs = pair(res["g"], res["y"], 0, 1, conj_a=True)
            eqs = [(lhs, rhs)]
            gvars = [t for t in coeffs(res["g"], 0) if type(t) is not Fr and z3.is_const(t)]
        else:
            tan = res["tan"]
            y = res["y"]
            if structure(tan)[:2] != structure(y)[:2] or len(leaves(tan)) != len(leaves(y)):
                _violation(cfg, out, p, m if r == "sat" else {}, opts, mode,
                           "tangent structure %s differs from output structure %s" % (structure(tan), structure(y)),
                           structural=True)
                return
            # the tangent v is the direction d itself: tangent == f'(x; d) entry-wise (as complex numbers)
            eqs = leaf_eqs(tan, 0, y, 1)
        v, model = prove_eqs(p, eqs, dir_vars(x), out, opts, split_vars2=gvars if mode == "vjp" else ())
        if v == "unsat":
            continue
        if v == "unknown":
            out.status = "inconclusive"
            out.detail = "solver returned unknown (z3 and cvc5) on a %s claim" % mode
            out.notes = sorted(notes)
            return
        _violation(cfg, out, p, model or {}, opts, mode, "derivative differs from the oracle")
        if out.status is not None:
            out.notes = sorted(notes)
            return
    out.notes = sorted(notes)
    if nok == 0:
        if nraise:
            e = _float_raises(cfg, mode)
            if e is None:
                out.status = "inconclusive"
                out.detail = "unsupported by the symbolic engine: symbolic run raised (%s) but the float64 run does not" % out.detail
                float_probe(cfg, out, mode)
            else:
                out.status = "raises"
                out.detail = exc_sig(e)
        elif nrej:
            if _numpy_float_raises(cfg):
                out.status = "numpy_rejects"
            else:
                out.status = "inconclusive"
                out.detail = "NumPy accepts this call on float64 but has no object-dtype path (%s)" % out.detail
        else:
            out.status, out.detail = "error", "no feasible path was witnessed (vacuous harness)"
        return
    if nraise:
        out.extra["partial_raise"] = nraise
    msgs = validate_path(cfg, out, paths, mode == "vjp", mode == "jvp")
    if msgs:
        # the object-dtype run and the float64 run of the real code disagree.  If the float64 derivative is itself wrong
        # against finite differences of NumPy's function (3/3 random regular points) this is a violation observed on
        # the real arrays; otherwise the model is at fault.
        out.detail = "translation validation failed: " + "; ".join(msgs)
        float_probe(cfg, out, mode)
        if out.status == "violation":
            return
        out.status = "error"
        return
    out.status = "holds"


def _neq(a, b):
    d = t_sub(a, b)
    if type(d) is Fr:
        return d != 0
    return d != 0


def _violation(cfg, out, p, model, opts, mode, what, structural=False):
    """a sat verdict: replay on float64 before calling it a violation"""
    rng = _rng(cfg)
    objs = list(p.res["args"]) + [p.res.get("g"), p.res.get("v")]
    names = all_var_names([o for o in objs if o is not None])
    tries = 0
    info = ""
    while True:
        env0 = model_env(model, names, rng)
        env = _Default(env0, rng)
        try:
            rep, info = (replay_vjp if mode == "vjp" else replay_jvp)(cfg, env)
        except Exception as e:
            rep, info = False, "replay raised %s" % exc_sig(e)
        if rep:
            out.status = "violation"
            out.detail = "%s; %s" % (what, info)
            out.cex = {"env": {k_: float(v) for k_, v in env.items() if "!" not in k_}, "mode": mode, "info": info,
                       "decisions": p.decisions}
            return
        tries += 1
        if structural or not p.abstracted or tries >= 3:
            break
        # abstraction may have produced a spurious model: block this input point and ask again
        block = []
        for n, v in term_vars(p.antecedent()).items():
            if "!" in n or n not in model:
                continue
            block.append(v != z3.RealVal(str(model[n])))
        if not block:
            break
        r, model2, _ = solve.check(p.antecedent() + [z3.Or(block)], timeout_ms=opts["timeout_ms"])
        if r != "sat":
            break
        model = model2
    if p.abstracted and not structural:
        out.status = "inconclusive"
        out.detail = "solver model under transcendental abstraction does not reproduce on float64 (%s)" % info
    else:
        out.status = "error"
        out.detail = "counterexample from an exact query does not reproduce on float64: %s; %s" % (what, info)
        out.cex = {"env": {k_: float(v) for k_, v in env.items() if "!" not in k_}, "mode": mode, "info": info}


def replay_jvp(cfg, env, tol=1e-5):
    try:
        yv, v, tan = float_jvp(cfg, env)
    except Exception as e:
        return False, "float64 run raised %s" % exc_sig(e)
    with warnings.catch_warnings():
        warnings.simplefilter("ignore")
        y = getattr(cfg, "oracle", cfg.call)(onp, *cfg.float_args(env))
    if structure(tan)[:2] != structure(y)[:2]:
        return True, "tangent structure %s != output structure %s" % (structure(tan), structure(y))
    try:
        fd = float_dir_deriv(cfg, env)
    except NonSmooth as e:
        return False, str(e)
    if any(math.isnan(b) or math.isinf(b) for b in fd):
        return False, "NumPy's own function is not finite here (not a regular point)"
    tf = []
    for e_t, e_y in zip(leaves(tan), leaves(y)):
        e_t = complex(e_t)
        if isinstance(e_y, (complex, onp.complexfloating)):
            tf.extend([e_t.real, e_t.imag])
        else:
            tf.append(e_t.real)
    scale = max([1.0] + [abs(a) for a in tf] + [abs(b) for b in fd])
    bad = len(tf) != len(fd) or any(math.isnan(a) or abs(a - b) > tol * 10 * scale for a, b in zip(tf, fd))
    return bad, "jvp=%s finite difference=%s" % ([round(a, 6) for a in tf[:6]], [round(b, 6) for b in fd[:6]])


# ----------------------------------------------------------------------------------------------
# C01 kink claim (explicit-tie primitives): finite, and between the two one-sided directional derivatives


def unit_like(v, k):
    """concrete unit cotangent e_k with the structure of v (real leaves only)"""
    shape = onp.shape(v)
    if shape == () and not isinstance(v, onp.ndarray):
        return 1.0
    g = onp.zeros(shape)
    g.ravel()[k] = 1.0
    return g


def z3_divs(terms):
    """denominators of every division node in the terms"""
    seen = set()
    dens = []
    stack = [t for t in terms if isinstance(t, z3.ExprRef)]
    while stack:
        t = stack.pop()
        i = t.get_id()
        if i in seen:
            continue
        seen.add(i)
        if t.decl().kind() == z3.Z3_OP_DIV:
            dens.append(t.children()[1])
        stack.extend(t.children())
    return dens


def kink_body(cfg):
    from autograd import core

    k = cfg.argnum
    anp = enga.anp
    pins = getattr(cfg, "pins", None)

    def body():
        dual = cfg.make_args(eps={k: {1: "d"}})
        if pins:
            for (idx, val) in pins:
                e = dual[k][idx] if idx is not None else dual[k]
                CTX.add_assume(toz(e.c[0]) == toz(Fr(val)), "pinned to the kink")
        try:
            yp = cfg.call(onp, *dual)
        except (Unsupported, Infeasible, PathLimit):
            raise
        except Exception as e:
            return {"tag": "numpy_rejects", "exc": e}
        neg = list(dual)
        neg[k] = _negate_dir(dual[k])
        ym = cfg.call(onp, *neg)
        res = {"tag": "ok", "x": dual[k], "yp": yp, "ym": ym, "args": dual}
        plain = cfg.make_args()
        f = lambda x: cfg.call(anp, *subst(plain, k, x))
        CTX.strict_div = True
        try:
            vjp, yv = core.make_vjp(f, plain[k])
            n = len(leaves(yv))
            gots = []
            for j in range(n):
                gots.append(vjp(unit_like(yv, j)))
            res["gots"] = gots
            res["yv"] = yv
        except (Unsupported, Infeasible, PathLimit):
            raise
        except Exception as e:
            res["vjp_exc"] = e
        finally:
            CTX.strict_div = False
        return res

    return body


def _negate_dir(xd):
    if isinstance(xd, dict):
        return {k_: _negate_dir(v_) for k_, v_ in xd.items()}
    if isinstance(xd, (tuple, list)):
        return type(xd)(_negate_dir(v_) for v_ in xd)
    if isinstance(xd, S):
        return S({m: (t if m == 0 else (-t if type(t) is Fr else -t)) for m, t in xd.c.items()})
    out = onp.empty(onp.shape(xd), dtype=object)
    for i in onp.ndindex(*onp.shape(xd)):
        out[i] = _negate_dir(xd[i])
    return out


def check_kink(cfg, tier="quick"):
    opts = tier_opts(tier)
    out = Outcome(cfg)
    t0 = time.time()
    cfg.mode = "lex"
    paths = explore_cfg(cfg, out, kink_body(cfg), opts)
    if paths is None:
        out.time = time.time() - t0
        return out
    nok = 0
    ntie = 0
    for p in paths:
        if p.err is not None:
            out.status, out.detail = "error", "harness: body raised %s" % exc_sig(p.err)
            break
        res = p.res
        if res["tag"] == "numpy_rejects":
            out.status, out.detail = "numpy_rejects", exc_sig(res["exc"])
            break
        r, m = witness(p, out, opts)
        if r == "unsat":
            out.paths_dropped += 1
            continue
        if "vjp_exc" in res:
            out.status, out.detail = "raises", exc_sig(res["vjp_exc"])
            break
        nok += 1
        x = res["x"]
        dvs = coeffs(x, 1)
        is_tie = any(_mentions_eq(c) for c in p.pc) or bool(getattr(cfg, "pins", None))
        ntie += 1 if is_tie else 0
        ante = p.antecedent()
        # finiteness: every denominator in the returned cotangent must be non-zero on this path
        all_terms = []
        for got in res["gots"]:
            if structure(got)[:2] != structure(x)[:2]:
                out.status, out.detail = "violation", "cotangent structure %s differs from argument structure %s" % (structure(got), structure(x))
                out.cex = {"env": {}, "mode": "kink"}
                break
            all_terms.extend(t for t in coeffs(got, 0) if type(t) is not Fr)
        if out.status:
            break
        bad = None
        for den in z3_divs(all_terms):
            r2, m2, _ = solve.check(ante + [den == 0], timeout_ms=opts["timeout_ms"])
            out.queries += 1
            out.verdicts[r2] += 1
            if r2 == "sat":
                bad = ("non-finite: a denominator of the returned cotangent vanishes on this path", m2)
                break
            if r2 == "unknown":
                out.status, out.detail = "inconclusive", "solver unknown on a finiteness obligation"
                break
        if out.status:
            break
        if bad is None:
            yp, ym = coeffs(res["yp"], 1), coeffs(res["ym"], 1)
            for j, got in enumerate(res["gots"]):
                L = Fr(0)
                from .sym import t_add, t_mul
                for a, b in zip(coeffs(got, 0), dvs):
                    L = t_add(L, t_mul(a, b))
                Dp = yp[j]
                Dm = -ym[j] if type(ym[j]) is Fr else -ym[j]
                e1, e2 = t_sub(L, Dp), t_sub(L, Dm)
                if type(e1) is Fr and type(e2) is Fr:
                    if e1 * e2 > 0:
                        bad = ("outside the one-sided derivatives (constant)", m or {})
                        break
                    continue
                neg = toz(e1) * toz(e2) > 0
                r2, m2, _ = solve.check(ante + [neg], timeout_ms=opts["timeout_ms"])
                out.queries += 1
                out.verdicts[r2] += 1
                if r2 == "sat":
                    bad = ("<vjp(e_%d),d> lies outside [min,max] of the one-sided directional derivatives" % j, m2)
                    break
                if r2 == "unknown":
                    out.status, out.detail = "inconclusive", "solver unknown on a kink claim"
                    break
            if out.status:
                break
        if bad is not None:
            what, model = bad
            rep, info, env = replay_kink(cfg, p, model or {})
            if rep:
                out.status = "violation"
                out.detail = "%s; %s" % (what, info)
                out.cex = {"env": env, "mode": "kink", "info": info}
            else:
                out.status = "error"
                out.detail = "kink counterexample does not reproduce on float64: %s; %s" % (what, info)
                out.cex = {"env": env, "mode": "kink", "info": info}
            break
    if out.status is None:
        if nok == 0:
            out.status, out.detail = "error", "no feasible path witnessed"
        else:
            out.status = "holds"
            out.extra["tie_paths"] = ntie
    out.time = time.time() - t0
    return out


def _mentions_eq(c):
    """does the PC atom equate two value-level terms (a tie)?"""
    if not isinstance(c, z3.ExprRef):
        return False
    k = c.decl().kind()
    if k == z3.Z3_OP_EQ:
        return True
    if k == z3.Z3_OP_AND:
        return any(_mentions_eq(x) for x in c.children())
    if k == z3.Z3_OP_NOT:
        ch = c.children()[0]
        # not(a<b) and not(a>b) style ties are not produced by the executor; Not(Eq) is a non-tie
        return False
    if k in (z3.Z3_OP_LE, z3.Z3_OP_GE):
        return False
    return False


def replay_kink(cfg, p, model, h=1e-6, tol=1e-4):
    """float64: autograd's cotangent at the tie point must be finite and pair with d inside the one-sided
    finite-difference derivatives of NumPy's function"""
    from autograd import core

    rng = _rng(cfg)
    names = all_var_names(list(p.res["args"]))
    env = _Default(model_env(model, names, rng), rng)
    k = cfg.argnum
    fa = cfg.float_args(env)
    d = cfg.float_dir(k, env, "d")
    anp = enga.anp
    try:
        with warnings.catch_warnings():
            warnings.simplefilter("ignore")
            vjp, yv = core.make_vjp(lambda x: cfg.call(anp, *subst(fa, k, x)), fa[k])
            n = len(flat_float(yv))
            Dp = float_dir_deriv(cfg, env, h=h, one_sided=+1)
            Dm = float_dir_deriv(cfg, env, h=h, one_sided=-1)
            for j in range(n):
                got = vjp(unit_like(yv, j))
                gf = flat_float(got)
                if any(math.isnan(a) or math.isinf(a) for a in gf):
                    return True, "cotangent for output %d is non-finite: %s" % (j, gf[:6]), dict(env)
                L = dot(gf, flat_float(d))
                lo, hi = min(Dp[j], Dm[j]), max(Dp[j], Dm[j])
                sc = max(1.0, abs(lo), abs(hi))
                if L < lo - tol * sc or L > hi + tol * sc:
                    return True, "output %d: <vjp,d>=%.6g not in [%.6g, %.6g]" % (j, L, lo, hi), dict(env)
    except Exception as e:
        return False, "float64 run raised %s" % exc_sig(e), dict(env)
    return False, "within one-sided derivatives", dict(env)


# ----------------------------------------------------------------------------------------------
# replay of a stored counterexample file


def replay_file(prop, path, items):
    import json

    with open(path) as f:
        data = json.load(f)
    cex = data.get("cex") or {}
    if cex.get("mode") == "width":
        from .props import width_probe

        enga.init()
        bad = [r for r in width_probe.run() if r["key"] == cex.get("key") and r["status"] == "violation"]
        for r in bad:
            print("replay %s: %s" % (r["key"], r["detail"]))
        if bad:
            print("VIOLATION property=%s replay=%s" % (prop, path))
            return 1
        print("does not reproduce on the current tree")
        return 0
    if cex.get("mode") == "pinned":
        from .props import pinned_probe

        enga.init()
        bad = [r for r in pinned_probe.run() + pinned_probe.run_adjoint() + pinned_probe.run_nested() + pinned_probe.run_complex() + pinned_probe.run_linear_extreme() if r["key"] == cex.get("key") and r["status"] == "violation"]
        for r in bad:
            print("replay %s: %s" % (r["key"], r["detail"]))
        if bad:
            print("VIOLATION property=%s replay=%s" % (prop, path))
            return 1
        print("does not reproduce on the current tree")
        return 0
    key = data.get("key")
    cfg = None
    for c in items:
        if c.key == key:
            cfg = c
            break
    if cfg is None:
        print("replay: configuration %r not found in the current grid" % key)
        return 3
    cex = data.get("cex") or {}
    env = _Default(cex.get("env") or {}, random.Random(0))
    mode = cex.get("mode", "vjp")
    if mode == "kink":
        class P:
            pass
        p = P()
        p.res = {"args": cfg.make_args(eps={cfg.argnum: {1: "d"}})}
        rep, info, _ = replay_kink(cfg, p, {k: v for k, v in env.items()})
    elif mode == "jvp":
        rep, info = replay_jvp(cfg, env)
    else:
        rep, info = replay_vjp(cfg, env)
    print("replay %s: %s" % (key, info))
    if rep:
        print("VIOLATION property=%s replay=%s" % (prop, path))
        return 1
    print("does not reproduce on the current tree")
    return 0


# ----------------------------------------------------------------------------------------------
# C04: adjointness and linearity of the two rule tables (no oracle involved)


def check_adjoint(cfg, tier="quick"):
    from autograd import core
    from .sym import sym, t_add, t_mul

    opts = tier_opts(tier)
    out = Outcome(cfg)
    t0 = time.time()
    k = cfg.argnum
    anp = enga.anp

    def comb(a, u1, b, u2):
        """a*u1 + b*u2 on symbolic structures (a, b scalars S)"""
        if isinstance(u1, (tuple, list)):
            return type(u1)(comb(a, p, b, q) for p, q in zip(u1, u2)) if not hasattr(u1, "_fields") else type(u1)(*[comb(a, p, b, q) for p, q in zip(u1, u2)])
        return a * u1 + b * u2

    def body():
        plain = cfg.make_args()
        f = lambda x: cfg.call(anp, *subst(plain, k, x))
        res = {"tag": "ok", "args": plain}
        try:
            vjp, yv = core.make_vjp(f, plain[k])
        except (Unsupported, Infeasible, PathLimit):
            raise
        except Exception as e:
            return {"tag": "raises", "exc": e, "args": plain}
        g1, g2 = sym_like(yv, "g"), sym_like(yv, "h")
        v1, v2 = sym_like(plain[k], "v"), sym_like(plain[k], "w")
        a, b = sym("a"), sym("b")
        try:
            res["G1"], res["G2"] = vjp(g1), vjp(g2)
            res["G12"] = vjp(comb(a, g1, b, g2))
            jv = core.make_jvp(f, plain[k])
            res["T1"] = jv(v1)[1]
            res["T2"] = jv(v2)[1]
            res["T12"] = jv(comb(a, v1, b, v2))[1]
        except (Unsupported, Infeasible, PathLimit):
            raise
        except Exception as e:
            return {"tag": "raises", "exc": e, "args": plain}
        res.update(g1=g1, g2=g2, v1=v1, v2=v2, a=a, b=b, yv=yv)
        return res

    paths = explore_cfg(cfg, out, body, opts)
    if paths is None:
        out.time = time.time() - t0
        return out
    nok = 0
    for p in paths:
        if p.err is not None:
            out.status, out.detail = "error", "harness: body raised %s" % exc_sig(p.err)
            break
        res = p.res
        if res["tag"] == "raises":
            out.detail = exc_sig(res["exc"])
            continue
        r, m = witness(p, out, opts)
        if r == "unsat":
            out.paths_dropped += 1
            continue
        nok += 1
        a, b = res["a"].c[0], res["b"].c[0]
        eqs = []
        names = []
        # adjointness (documented conjugation for complex values)
        try:
            adj = (pair(res["g1"], res["T1"], 0, 0, conj_a=True), pair(res["G1"], res["v1"], 0, 0, conj_a=True))
            for c12, c1, c2 in zip(coeffs(res["T12"]), coeffs(res["T1"]), coeffs(res["T2"])):
                eqs.append((c12, t_add(t_mul(a, c1), t_mul(b, c2))))
                names.append("jvp linear")
            for c12, c1, c2 in zip(coeffs(res["G12"]), coeffs(res["G1"]), coeffs(res["G2"])):
                eqs.append((c12, t_add(t_mul(a, c1), t_mul(b, c2))))
                names.append("vjp linear")
            # adjointness last: once both maps are proved linear, the identity is bilinear in (g, v) and may be
            # split over unit tangents
            eqs.append(adj)
            names.append("<g,jvp(v)> == <vjp(g),v>")
        except ValueError as e:
            # <vjp(g), v> pairs the reverse map's result with a tangent of the ARGUMENT: if that result does not have the
            # argument's shape no adjoint pairing exists at all.  Confirm the shapes on float64 before reporting.
            mism = None
            try:
                fr = _adj_floats(cfg, _Default({}, _rng(cfg)))
                if _shape_struct(fr["G1"]) != _shape_struct(fr["v1"]):
                    mism = "vjp(g) has structure %s, the argument (and its tangents) %s" % (_shape_struct(fr["G1"]), _shape_struct(fr["v1"]))
                elif _shape_struct(fr["T1"]) != _shape_struct(fr["g1"]):
                    mism = "jvp(v) has structure %s, the output (and its cotangents) %s" % (_shape_struct(fr["T1"]), _shape_struct(fr["g1"]))
            except Exception:
                pass
            if mism:
                out.status, out.detail = "violation", "no adjoint pairing exists: " + mism
                out.cex = {"env": {}, "mode": "adjoint", "info": mism}
            else:
                out.status, out.detail = "inconclusive", "structure mismatch between rule results (decided by C05): %s" % e
            break
        if len(coeffs(res["T12"])) != len(coeffs(res["T1"])) or len(coeffs(res["G12"])) != len(coeffs(res["G1"])):
            out.status, out.detail = "inconclusive", "structure mismatch between rule results (decided by C05)"
            break
        bad = None
        vvars = [t for t in coeffs(res["v1"]) if type(t) is not Fr and z3.is_const(t)]
        for (l, rr), nm in zip(eqs, names):
            v, model = prove_eqs(p, [(l, rr)], vvars if nm.startswith("<g") else [], out, opts)
            if v == "unknown":
                out.status, out.detail = "inconclusive", "solver unknown on %s" % nm
                break
            if v == "sat":
                bad = (nm, model)
                break
        if out.status:
            break
        if bad:
            nm, model = bad
            rep, info, env = replay_adjoint(cfg, p, model or {}, nm)
            if rep:
                out.status, out.detail = "violation", "%s fails; %s" % (nm, info)
                out.cex = {"env": env, "mode": "adjoint", "info": info}
            elif p.abstracted:
                out.status, out.detail = "inconclusive", "model under abstraction does not reproduce (%s)" % info
            else:
                out.status, out.detail = "error", "counterexample to %s does not reproduce on float64: %s" % (nm, info)
            break
    if out.status is None:
        if nok == 0:
            e = None
            try:
                rng = _rng(cfg)
                env = _Default({}, rng)
                float_vjp(cfg, env)
                float_jvp(cfg, env)
            except Exception as ex:
                e = ex
            if e is None and any(p.res and p.res.get("tag") == "raises" for p in paths):
                out.status, out.detail = "inconclusive", "symbolic run raised (%s) but float64 does not" % out.detail
            else:
                out.status = "raises"
        else:
            out.status = "holds"
            out.validated += 1 if _validate_adjoint(cfg) else 0
    out.time = time.time() - t0
    return out


def _adj_floats(cfg, env):
    from autograd import core

    anp = enga.anp
    fa = cfg.float_args(env)
    k = cfg.argnum
    f = lambda x: cfg.call(anp, *subst(fa, k, x))
    with warnings.catch_warnings():
        warnings.simplefilter("ignore")
        vjp, yv = core.make_vjp(f, fa[k])
        g1, g2 = float_like(yv, "g", env), float_like(yv, "h", env)
        v1, v2 = float_like(fa[k], "v", env), float_like(fa[k], "w", env)
        a, b = env["a"], env["b"]
        lin = lambda s, t, u1, u2: (s * onp.asarray(u1) + t * onp.asarray(u2)) if not isinstance(u1, (tuple, list)) else type(u1)(lin(s, t, p, q) for p, q in zip(u1, u2))
        G1, G2, G12 = vjp(g1), vjp(g2), vjp(lin(a, b, g1, g2))
        jv = core.make_jvp(f, fa[k])
        T1, T2, T12 = jv(v1)[1], jv(v2)[1], jv(lin(a, b, v1, v2))[1]
    return dict(g1=g1, v1=v1, G1=G1, G2=G2, G12=G12, T1=T1, T2=T2, T12=T12, a=a, b=b)


def replay_adjoint(cfg, p, model, nm, tol=1e-7):
    rng = _rng(cfg)
    env = _Default({k_: float(v) for k_, v in model.items() if "!" not in k_}, rng)
    try:
        r = _adj_floats(cfg, env)
    except Exception as e:
        return False, "float64 run raised %s" % exc_sig(e), dict(env)
    if _shape_struct(r["G1"]) != _shape_struct(r["v1"]):
        return True, "no adjoint pairing exists: vjp(g) has structure %s, the argument %s" % (_shape_struct(r["G1"]), _shape_struct(r["v1"])), dict(env)
    if _shape_struct(r["T1"]) != _shape_struct(r["g1"]):
        return True, "no adjoint pairing exists: jvp(v) has structure %s, the output %s" % (_shape_struct(r["T1"]), _shape_struct(r["g1"])), dict(env)
    lhs, rhs = cdot(r["g1"], r["T1"]), cdot(r["G1"], r["v1"])
    sc = max(1.0, abs(lhs), abs(rhs))
    if abs(lhs - rhs) > tol * sc:
        return True, "<g,jvp(v)>=%.12g but <vjp(g),v>=%.12g" % (lhs, rhs), dict(env)
    for key12, k1, k2, what in (("T12", "T1", "T2", "jvp"), ("G12", "G1", "G2", "vjp")):
        a12 = onp.array(flat_float(r[key12]))
        comb = r["a"] * onp.array(flat_float(r[k1])) + r["b"] * onp.array(flat_float(r[k2]))
        if a12.shape != comb.shape or onp.max(onp.abs(a12 - comb), initial=0.0) > tol * max(1.0, float(onp.max(onp.abs(comb), initial=0.0))):
            return True, "%s is not linear: %s vs %s" % (what, a12[:4], comb[:4]), dict(env)
    return False, "adjointness and linearity hold at the model point", dict(env)


def _validate_adjoint(cfg):
    rng = _rng(cfg)
    env = _Default({}, rng)
    try:
        rep, info, _ = replay_adjoint(cfg, None, {}, "")
        return not rep
    except Exception:
        return False


# ----------------------------------------------------------------------------------------------
# C05: structure (container nesting, shape incl. () vs (1,), real/complex kind) of VJP / JVP results


def check_structure(cfg, tier="quick"):
    opts = tier_opts(tier)
    out = Outcome(cfg)
    t0 = time.time()
    paths = explore_cfg(cfg, out, sym_body(cfg, True, True), opts)
    if paths is None:
        out.time = time.time() - t0
        return out
    nok = 0
    nraise = 0
    for p in paths:
        if p.err is not None:
            out.status, out.detail = "error", "harness: body raised %s" % exc_sig(p.err)
            break
        res = p.res
        if res["tag"] == "numpy_rejects":
            out.status, out.detail = ("numpy_rejects" if _numpy_float_raises(cfg) else "inconclusive"), exc_sig(res["exc"])
            break
        r, m = witness(p, out, opts)
        if r == "unsat":
            out.paths_dropped += 1
            continue
        bad = None
        checked = 0
        if "got" in res:
            checked += 1
            if structure(res["got"]) != structure(res["x"]):
                bad = ("vjp", "VJP result %s does not have the structure of the argument %s" % (structure(res["got"]), structure(res["x"])))
        if bad is None and "tan" in res:
            checked += 1
            if structure(res["tan"]) != structure(res["y"]):
                bad = ("jvp", "JVP result %s does not have the structure of the output %s" % (structure(res["tan"]), structure(res["y"])))
        if checked == 0:
            nraise += 1
            out.detail = exc_sig(res.get("vjp_exc") or res.get("jvp_exc"))
            continue
        nok += 1
        if bad:
            mode, what = bad
            rng = _rng(cfg)
            env = _Default(model_env(m or {}, all_var_names(list(res["args"])), rng), rng)
            rep, info = replay_structure(cfg, env, mode)
            if rep:
                out.status, out.detail = "violation", "%s; float64: %s" % (what, info)
                out.cex = {"env": {k_: float(v) for k_, v in env.items() if "!" not in k_}, "mode": "structure-" + mode, "info": info}
            else:
                out.status, out.detail = "inconclusive", "structure differs on symbolic arrays only (object-dtype artefact): %s; float64: %s" % (what, info)
            break
    if out.status is None:
        if nok == 0:
            out.status = "raises" if nraise else "error"
        else:
            out.status = "holds"
            out.validated += 1
    out.time = time.time() - t0
    return out


def replay_structure(cfg, env, mode):
    try:
        if mode == "vjp":
            yv, g, got = float_vjp(cfg, env)
            want = structure(cfg.float_args(env)[cfg.argnum])
            have = structure(got)
        else:
            yv, v, tan = float_jvp(cfg, env)
            want = structure(yv)
            have = structure(tan)
    except Exception as e:
        return False, "float64 run raised %s" % exc_sig(e)
    return have != want, "%s result structure %s, expected %s" % (mode, have, want)


# ----------------------------------------------------------------------------------------------
# C10-A: nothing un-owned is written; VJP / JVP functions are reusable


def _freeze(a):
    if isinstance(a, onp.ndarray):
        a.flags.writeable = False
    elif isinstance(a, (tuple, list)):
        for e in a:
            _freeze(e)
    elif isinstance(a, dict):
        for e in a.values():
            _freeze(e)


def _ids(a):
    """identity fingerprint of a value: the ids of the entry objects of object-dtype arrays (an in-place write
    replaces an entry), the bytes of numeric arrays, ids of scalars"""
    if isinstance(a, dict):
        return [(k, _ids(a[k])) for k in a]
    if isinstance(a, (tuple, list)):
        return [_ids(x) for x in a]
    if isinstance(a, onp.ndarray):
        if a.dtype == object:
            return [id(e) for e in a.ravel(order="K").tolist()] if a.ndim else [id(a.item())]
        return a.tobytes()
    return id(a)


def _captured_arrays(fn, depth=0, seen=None):
    """numeric ndarrays a configuration's function closes over (index arrays, weights, option arrays): caller-owned memory
    just like the arguments"""
    import types

    seen = set() if seen is None else seen
    out = []
    if depth > 3 or id(fn) in seen:
        return out
    seen.add(id(fn))

    def visit(v, d):
        if isinstance(v, onp.ndarray):
            if v.dtype != object and id(v) not in seen:
                seen.add(id(v))
                out.append(v)
        elif isinstance(v, (tuple, list)) and d < 3:
            for e in v:
                visit(e, d + 1)
        elif isinstance(v, dict) and d < 3:
            for e in v.values():
                visit(e, d + 1)
        elif isinstance(v, types.FunctionType):
            out.extend(_captured_arrays(v, depth + 1, seen))

    if isinstance(fn, types.FunctionType):
        for cell in fn.__closure__ or ():
            try:
                visit(cell.cell_contents, 0)
            except ValueError:
                pass
        for dflt in (fn.__defaults__ or ()):
            visit(dflt, 0)
        for dflt in (fn.__kwdefaults__ or {}).values():
            visit(dflt, 0)
    return out


def check_reuse(cfg, tier="quick"):
    from autograd import core

    opts = tier_opts(tier)
    out = Outcome(cfg)
    t0 = time.time()
    k = cfg.argnum
    anp = enga.anp

    def body():
        plain = cfg.make_args()
        for a in plain:
            _freeze(a)
        f = lambda x: cfg.call(anp, *subst(plain, k, x))
        res = {"tag": "ok", "args": plain}
        in_ids = [_ids(a) for a in plain if isinstance(a, onp.ndarray)]
        try:
            vjp, yv = core.make_vjp(f, plain[k])
            g1, g2 = sym_like(yv, "g"), sym_like(yv, "h")
            _freeze(g1)
            _freeze(g2)
            gi = (_ids(g1), _ids(g2))
            r1 = vjp(g1)
            r1_ids = _ids(r1)
            r1_terms = coeffs(r1)
            r1b = vjp(g1)  # the very next call (state that flips on every call shows on even-numbered calls)
            r2 = vjp(g2)
            r3 = vjp(g1)
            res.update(r1=r1, r1b=r1b, r2=r2, r3=r3, r1_terms=r1_terms, r1_same=(_ids(r1) == r1_ids), g_same=((_ids(g1), _ids(g2)) == gi))
            res["r1_after"] = coeffs(r1)
        except (Unsupported, Infeasible, PathLimit):
            raise
        except ValueError as e:
            if "read-only" in str(e):
                return {"tag": "write", "exc": e, "args": plain}
            return {"tag": "raises", "exc": e, "args": plain}
        except Exception as e:
            return {"tag": "raises", "exc": e, "args": plain}
        try:
            jv = core.make_jvp(f, plain[k])
            v1, v2 = sym_like(plain[k], "v"), sym_like(plain[k], "w")
            _freeze(v1)
            _freeze(v2)
            t1 = jv(v1)[1]
            t1_terms = coeffs(t1)
            t1b = jv(v1)[1]
            t2 = jv(v2)[1]
            t3 = jv(v1)[1]
            res.update(t1_terms=t1_terms, t1_after=coeffs(t1), t3=t3, t1b=t1b)
            # re-entrancy: the SAME JVP function is called again (other tangent) while a call of it is still tracing,
            # between two uses of the input; the outer call must still return its own answer: f_re = f + 2 f = 3 f
            st = {"jv": None, "busy": False}

            def f_re(x):
                a = f(x)
                if st["jv"] is not None and not st["busy"]:
                    st["busy"] = True
                    try:
                        st["jv"](v2)
                    finally:
                        st["busy"] = False
                return a + f(x) * 2.0

            if not isinstance(yv, (tuple, list, dict)):
                jv_re = core.make_jvp(f_re, plain[k])
                st["jv"] = jv_re
                res["t_re"] = jv_re(v1)[1]
        except (Unsupported, Infeasible, PathLimit):
            raise
        except ValueError as e:
            if "read-only" in str(e):
                return {"tag": "write", "exc": e, "args": plain}
        except Exception:
            pass
        res["in_same"] = [_ids(a) for a in plain if isinstance(a, onp.ndarray)] == in_ids
        return res

    paths = explore_cfg(cfg, out, body, opts)
    if paths is None:
        # the object-dtype engine cannot run this configuration (LAPACK-backed primitives, ...): the float64 protocol alone decides
        if not _float_reuse_ok(cfg) and _float_reuse_ok.why and not _float_reuse_ok(cfg) and _float_reuse_ok.why:
            out.status, out.detail = "violation", _float_reuse_ok.why
            out.cex = {"env": {}, "mode": "reuse"}
        out.time = time.time() - t0
        return out
    nok = 0
    for p in paths:
        if p.err is not None:
            out.status, out.detail = "error", "harness: body raised %s" % exc_sig(p.err)
            break
        res = p.res
        if res["tag"] == "raises":
            out.detail = exc_sig(res["exc"])
            continue
        r, m = witness(p, out, opts)
        if r == "unsat":
            out.paths_dropped += 1
            continue
        if res["tag"] == "write":
            out.status, out.detail = "violation", "differentiation tried to write into read-only (caller-owned) memory: %s" % exc_sig(res["exc"])
            out.cex = {"env": {}, "mode": "reuse"}
            break
        nok += 1
        if not (res["in_same"] and res["g_same"] and res["r1_same"]):
            out.status, out.detail = "violation", "an input / cotangent / earlier result array had entries replaced (inputs %s, cotangents %s, earlier result %s)" % (res["in_same"], res["g_same"], res["r1_same"])
            out.cex = {"env": {}, "mode": "reuse"}
            break
        eqs = list(zip(coeffs(res["r3"]), res["r1_terms"])) + list(zip(res["r1_after"], res["r1_terms"])) + list(zip(coeffs(res["r1b"]), res["r1_terms"]))
        if "t3" in res:
            eqs += list(zip(coeffs(res["t3"]), res["t1_terms"])) + list(zip(res["t1_after"], res["t1_terms"])) + list(zip(coeffs(res["t1b"]), res["t1_terms"]))
        if "t_re" in res and len(coeffs(res["t_re"])) == len(res["t1_terms"]):
            from .sym import t_mul as _tm

            eqs += [(a_, _tm(Fr(3), b_)) for a_, b_ in zip(coeffs(res["t_re"]), res["t1_terms"])]
        v, model = prove_eqs(p, eqs, [], out, opts)
        if v == "unknown":
            out.status, out.detail = "inconclusive", "solver unknown on reuse equality"
            break
        if v == "sat":
            out.status, out.detail = "violation", "a repeated call of the VJP/JVP function returned a different answer, or an earlier result changed"
            out.cex = {"env": {k_: float(v_) for k_, v_ in (model or {}).items() if "!" not in k_}, "mode": "reuse"}
            break
    if out.status is None:
        out.status = "holds" if nok else "raises"
        if True:  # also when the object-dtype run only raised (LAPACK-backed rules): the float64 protocol still decides
            if _float_reuse_ok(cfg):
                out.validated += 1
                if not nok:
                    out.status, out.detail = "holds", "decided by the float64 protocol alone (the object-dtype engine cannot run this configuration)"
            elif _float_reuse_ok.why and not _float_reuse_ok(cfg) and _float_reuse_ok.why:
                # the symbolic (object-dtype) run is clean but the SAME protocol on real float64 memory is not, twice in a
                # row (dtype-specific fast paths, in-place normalisation of captured index arrays, ...): a violation,
                # confirmed by the float64 run itself
                out.status, out.detail = "violation", _float_reuse_ok.why
                out.cex = {"env": {}, "mode": "reuse"}
    out.time = time.time() - t0
    return out


def _float_reuse_ok(cfg):
    """the same protocol on float64 arrays with read-only flags (real memory semantics)"""
    from autograd import core

    rng = _rng(cfg)
    env = _Default({}, rng)
    anp = enga.anp
    cap = _captured_arrays(cfg.call)
    cap_copies = [onp.array(a, copy=True) for a in cap]
    _float_reuse_ok.why = None
    try:
        fa = cfg.float_args(env)
        for a in fa:
            _freeze(a)
        k = cfg.argnum
        copies = [onp.array(a, copy=True) if isinstance(a, onp.ndarray) else a for a in fa]
        with warnings.catch_warnings():
            warnings.simplefilter("ignore")
            vjp, yv = core.make_vjp(lambda x: cfg.call(anp, *subst(fa, k, x)), fa[k])
            g1, g2 = float_like(yv, "g", env), float_like(yv, "h", env)
            _freeze(g1)
            g1c = onp.array(flat_float(g1))
            yv0 = onp.array(flat_float(yv))  # the primal result handed to the caller (e.g. the U factor of an SVD)
            r1 = vjp(g1)
            r1c = onp.array(flat_float(r1))
            r1b = vjp(g1)
            vjp(g2)
            r3 = vjp(g1)
        same = lambda a_, b_: a_.shape == b_.shape and bool(onp.all((a_ == b_) | (onp.isnan(a_) & onp.isnan(b_))))  # nan results (domain edges) repeat as nan
        ok = same(onp.array(flat_float(r3)), r1c) and same(onp.array(flat_float(r1b)), r1c) and same(onp.array(flat_float(r1)), r1c) and same(onp.array(flat_float(g1)), g1c)
        why = None if ok else "on float64 arrays a repeated call of the VJP function returned a different answer, or an earlier result / the cotangent changed"
        if not same(onp.array(flat_float(yv)), yv0):
            ok, why = False, "the primal result returned to the caller was modified by calling the VJP function"
        for a, c in zip(fa, copies):
            if isinstance(a, onp.ndarray) and not onp.array_equal(a, c):
                ok, why = False, "on float64 arrays an argument array was modified"
        for a, c in zip(cap, cap_copies):
            if a.shape != c.shape or a.dtype != c.dtype or a.tobytes() != c.tobytes():
                ok, why = False, "an array the program closes over (index array / weights / option array, caller-owned) was modified by differentiation: %r -> %r" % (c.tolist(), a.tolist())
                a[...] = c  # restore: the grid object is shared by later configurations
        _float_reuse_ok.why = why
        return bool(ok)
    except Exception:
        _float_reuse_ok.why = None
        for a, c in zip(cap, cap_copies):
            if a.shape == c.shape and a.tobytes() != c.tobytes():
                a[...] = c
        return False


# ----------------------------------------------------------------------------------------------
# C17-A: checkpoint(f) has the value and the reverse-mode derivatives (orders 1, 2) of f


def check_checkpoint(cfg, tier="quick"):
    from autograd import core
    import autograd

    opts = tier_opts(tier)
    out = Outcome(cfg)
    t0 = time.time()
    k = cfg.argnum
    anp = enga.anp

    def body():
        plain = cfg.make_args()
        # the wrapped function takes an extra positional and a keyword argument with NON-default values: the recomputation
        # in the backward pass must see them too
        fk = lambda x, m, scale=1.0, shift=0.0: cfg.call(anp, *subst(plain, k, x)) * (m * scale) + shift
        cfk = autograd.checkpoint(fk)
        f = lambda x: fk(x, 2.0, scale=1.5, shift=0.25)
        cf = lambda x: cfk(x, 2.0, scale=1.5, shift=0.25)
        res = {"tag": "ok", "args": plain}
        plain_ok = False
        try:
            vjp, yv = core.make_vjp(f, plain[k])
            g = sym_like(yv, "g")
            r_plain = vjp(g)
            plain_ok = True  # f itself is differentiable here: checkpoint(f) must be too
            vjpc, yc = core.make_vjp(cf, plain[k])
            res.update(y=yv, yc=yc, r=r_plain, rc=vjpc(g))
            # second order: vjp of (x -> <vjp_f(x)(g), u>) for both
            u = sym_like(plain[k], "u")

            def second(fun):
                def inner(x):
                    v, _ = core.make_vjp(fun, x)
                    r = v(g)
                    return anp.sum(r * u) if not isinstance(r, (tuple, list)) else sum(anp.sum(a * b) for a, b in zip(r, u))
                v2, val = core.make_vjp(inner, plain[k])
                return v2(1.0 if not isinstance(val, onp.ndarray) else onp.ones(onp.shape(val)))

            res["h"] = second(f)
            res["hc"] = second(cf)
            # a constant float ARRAY (of another shape) in a positional slot BEFORE the differentiated argument: the
            # recomputed VJP must hand back the cotangent of the traced slot, not of the first slot
            w0 = onp.array([[0.5, -1.0, 0.25], [1.5, 0.75, -0.5]])
            fw = lambda w, x, m, scale=1.0: fk(x, m, scale=scale) * (1.0 + anp.sum(w * w))
            cfw = autograd.checkpoint(fw)
            vw, yw = core.make_vjp(lambda x: fw(w0, x, 2.0, scale=1.5), plain[k])
            vwc, ywc = core.make_vjp(lambda x: cfw(w0, x, 2.0, scale=1.5), plain[k])
            res.update(yw=yw, ywc=ywc, rw=vw(g), rwc=vwc(g))
        except (Unsupported, Infeasible, PathLimit):
            raise
        except Exception as e:
            return {"tag": "raises", "exc": e, "args": plain, "plain_ok": plain_ok}
        return res

    paths = explore_cfg(cfg, out, body, opts)
    if paths is None:
        out.time = time.time() - t0
        return out
    nok = 0
    for p in paths:
        if p.err is not None:
            out.status, out.detail = "error", "harness: body raised %s" % exc_sig(p.err)
            break
        res = p.res
        if res["tag"] == "raises":
            out.detail = exc_sig(res["exc"])
            if res.get("plain_ok") and "ck_raises" not in out.extra:
                out.extra["ck_raises"] = out.detail
            continue
        r, m = witness(p, out, opts)
        if r == "unsat":
            out.paths_dropped += 1
            continue
        nok += 1
        bad = None
        for a, b, nm in ((res["y"], res["yc"], "value"), (res["r"], res["rc"], "first derivative"), (res["h"], res["hc"], "second derivative"),
                         (res["yw"], res["ywc"], "value (constant array in an earlier slot)"), (res["rw"], res["rwc"], "first derivative (constant array in an earlier positional slot)")):
            if structure(a) != structure(b):
                bad = nm + " structure"
                break
            v, model = prove_eqs(p, list(zip(coeffs(a), coeffs(b))), [], out, opts)
            if v == "unknown":
                out.status, out.detail = "inconclusive", "solver unknown on checkpoint %s" % nm
                break
            if v == "sat":
                bad = nm
                break
        if out.status:
            break
        if bad:
            out.status, out.detail = "violation", "checkpoint(f) differs from f in its %s" % bad
            out.cex = {"env": {k_: float(v_) for k_, v_ in (model or {}).items() if "!" not in k_} if bad and 'model' in dir() and model else {}, "mode": "checkpoint"}
            break
    if out.status is None and out.extra.get("ck_raises"):
        # f is differentiable but checkpoint(f) raised: confirm on float64 with the real arrays
        def float_confirms():
            env = _Default({}, random.Random(SEED + 11))
            fa = cfg.float_args(env)
            fk = lambda x, m, scale=1.0, shift=0.0: cfg.call(anp, *subst(fa, k, x)) * (m * scale) + shift
            w0 = onp.array([[0.5, -1.0, 0.25], [1.5, 0.75, -0.5]])
            fw = lambda w, x, m, scale=1.0: fk(x, m, scale=scale) * (1.0 + anp.sum(w * w))
            try:
                with warnings.catch_warnings():
                    warnings.simplefilter("ignore")
                    for fun, extra in ((fk, (2.0,)), (fw, None)):
                        call = (lambda x, _f=fun: _f(x, 2.0, scale=1.5)) if extra else (lambda x, _f=fun: _f(w0, x, 2.0, scale=1.5))
                        ck = autograd.checkpoint(fun)
                        callc = (lambda x, _f=ck: _f(x, 2.0, scale=1.5)) if extra else (lambda x, _f=ck: _f(w0, x, 2.0, scale=1.5))
                        v, y = core.make_vjp(call, fa[k])
                        gg = onp.ones(onp.shape(y)) if onp.shape(y) else 1.0
                        r = v(gg)
                        try:
                            vc, yc = core.make_vjp(callc, fa[k])
                            rc = vc(gg)
                        except Exception as e:
                            return "checkpoint(f) raises (%s) where f itself is differentiable" % exc_sig(e)
                        if _shape_struct(r) != _shape_struct(rc) or not close(flat_float(r), flat_float(rc), 1e-9, 1e-12):
                            return "checkpoint(f) differs from f in its first derivative on float64 (%s): %s vs %s" % ("extra positional" if extra else "constant array in an earlier positional slot", _shape_struct(rc), _shape_struct(r))
            except Exception:
                return None
            return None

        sig = float_confirms()
        if sig:
            out.status, out.detail = "violation", "[symbolic run of checkpoint(f) raised %s; float64 comparison] %s" % (out.extra["ck_raises"], sig)
            out.cex = {"env": {}, "mode": "checkpoint"}
    if out.status is None:
        out.status = "holds" if nok else "raises"
        if nok:
            out.validated += 1
    out.time = time.time() - t0
    return out


# ----------------------------------------------------------------------------------------------
# C12-A: flatten / unflatten are mutually inverse linear maps that commute with grad


def check_flatten(case, tier="quick"):
    from autograd import core
    import autograd
    from autograd.misc.flatten import flatten
    from .enga import Config

    lab, spec, f = case
    cfg = Config("flatten", "FLAT " + lab, lambda np, v: f(np, v), [spec], 0)
    opts = tier_opts(tier)
    out = Outcome(cfg)
    t0 = time.time()
    anp = enga.anp

    def to_f(v_):
        if isinstance(v_, dict):
            return {k_: to_f(e) for k_, e in v_.items()}
        if isinstance(v_, (tuple, list)):
            return type(v_)(to_f(e) for e in v_)
        if isinstance(v_, onp.ndarray) and v_.ndim >= 2:
            return onp.asfortranarray(v_)
        return v_

    def body():
        v = cfg.make_args()[0]
        if "[layout:F]" in lab:
            v = to_f(v)  # same values, Fortran memory layout (e.g. a transposed weight matrix)
        try:
            flat, unflatten = flatten(v)
            back = unflatten(flat)
            n = len(leaves(flat))
            if is_complex(flat):
                # mixed real / complex leaves flatten to a complex vector; unflatten is the inverse on the IMAGE of flatten
                # (real positions carry no imaginary part), so w ranges over flattened containers of the same structure
                w = flatten(cfg.make_args(suffix="b")[0])[0]
            else:
                w = sym_array("w", (n,))
            fw = flatten(unflatten(w))[0]
            g_struct = autograd.grad(lambda z: f(anp, z))(v)
            lhs = flatten(g_struct)[0]
            rhs = autograd.grad(lambda fl: f(anp, unflatten(fl)))(flat)
        except (Unsupported, Infeasible, PathLimit):
            raise
        except Exception as e:
            return {"tag": "raised", "exc": e, "args": [v]}
        return {"tag": "ok", "args": [v], "v": v, "flat": flat, "back": back, "w": w, "fw": fw, "lhs": lhs, "rhs": rhs}

    paths = explore_cfg(cfg, out, body, opts)
    if paths is None:
        out.time = time.time() - t0
        return out
    for p in paths:
        if p.err is not None:
            out.status, out.detail = "error", "harness: body raised %s" % exc_sig(p.err)
            break
        res = p.res
        if res["tag"] == "raised":
            # does it also raise on float64 leaves?  (flatten is documented to work for any nesting of tuples/lists/dicts)
            out.status, out.detail = "violation", "flatten / unflatten / grad through them raised %s" % exc_sig(res["exc"])
            out.cex = {"env": {}, "mode": "flatten"}
            break
        checks = [("unflatten(flatten(v)) == v", res["back"], res["v"], True), ("flatten(unflatten(w)) == w", res["fw"], res["w"], False),
                  ("grad(f o unflatten)(flatten v) == flatten(grad f(v))", res["rhs"], res["lhs"], False),
                  ("flatten(v) lists the leaves in traversal order", res["flat"], _sorted_leaves(res["v"]), False)]
        for nm, a, b, structural in checks:
            if structural and structure(a) != structure(b):
                out.status, out.detail = "violation", "%s fails structurally: %s vs %s" % (nm, structure(a), structure(b))
                out.cex = {"env": {}, "mode": "flatten"}
                break
            try:
                eqs_ = leaf_eqs(a, 0, b, 0)  # per leaf (re, im): a real leaf equals a complex one with zero imaginary part
            except ValueError as e_:
                out.status, out.detail = "violation", "%s fails: %s" % (nm, e_)
                out.cex = {"env": {}, "mode": "flatten"}
                break
            v_, model = prove_eqs(p, eqs_, [], out, opts)
            if v_ == "unknown":
                out.status, out.detail = "inconclusive", "solver unknown on %s" % nm
                break
            if v_ == "sat":
                out.status, out.detail = "violation", "%s fails" % nm
                out.cex = {"env": {k_: float(x_) for k_, x_ in (model or {}).items()}, "mode": "flatten"}
                break
        if out.status:
            break
    if out.status is None:
        out.status = "holds"
        out.validated += 1
    out.time = time.time() - t0
    return out


def _sorted_leaves(v):
    """reference traversal: tuples/lists in order, dicts by sorted key, arrays raveled in C order"""
    if isinstance(v, dict):
        o = []
        for k_ in sorted(v):
            o.extend(_sorted_leaves(v[k_]))
        return o
    if isinstance(v, (tuple, list)):
        o = []
        for e in v:
            o.extend(_sorted_leaves(e))
        return o
    return list(onp.ravel(onp.asarray(v, dtype=object)))


# ----------------------------------------------------------------------------------------------
# C16-A: every differential operator against ONE generic C^2 function (free symbols for value, Jacobian, Hessian)


def check_operators(case, tier="quick"):
    import autograd
    from autograd.extend import defjvp, defvjp, primitive
    from .enga import Config

    insh, outsh = case
    cfg = Config("operators", "OPS in=%s out=%s" % (list(insh) if insh != "s" else "scalar", list(outsh)), lambda np, x: x, [], 0)
    opts = tier_opts(tier)
    out = Outcome(cfg)
    t0 = time.time()
    anp = enga.anp
    scalar_in = insh == "s"
    ish = () if scalar_in else tuple(insh)
    nin = len(ish)

    frng = onp.random.RandomState(SEED + 7)

    def body(concrete=False):
        if concrete:
            mk = lambda name, shape: frng.randn(*shape) if shape else onp.array(frng.randn())
            mks = lambda name: float(frng.randn())
        else:
            mk = lambda name, shape: sym_array(name, shape)
            mks = lambda name: sym(name)
        y0 = mk("y", tuple(outsh))
        J = mk("J", tuple(outsh) + ish)
        Hraw = mk("H", tuple(outsh) + ish + ish)
        no = len(outsh)
        perm = tuple(range(no)) + tuple(range(no + nin, no + 2 * nin)) + tuple(range(no, no + nin))
        H = Hraw + onp.transpose(Hraw, perm)  # symmetric in the two input index groups: F is C^2

        @primitive
        def F(x):
            return y0.copy() if y0.shape else y0[()]

        @primitive
        def JF(x):
            return J.copy()

        defvjp(F, lambda ans, x: lambda g: anp.tensordot(g, JF(x), anp.ndim(g)))
        defjvp(F, lambda v, ans, x: anp.tensordot(JF(x), v, nin))
        defvjp(JF, lambda ans, x: lambda g: anp.tensordot(g, H, anp.ndim(g)))
        defjvp(JF, lambda v, ans, x: anp.tensordot(H, v, nin))
        x = mks("x") if scalar_in else mk("x", ish)
        v = mks("v") if scalar_in else mk("v", ish)
        g = mk("g", tuple(outsh))
        eq = []
        T = onp.tensordot

        def add(name, lhs, rhs):
            eq.append((name, lhs, rhs))

        def attempt(name, fn, rhs):
            try:
                add(name, fn(), rhs)
            except (Unsupported, Infeasible, PathLimit):
                raise
            except Exception as e:
                eq.append((name, e, rhs))

        Jx = J if not scalar_in else J
        attempt("jacobian == J (shape out+in)", lambda: autograd.jacobian(F)(x), Jx)
        attempt("make_jvp == (y, J v)", lambda: autograd.make_jvp(F)(x)(v)[1], T(J, v, nin))
        attempt("make_jvp value untouched", lambda: autograd.make_jvp(F)(x)(v)[0], y0)
        attempt("make_vjp value untouched", lambda: autograd.make_vjp(F)(x)[1], y0)
        attempt("make_vjp == g J", lambda: autograd.make_vjp(F)(x)[0](g), T(g, J, no))
        attempt("tensor_jacobian_product == g J", lambda: autograd.tensor_jacobian_product(F)(x, g), T(g, J, no))
        attempt("vector_jacobian_product alias", lambda: autograd.vector_jacobian_product(F)(x, g), T(g, J, no))
        attempt("elementwise_grad == sum over outputs of J", lambda: autograd.elementwise_grad(F)(x), onp.sum(J, axis=tuple(range(no))) if no else J)
        attempt("make_jvp_reversemode == J v", lambda: autograd.differential_operators.make_jvp_reversemode(F)(x)(v), T(J, v, nin))
        attempt("jacobian(jacobian) == H", lambda: autograd.jacobian(autograd.jacobian(F))(x), H)
        if scalar_in or ish == ():
            attempt("deriv == J (scalar input)", lambda: autograd.deriv(F)(x), J)
        else:
            # deriv of an array argument is the forward-mode derivative along the all-ones tangent
            attempt("deriv == J . ones (array input)", lambda: autograd.deriv(F)(x), T(J, onp.ones(ish), nin))
            attempt("deriv of a linear map of an array == its matrix times ones", lambda: autograd.deriv(lambda x_: anp.sum(3.0 * x_) + 0.0 * anp.sum(F(x_)))(x), 3.0 * float(onp.prod(ish)))
        sc = lambda x_: anp.sum(F(x_) * g)
        gJ = T(g, J, no)
        Hs = T(g, H, no)
        attempt("grad of scalar == g J", lambda: autograd.grad(sc)(x), gJ)
        attempt("value_and_grad value", lambda: autograd.value_and_grad(sc)(x)[0], onp.sum(y0 * g))
        attempt("value_and_grad grad", lambda: autograd.value_and_grad(sc)(x)[1], gJ)
        attempt("grad_and_aux grad", lambda: autograd.grad_and_aux(lambda x_: (sc(x_), 7.5))(x)[0], gJ)
        attempt("grad_and_aux aux untouched", lambda: onp.array(autograd.grad_and_aux(lambda x_: (sc(x_), 7.5))(x)[1]), onp.array(7.5))
        attempt("hessian == g H", lambda: autograd.hessian(sc)(x), Hs)
        attempt("hessian symmetric", lambda: autograd.hessian(sc)(x), onp.transpose(Hs, tuple(range(nin, 2 * nin)) + tuple(range(nin))))
        attempt("hessian_tensor_product == (g H) v", lambda: autograd.hessian_tensor_product(sc)(x, v), T(Hs, v, nin))
        attempt("hessian_vector_product alias", lambda: autograd.hessian_vector_product(sc)(x, v), T(Hs, v, nin))
        attempt("make_hvp == (g H) v", lambda: autograd.make_hvp(sc)(x)[0](v), T(Hs, v, nin))
        attempt("forward-over-reverse hvp", lambda: autograd.make_jvp(autograd.grad(sc))(x)(v)[1], T(Hs, v, nin))
        attempt("reverse-over-forward hvp", lambda: autograd.grad(lambda x_: anp.sum(autograd.make_jvp(sc)(x_)(v)[1]))(x), T(Hs, v, nin))
        if no >= 1:
            # generalised Gauss-Newton with the default g(y) = 1/2 sum(y^2, axis=-1): GGN v = J^T J v
            if no == 1:
                attempt("make_ggnvp (default g) == J^T J v", lambda: autograd.make_ggnvp(F)(x)(v), T(T(J, v, nin), J, no))
            attempt("make_ggnvp (explicit g = 1/2 |y|^2) == J^T J v", lambda: autograd.make_ggnvp(F, lambda y_: 0.5 * anp.sum(y_ ** 2))(x)(v), T(T(J, v, nin), J, no))
        # argnum selection by position and by name, extra positional / keyword arguments
        def F2(a, xx, b=None, scale=1.0):
            return F(xx) * scale
        attempt("jacobian wrt argnum 1 with extra args", lambda: autograd.jacobian(F2, 1)(3.0, x, b="unused", scale=2.0), 2.0 * Jx)
        attempt("grad wrt argnum 1 of scalar", lambda: autograd.grad(lambda a, xx, k=1.0: sc(xx) * k, 1)(0.5, x, k=3.0), 3.0 * gJ)
        attempt("grad_named", lambda: autograd.grad_named(lambda a, xx: sc(xx), "xx")(0.5, x), gJ)
        # keyword arguments (non-default values) must reach fun unchanged through EVERY operator
        def sck(x_, k=1.0, shift=0.0):
            return sc(x_) * k + shift

        def Fk(x_, k=1.0):
            return F(x_) * k

        attempt("grad forwards kwargs", lambda: autograd.grad(sck)(x, k=3.0, shift=0.5), 3.0 * gJ)
        attempt("value_and_grad forwards kwargs (value)", lambda: autograd.value_and_grad(sck)(x, k=3.0, shift=0.5)[0], 3.0 * onp.sum(y0 * g) + 0.5)
        attempt("value_and_grad forwards kwargs (grad)", lambda: autograd.value_and_grad(sck)(x, k=3.0)[1], 3.0 * gJ)
        attempt("elementwise_grad forwards kwargs", lambda: autograd.elementwise_grad(Fk)(x, k=3.0), 3.0 * (onp.sum(J, axis=tuple(range(no))) if no else J))
        attempt("jacobian forwards kwargs", lambda: autograd.jacobian(Fk)(x, k=3.0), 3.0 * Jx)
        attempt("hessian forwards kwargs", lambda: autograd.hessian(sck)(x, k=3.0), 3.0 * Hs)
        attempt("hessian_tensor_product forwards kwargs", lambda: autograd.hessian_tensor_product(sck)(x, v, k=3.0), 3.0 * T(Hs, v, nin))
        attempt("hessian_vector_product forwards kwargs", lambda: autograd.hessian_vector_product(sck)(x, v, k=3.0, shift=2.0), 3.0 * T(Hs, v, nin))
        attempt("tensor_jacobian_product forwards kwargs", lambda: autograd.tensor_jacobian_product(Fk)(x, g, k=3.0), 3.0 * T(g, J, no))
        attempt("make_vjp forwards kwargs", lambda: autograd.make_vjp(Fk)(x, k=3.0)[0](g), 3.0 * T(g, J, no))
        attempt("make_jvp forwards kwargs", lambda: autograd.make_jvp(Fk)(x, k=3.0)(v)[1], 3.0 * T(J, v, nin))
        attempt("make_hvp forwards kwargs", lambda: autograd.make_hvp(sck)(x, k=3.0)[0](v), 3.0 * T(Hs, v, nin))
        attempt("grad_and_aux forwards kwargs", lambda: autograd.grad_and_aux(lambda x_, k=1.0: (sck(x_, k=k), k))(x, k=3.0)[0], 3.0 * gJ)
        if scalar_in or ish == ():
            attempt("deriv forwards kwargs", lambda: autograd.deriv(Fk)(x, k=3.0), 3.0 * J)
        attempt("make_jvp_reversemode forwards kwargs", lambda: autograd.differential_operators.make_jvp_reversemode(Fk)(x, k=3.0)(v), 3.0 * T(J, v, nin))
        attempt("extra positional arguments are forwarded", lambda: autograd.hessian_vector_product(lambda x_, m, k=1.0: sc(x_) * m * k)(x, 2.0, v, k=3.0), 6.0 * T(Hs, v, nin))
        attempt("tuple argnum gives a tuple", lambda: autograd.grad(lambda a, xx: sc(a) + 2.0 * sc(xx), (0, 1))(x, x)[1], 2.0 * gJ)
        attempt("list argnum gives a tuple", lambda: autograd.grad(lambda a, xx: sc(a) + 2.0 * sc(xx), [1, 0])(x, x)[1], 1.0 * gJ)
        # every n-ary operator with argnum=1 where the function ALSO depends on argument 0 (an array of another
        # shape): differentiating w.r.t. the wrong position at any level gives a mixed derivative or a wrong shape
        a0 = onp.array([0.5, -1.5])
        m = 3.5  # 1 + sum(a0**2)
        sc2 = lambda a, xx, k=1.0: sc(xx) * (1.0 + anp.sum(a * a)) * k
        F2b = lambda a, xx, k=1.0: F(xx) * (1.0 + anp.sum(a * a)) * k
        DO = autograd.differential_operators
        attempt("argnum=1: grad", lambda: autograd.grad(sc2, 1)(a0, x), m * gJ)
        attempt("argnum=1: value_and_grad", lambda: autograd.value_and_grad(sc2, 1)(a0, x)[1], m * gJ)
        attempt("argnum=1: grad_and_aux", lambda: autograd.grad_and_aux(lambda a, xx: (sc2(a, xx), 1.0), 1)(a0, x)[0], m * gJ)
        attempt("argnum=1: elementwise_grad", lambda: autograd.elementwise_grad(F2b, 1)(a0, x), m * (onp.sum(J, axis=tuple(range(no))) if no else J))
        attempt("argnum=1: jacobian", lambda: autograd.jacobian(F2b, 1)(a0, x), m * Jx)
        attempt("argnum=1: hessian", lambda: autograd.hessian(sc2, 1)(a0, x), m * Hs)
        attempt("argnum=1: hessian_tensor_product", lambda: autograd.hessian_tensor_product(sc2, 1)(a0, x, v), m * T(Hs, v, nin))
        attempt("argnum=1: hessian_vector_product (keyword argnum, kwargs)", lambda: autograd.hessian_vector_product(sc2, argnum=1)(a0, x, v, k=2.0), 2.0 * m * T(Hs, v, nin))
        attempt("argnum=1: make_hvp", lambda: autograd.make_hvp(sc2, 1)(a0, x)[0](v), m * T(Hs, v, nin))
        attempt("argnum=1: tensor_jacobian_product", lambda: autograd.tensor_jacobian_product(F2b, 1)(a0, x, g), m * T(g, J, no))
        attempt("argnum=1: make_vjp", lambda: autograd.make_vjp(F2b, 1)(a0, x)[0](g), m * T(g, J, no))
        attempt("argnum=1: make_jvp", lambda: autograd.make_jvp(F2b, 1)(a0, x)(v)[1], m * T(J, v, nin))
        attempt("argnum=1: make_jvp_reversemode", lambda: DO.make_jvp_reversemode(F2b, 1)(a0, x)(v), m * T(J, v, nin))
        if no >= 1:
            attempt("f_argnum=1: make_ggnvp", lambda: autograd.make_ggnvp(F2b, lambda y_: 0.5 * anp.sum(y_ ** 2), 1)(a0, x)(v), m * m * T(T(J, v, nin), J, no))
        if scalar_in or ish == ():
            attempt("argnum=1: deriv", lambda: autograd.deriv(F2b, 1)(a0, x), m * J)
        attempt("argnum=1: forward-over-reverse", lambda: autograd.make_jvp(autograd.grad(sc2, 1), 1)(a0, x)(v)[1], m * T(Hs, v, nin))
        # outputs that are size-1 ARRAYS, not shape-() scalars: the operators keep the output axes
        attempt("hessian of a (1,)-shaped output keeps the output axis", lambda: autograd.hessian(lambda x_: anp.reshape(sc(x_), (1,)))(x), onp.reshape(onp.asarray(Hs, dtype=object), (1,) + onp.shape(Hs)))
        attempt("hessian of a (1,1)-shaped output keeps both output axes", lambda: autograd.hessian(lambda x_: anp.reshape(sc(x_), (1, 1)))(x), onp.reshape(onp.asarray(Hs, dtype=object), (1, 1) + onp.shape(Hs)))
        attempt("jacobian of a (1,)-shaped output", lambda: autograd.jacobian(lambda x_: anp.reshape(sc(x_), (1,)))(x), onp.reshape(onp.asarray(gJ, dtype=object), (1,) + onp.shape(gJ)))
        # one primitive call with THREE traced arguments (the general dispatch branch of defvjp): every operator still
        # pairs each argument with its own rule
        @primitive
        def fma(p_, q_, r_):
            return p_ * q_ + r_

        defvjp(fma, lambda ans, p_, q_, r_: lambda g_: g_ * q_, lambda ans, p_, q_, r_: lambda g_: g_ * p_, lambda ans, p_, q_, r_: lambda g_: g_)
        defjvp(fma, lambda t_, ans, p_, q_, r_: t_ * q_, lambda t_, ans, p_, q_, r_: t_ * p_, lambda t_, ans, p_, q_, r_: t_)
        attempt("3 traced args: elementwise_grad", lambda: autograd.elementwise_grad(lambda x_: fma(x_, x_ * 2.0, x_ * 3.0))(x), 4.0 * x + 3.0)
        attempt("3 traced args: grad with tuple argnum, middle slot", lambda: autograd.grad(lambda a, b, c: anp.sum(fma(a, b, c) * v), (0, 1, 2))(x, x * 2.0, x * 3.0)[1], v * x)
        attempt("3 traced args: grad with tuple argnum, first slot", lambda: autograd.grad(lambda a, b, c: anp.sum(fma(a, b, c) * v), (0, 1, 2))(x, x * 2.0, x * 3.0)[0], v * x * 2.0)
        attempt("3 traced args: forward == reverse", lambda: autograd.make_jvp(lambda x_: fma(x_, x_ * 2.0, x_ * 3.0))(x)(v)[1], v * (4.0 * x + 3.0))
        # negative argnum counts from the end of the positional arguments actually passed (Python indexing), on a function
        # that has further defaulted parameters which must keep their defaults
        attempt("argnum=-1: grad", lambda: autograd.grad(sc2, -1)(a0, x), m * gJ)
        attempt("argnum=-1: value_and_grad value", lambda: autograd.value_and_grad(sc2, -1)(a0, x)[0], m * onp.sum(y0 * g))
        attempt("argnum=-1: jacobian", lambda: autograd.jacobian(F2b, -1)(a0, x), m * Jx)
        attempt("argnum=-1: make_jvp", lambda: autograd.make_jvp(F2b, -1)(a0, x)(v)[1], m * T(J, v, nin))
        attempt("argnum=-1: make_jvp value", lambda: autograd.make_jvp(F2b, -1)(a0, x)(v)[0], m * y0)
        attempt("argnum=-1: elementwise_grad", lambda: autograd.elementwise_grad(F2b, -1)(a0, x), m * (onp.sum(J, axis=tuple(range(no))) if no else J))
        attempt("argnum=-2 of three: grad", lambda: autograd.grad(lambda a, xx, b: sc(xx) * (1.0 + anp.sum(a * a)) * b, -2)(a0, x, 2.0), 2.0 * m * gJ)
        attempt("argnum=(-1,): grad", lambda: autograd.grad(sc2, (-1,))(a0, x)[0], m * gJ)
        # values handed back by an operator (function value, aux) stay differentiable for an ENCLOSING differentiation
        attempt("nested: aux of grad_and_aux is differentiable outside", lambda: autograd.grad(lambda x_: anp.sum(autograd.grad_and_aux(lambda z: (sc(z), F(z)))(x_)[1] * g))(x), gJ)
        attempt("nested: value of value_and_grad is differentiable outside", lambda: autograd.grad(lambda x_: autograd.value_and_grad(sc)(x_)[0])(x), gJ)
        attempt("nested: value of make_vjp is differentiable outside", lambda: autograd.grad(lambda x_: anp.sum(autograd.make_vjp(F)(x_)[1] * g))(x), gJ)
        attempt("nested: value of make_jvp is differentiable outside", lambda: autograd.grad(lambda x_: anp.sum(autograd.make_jvp(F)(x_)(v)[0] * g))(x), gJ)
        attempt("nested: jvp of make_jvp under forward mode", lambda: autograd.make_jvp(lambda x_: anp.sum(autograd.grad_and_aux(lambda z: (sc(z), F(z)))(x_)[1] * g))(x)(v)[1], T(gJ, v, nin))
        return {"tag": "ok", "eq": eq, "args": [x]}

    paths = explore_cfg(cfg, out, body, opts)
    if paths is None:
        out.time = time.time() - t0
        return out
    fails = []
    for p in paths:
        if p.err is not None:
            out.status, out.detail = "error", "harness: body raised %s" % exc_sig(p.err)
            break
        for name, lhs, rhs in p.res["eq"]:
            if isinstance(lhs, Exception):
                fails.append("%s: raised %s" % (name, exc_sig(lhs)))
                continue
            a, b = onp.asarray(lhs, dtype=object), onp.asarray(rhs, dtype=object)
            if a.shape != b.shape:
                fails.append("%s: shape %s, expected %s" % (name, a.shape, b.shape))
                continue
            v_, model = prove_eqs(p, list(zip(coeffs(a), coeffs(b))), [], out, opts)
            if v_ == "unknown":
                out.status, out.detail = "inconclusive", "solver unknown on %s" % name
                break
            if v_ == "sat":
                fails.append("%s: values differ" % name)
        if out.status:
            break
        out.extra["claims"] = len(p.res["eq"])
    if out.status is None:
        # float64 replay of the same identities with random y, J, H (real NumPy arrays, real autograd)
        ffails = []
        try:
            with warnings.catch_warnings():
                warnings.simplefilter("ignore")
                for name, lhs, rhs in body(concrete=True)["eq"]:
                    if isinstance(lhs, Exception):
                        ffails.append(name)
                        continue
                    a, b = onp.asarray(lhs, dtype=float), onp.asarray(rhs, dtype=float)
                    if a.shape != b.shape or not onp.allclose(a, b, rtol=1e-9, atol=1e-9):
                        ffails.append(name)
        except Exception as e:
            ffails.append("float64 replay raised %s" % exc_sig(e))
        confirmed = [f for f in fails if any(f.startswith(n_ + ": ") for n_ in ffails)]
        if confirmed:
            out.status, out.detail = "violation", "; ".join(confirmed[:6])
            out.cex = {"env": {}, "mode": "operators", "case": [list(insh) if insh != "s" else "s", list(outsh)]}
        elif fails:
            out.status, out.detail = "error", "identities fail on symbolic arrays but not on float64: " + "; ".join(fails[:4])
        elif ffails:
            out.status, out.detail = "error", "identities fail on float64 but not on symbolic arrays: " + "; ".join(ffails[:4])
        else:
            out.status = "holds"
            out.validated += 1
    out.time = time.time() - t0
    return out


# ----------------------------------------------------------------------------------------------
# C09: holomorphic_grad equals the complex derivative


def holo_cases():
    return [
        ("z*z", lambda np, z: z * z, lambda np, z: 2 * z),
        ("z**3 + 2z", lambda np, z: z ** 3 + 2 * z, lambda np, z: 3 * z ** 2 + 2),
        ("1/z", lambda np, z: 1.0 / z, lambda np, z: -1.0 / (z * z)),
        ("(1+2j)*z*z + z", lambda np, z: (1 + 2j) * z * z + z, lambda np, z: (2 + 4j) * z + 1),
        ("exp(z)", lambda np, z: np.exp(z), lambda np, z: np.exp(z)),
        ("(z+1)/(z-1)", lambda np, z: (z + 1.0) / (z - 1.0), lambda np, z: -2.0 / ((z - 1.0) * (z - 1.0))),
        ("sum over array z_k^2 elementwise", lambda np, z: z * z, lambda np, z: 2 * z),
    ]


def check_holo(case, tier="quick"):
    import autograd
    from .enga import Config

    lab, f, fp = case
    cfg = Config("holomorphic_grad", "HOLO " + lab, lambda np, z: f(np, z), [enga.CSC], 0)
    opts = tier_opts(tier)
    out = Outcome(cfg)
    t0 = time.time()
    anp = enga.anp

    def body():
        z = cfg.make_args()[0]
        try:
            got = autograd.holomorphic_grad(lambda w: f(anp, w))(z)
        except (Unsupported, Infeasible, PathLimit):
            raise
        except Exception as e:
            return {"tag": "raised", "exc": e, "args": [z]}
        return {"tag": "ok", "got": got, "want": fp(onp, z), "args": [z]}

    paths = explore_cfg(cfg, out, body, opts)
    if paths is None:
        out.time = time.time() - t0
        return out
    for p in paths:
        if p.err is not None:
            out.status, out.detail = "error", "harness: body raised %s" % exc_sig(p.err)
            break
        if p.res["tag"] == "raised":
            out.status, out.detail = "violation", "holomorphic_grad raised %s" % exc_sig(p.res["exc"])
            out.cex = {"env": {}, "mode": "holo"}
            break
        v_, model = prove_eqs(p, list(zip(coeffs(p.res["got"]), coeffs(p.res["want"]))), [], out, opts)
        if v_ == "unknown":
            out.status, out.detail = "inconclusive", "solver unknown"
            break
        if v_ == "sat":
            # float replay
            rng = _rng(cfg)
            env = _Default({k_: float(x_) for k_, x_ in (model or {}).items() if "!" not in k_}, rng)
            z0 = cfg.float_args(env)[0]
            with warnings.catch_warnings():
                warnings.simplefilter("ignore")
                a = complex(autograd.holomorphic_grad(lambda w: f(anp, w))(z0))
                b = complex(fp(onp, z0))
            if abs(a - b) > 1e-7 * max(1.0, abs(b)):
                out.status, out.detail = "violation", "holomorphic_grad(f)(%r) = %r but f'(z) = %r" % (z0, a, b)
                out.cex = {"env": dict(env), "mode": "holo"}
            elif p.abstracted:
                out.status, out.detail = "inconclusive", "model under abstraction does not reproduce"
            else:
                out.status, out.detail = "error", "holomorphic counterexample does not reproduce"
            break
    if out.status is None:
        out.status = "holds"
        out.validated += 1
    out.time = time.time() - t0
    return out


# ----------------------------------------------------------------------------------------------
# C07: second-order, all four mode sequences, against the eps1*eps2 coefficient of NumPy's primal


def check_second_order(cfg, tier="quick"):
    from autograd import core

    opts = tier_opts(tier)
    out = Outcome(cfg)
    t0 = time.time()
    k = cfg.argnum
    anp = enga.anp

    def dir2(xd, m):
        return tangent_m(xd, m)

    def body():
        dual = cfg.make_args(eps={k: {1: "u", 2: "w"}})
        try:
            y = getattr(cfg, "oracle", cfg.call)(onp, *dual)
        except (Unsupported, Infeasible, PathLimit):
            raise
        except Exception as e:
            return {"tag": "numpy_rejects", "exc": e}
        plain = cfg.make_args()
        f = lambda x: cfg.call(anp, *subst(plain, k, x))
        u, w = tangent_m(dual[k], 1), tangent_m(dual[k], 2)
        res = {"tag": "ok", "x": dual[k], "y": y, "args": dual, "u": u, "w": w}

        def guard(name, fn):
            try:
                res[name] = fn()
            except (Unsupported, Infeasible, PathLimit):
                raise
            except Exception as e:
                res[name + "_exc"] = e

        with warnings.catch_warnings():
            warnings.simplefilter("ignore")
            try:
                yv = f(plain[k])
            except (Unsupported, Infeasible, PathLimit):
                raise
            except Exception as e:
                return {"tag": "raises", "exc": e}
            g = sym_like(yv, "g")
            res["g"] = g
            jf = lambda x: core.make_jvp(f, x)(u)[1]  # x -> J(x) u
            vf = lambda x: core.make_vjp(f, x)[0](g)  # x -> J(x)^T g
            guard("ff", lambda: core.make_jvp(jf, plain[k])(w)[1])  # forward over forward: D2f[u, w]
            guard("rf", lambda: core.make_vjp(jf, plain[k])[0](g))  # reverse over forward: d/dx <g, J u>
            guard("fr", lambda: core.make_jvp(vf, plain[k])(w)[1])  # forward over reverse: d/dx (J^T g) . w
            guard("rr", lambda: core.make_vjp(vf, plain[k])[0](u))  # reverse over reverse: d/dx <J^T g, u>
        return res

    paths = explore_cfg(cfg, out, body, opts)
    if paths is None:
        out.time = time.time() - t0
        return out
    nok = 0
    done = []
    for p in paths:
        if p.err is not None:
            out.status, out.detail = "error", "harness: body raised %s" % exc_sig(p.err)
            break
        res = p.res
        if res["tag"] == "numpy_rejects":
            out.status, out.detail = ("numpy_rejects" if _numpy_float_raises(cfg) else "inconclusive"), exc_sig(res["exc"])
            break
        if res["tag"] == "raises":
            out.detail = exc_sig(res["exc"])
            continue
        r, m = witness(p, out, opts)
        if r == "unsat":
            out.paths_dropped += 1
            continue
        x, y, g, u, w = res["x"], res["y"], res["g"], res["u"], res["w"]
        uv = [t for t in coeffs(u) if type(t) is not Fr and z3.is_const(t)]
        wv = [t for t in coeffs(w) if type(t) is not Fr and z3.is_const(t)]
        gv = [t for t in coeffs(g) if type(t) is not Fr and z3.is_const(t)]
        try:
            target = pair(g, y, 0, 3, conj_a=True)  # <g, D2f[u,w]>  (mask 3 = eps1*eps2 coefficient)
        except ValueError as e:
            out.status, out.detail = "inconclusive", "structure mismatch (decided by C05): %s" % e
            break
        claims = []
        if "ff" in res:
            try:
                claims.append(("jvp-of-jvp == D2f[u,w]", leaf_eqs(res["ff"], 0, y, 3), [uv, wv]))
            except ValueError as e:
                claims.append(("jvp-of-jvp == D2f[u,w]", e, None))
        for name, key, other in (("vjp-of-jvp", "rf", w), ("jvp-of-vjp", "fr", u), ("vjp-of-vjp", "rr", w)):
            if key in res:
                try:
                    claims.append(("%s pairs to <g, D2f[u,w]>" % name, [(pair(res[key], other, 0, 0, conj_a=True), target)], [uv, wv, gv]))
                except ValueError as e:
                    claims.append((name, e, None))
        if not claims:
            out.detail = exc_sig(res.get("ff_exc") or res.get("rr_exc"))
            continue
        nok += 1
        for name, eqs, groups in claims:
            if isinstance(eqs, Exception):
                out.status, out.detail = "inconclusive", "structure mismatch in %s (decided by C05): %s" % (name, eqs)
                break
            v_, model = prove_eqs(p, eqs, [], out, opts, groups=groups)
            if v_ == "unknown":
                bad = _second_probe(cfg)
                if bad:
                    out.status, out.detail = "violation", "[float64 probe; solver unknown on %s] %s" % (name, bad[0])
                    out.cex = {"env": bad[1], "mode": "second", "claim": name, "info": bad[0]}
                else:
                    out.status, out.detail = "inconclusive", "solver unknown on %s" % name
                break
            if v_ == "sat":
                rep, info, env = replay_second(cfg, p, model or {}, name)
                if rep:
                    out.status, out.detail = "violation", "%s fails; %s" % (name, info)
                    out.cex = {"env": env, "mode": "second", "claim": name, "info": info}
                elif p.abstracted:
                    out.status, out.detail = "inconclusive", "model under abstraction does not reproduce (%s)" % info
                else:
                    out.status, out.detail = "error", "second-order counterexample does not reproduce on float64: %s; %s" % (name, info)
                break
            done.append(name)
        if out.status:
            break
        out.extra["modes_checked"] = sorted(set(c[0].split(" ")[0] for c in claims))
        out.extra["modes_raising"] = sorted(k_[:-4] for k_ in res if k_.endswith("_exc"))
    if out.status is None:
        if nok == 0:
            out.status = "raises"
        else:
            out.status = "holds"
            out.validated += 1 if _validate_second(cfg) else 0
    out.time = time.time() - t0
    return out


def tangent_m(xd, m):
    """coefficient m (1: eps1, 2: eps2) of a dual argument as a plain symbolic structure"""
    if isinstance(xd, S):
        return S(xd.co(m))
    if isinstance(xd, CS):
        return CS(S(xd.re.co(m)), S(xd.im.co(m)))
    if isinstance(xd, dict):
        return {k_: tangent_m(v_, m) for k_, v_ in xd.items()}
    if isinstance(xd, (tuple, list)):
        return type(xd)(tangent_m(v_, m) for v_ in xd)
    out = onp.empty(onp.shape(xd), dtype=object)
    for i in onp.ndindex(*onp.shape(xd)):
        out[i] = tangent_m(xd[i], m)
    return out


def _second_floats(cfg, env):
    """float64: the four second-order objects and a finite-difference reference <g, D2f[u,w]>"""
    from autograd import core

    anp = enga.anp
    k = cfg.argnum
    fa = cfg.float_args(env)
    f = lambda x: cfg.call(anp, *subst(fa, k, x))
    u = cfg.float_dir(k, env, "u")
    w = cfg.float_dir(k, env, "w")
    with warnings.catch_warnings():
        warnings.simplefilter("ignore")
        yv = f(fa[k])
        g = float_like(yv, "g", env)
        jf = lambda x: core.make_jvp(f, x)(u)[1]
        vf = lambda x: core.make_vjp(f, x)[0](g)
        out = {}
        for name, fn in (("ff", lambda: cdot(g, core.make_jvp(jf, fa[k])(w)[1])), ("rf", lambda: cdot(core.make_vjp(jf, fa[k])[0](g), w)),
                         ("fr", lambda: cdot(core.make_jvp(vf, fa[k])(w)[1], u)), ("rr", lambda: cdot(core.make_vjp(vf, fa[k])[0](u), w))):
            try:
                out[name] = fn()
            except Exception as e:
                out[name] = None
        # reference: central second difference of NumPy's function along u then w
        h = 1e-3
        F = lambda a, b: onp.array(flat_float(getattr(cfg, "oracle", cfg.call)(onp, *subst(fa, k, enga.add_scaled(enga.add_scaled(fa[k], u, a), w, b)))), dtype=float)
        d2 = (F(h, h) - F(h, -h) - F(-h, h) + F(-h, -h)) / (4 * h * h)
        d2b = (F(2 * h, 2 * h) - F(2 * h, -2 * h) - F(-2 * h, 2 * h) + F(-2 * h, -2 * h)) / (16 * h * h)
        ref = (4 * d2 - d2b) / 3
        smooth = float(onp.max(onp.abs(d2 - d2b), initial=0.0)) <= 1e-2 * max(1.0, float(onp.max(onp.abs(d2), initial=0.0)))
        out["ref"] = cdot(g, unflat_like(list(ref), g))
        out["smooth"] = smooth
    return out


def replay_second(cfg, p, model, name, tol=2e-4):
    rng = _rng(cfg)
    env = _Default({k_: float(v) for k_, v in model.items() if "!" not in k_}, rng)
    try:
        r = _second_floats(cfg, env)
    except Exception as e:
        return False, "float64 run raised %s" % exc_sig(e), dict(env)
    if not r["smooth"]:
        return False, "not a regular point for second differences", dict(env)
    key = {"jvp-of-jvp": "ff", "vjp-of-jvp": "rf", "jvp-of-vjp": "fr", "vjp-of-vjp": "rr"}[name.split(" ")[0]]
    val = r.get(key)
    if val is None:
        return False, "float64 %s raised" % key, dict(env)
    sc = max(1.0, abs(val), abs(r["ref"]))
    return abs(val - r["ref"]) > tol * sc * 10, "%s gives %.9g, second finite difference of NumPy's function gives %.9g" % (key, val, r["ref"]), dict(env)


def _second_probe(cfg):
    """float64 fallback when the solver cannot decide a second-order claim: at three random regular points every
    available mode sequence must match the second finite difference of NumPy's function; reports only if the SAME mode
    is off by more than 1% at all three points"""
    rng = random.Random(SEED + 23)
    names = {"ff": "jvp-of-jvp", "rf": "vjp-of-jvp", "fr": "jvp-of-vjp", "rr": "vjp-of-vjp"}
    off = {k_: 0 for k_ in names}
    seen = 0
    last = None
    for _ in range(8):
        env = _Default({}, rng)
        try:
            r = _second_floats(cfg, env)
        except Exception:
            continue
        if not r["smooth"]:
            continue
        seen += 1
        for k_ in names:
            v = r.get(k_)
            if v is not None and abs(v - r["ref"]) > 1e-2 * max(1.0, abs(v), abs(r["ref"])):
                off[k_] += 1
                last = ("%s gives %.9g, second finite difference of NumPy's function gives %.9g" % (names[k_], v, r["ref"]), {n_: float(x_) for n_, x_ in dict(env).items()})
        if seen == 3:
            break
    if seen == 3 and any(c == 3 for c in off.values()):
        return last
    return None


class _ImagZero(_Default):
    """random float environment in which the imaginary parts of the ARGUMENT's entries are exactly 0.0 (a complex-typed
    but real-valued point), everything else (cotangents, directions) generic"""

    def __missing__(self, k):
        import re as _re

        if _re.match(r"^x\d+(_\d+)*i$", k):
            self[k] = 0.0
            return 0.0
        return super().__missing__(k)


def check_second_at_real_valued_points(cfg, tier="quick"):
    """float64 probe: the four second-order mode sequences at complex-typed points whose imaginary parts are exactly zero
    (value-dependent real/complex shortcuts inside rules take a different branch there), against the second finite
    difference of NumPy's own function; three points"""
    out = Outcome(cfg)
    t0 = time.time()
    rng = random.Random(SEED + 31)
    names = {"ff": "jvp-of-jvp", "rf": "vjp-of-jvp", "fr": "jvp-of-vjp", "rr": "vjp-of-vjp"}
    off = {k_: 0 for k_ in names}
    seen = 0
    last = None
    for _ in range(8):
        env = _ImagZero({}, rng)
        try:
            r = _second_floats(cfg, env)
        except Exception as e:
            out.detail = exc_sig(e)
            continue
        if not r["smooth"]:
            continue
        seen += 1
        for k_ in names:
            v = r.get(k_)
            if v is not None and abs(v - r["ref"]) > 1e-3 * max(1.0, abs(v), abs(r["ref"])):
                off[k_] += 1
                last = "%s gives %.9g, second finite difference of NumPy's function gives %.9g (imaginary parts of the argument exactly 0)" % (names[k_], v, r["ref"])
        if seen == 3:
            break
    out.paths = seen
    if seen < 3:
        out.status, out.detail = "inconclusive", "fewer than 3 regular points (%s)" % out.detail
    elif any(c == 3 for c in off.values()):
        out.status, out.detail = "violation", "[float64 probe] " + last
        out.cex = {"env": {}, "mode": "second0"}
        out.extra["decided_by"] = "float64 probe"
    else:
        out.status = "holds"
        out.validated = 3
        out.extra["decided_by"] = "float64 probe"
    out.time = time.time() - t0
    return out


def _validate_second(cfg):
    rng = _rng(cfg)
    env = _Default({}, rng)
    try:
        r = _second_floats(cfg, env)
        if not r["smooth"]:
            return False
        vals = [r[k_] for k_ in ("ff", "rf", "fr", "rr") if r.get(k_) is not None]
        return all(abs(v - r["ref"]) <= 1e-3 * max(1.0, abs(r["ref"])) for v in vals)
    except Exception:
        return False


# ----------------------------------------------------------------------------------------------
# C13: vector-space axioms on symbolic vectors and scalars


def vspace_cases(tier):
    from .enga import R, Cx, SC, CSC

    cases = [("real scalar", SC), ("complex scalar", CSC), ("0-d real", R()), ("real (2,)", R(2)), ("real (2,1,2)", R(2, 1, 2)), ("real size-0 (0,)", R(0)), ("real size-0 (2,0)", R(2, 0)),
             ("complex (2,)", Cx(2)), ("complex 0-d", Cx()), ("complex (1,2)", Cx(1, 2)), ("complex size-0", Cx(0)), ("complex (2,3)", Cx(2, 3)), ("real (3,2)", R(3, 2)),
             ("tuple (array, scalar)", (R(2), SC)), ("list [array, complex array]", [R(2), Cx(2)]), ("dict {a: array, b: scalar}", {"a": R(2), "b": SC}),
             ("nested tuple in list in dict", {"p": [(R(1), SC), R(2)], "q": CSC}), ("empty tuple", ()), ("tuple with empty list", (R(1), [])), ("empty dict", {}),
             # siblings with EQUAL vector spaces (same shape and dtype): slots are told apart by position / key, not by their space
             ("tuple of two equal-shaped arrays", (R(2), R(2))), ("list of two scalars", [SC, SC]), ("dict with two equal-shaped matrices", {"W1": R(2, 2), "W2": R(2, 2), "b": R(2)}),
             ("list of equal (array, scalar) pairs", [(R(1), SC), (R(1), SC)]), ("tuple of three equal complex arrays", (Cx(1), Cx(1), Cx(1)))]
    if tier == "thorough":
        cases += [("real (2,3,2)", R(2, 3, 2)), ("complex (2,2)", Cx(2, 2)), ("deep nesting", ((R(1), (R(1), [R(1), {"z": SC}])),))]
    return cases


def check_vspace(case, tier="quick"):
    from autograd.core import vspace
    from .enga import Config, _build_sym

    lab, spec = case
    cfg = Config("vspace", "VS " + lab, lambda np, x: x, [], 0)
    opts = tier_opts(tier)
    out = Outcome(cfg)
    t0 = time.time()

    def axioms(x, y, z, a, b):
        vs = vspace(x)
        E = []

        def eq(name, fn):
            try:
                lhs, rhs = fn()
                E.append((name, lhs, rhs))
            except (Unsupported, Infeasible, PathLimit):
                raise
            except Exception as e:
                E.append((name, e, None))

        zero = vs.zeros()
        eq("zeros is the additive identity", lambda: (vs.add(x, zero), x))
        eq("zeros is a left identity", lambda: (vs.add(zero, x), x))
        eq("zeros + y == y (y built in another key order)", lambda: (vs.add(zero, y), y))
        eq("addition commutes", lambda: (vs.add(x, y), vs.add(y, x)))
        eq("addition associates", lambda: (vs.add(vs.add(x, y), z), vs.add(x, vs.add(y, z))))
        eq("mut_add on a fresh copy agrees with add", lambda: (vs.mut_add(vs.add(x, vs.zeros()), y), vs.add(x, y)))
        eq("mut_add(None, x) == x", lambda: (vs.mut_add(None, x), x))
        eq("scalar_mul distributes over vectors", lambda: (vs.scalar_mul(vs.add(x, y), a), vs.add(vs.scalar_mul(x, a), vs.scalar_mul(y, a))))
        eq("scalar_mul distributes over scalars", lambda: (vs.scalar_mul(x, a + b), vs.add(vs.scalar_mul(x, a), vs.scalar_mul(x, b))))
        eq("scalar_mul composes", lambda: (vs.scalar_mul(vs.scalar_mul(x, a), b), vs.scalar_mul(x, a * b)))
        eq("1 * x == x", lambda: (vs.scalar_mul(x, 1.0), x))
        eq("inner product symmetric", lambda: (vs.inner_prod(x, y), vs.inner_prod(y, x)))
        eq("inner product real-bilinear", lambda: (vs.inner_prod(vs.add(vs.scalar_mul(x, a), vs.scalar_mul(y, b)), z), a * vs.inner_prod(x, z) + b * vs.inner_prod(y, z)))
        eq("inner product is the key-wise / entry-wise sum of products", lambda: (vs.inner_prod(x, y), _ref_inner(x, y)))
        eq("add is the key-wise / entry-wise sum", lambda: (vs.add(x, y), _ref_add(x, y)))
        eq("covector is an involution", lambda: (vs.covector(vs.covector(x)), x))

        def complete():
            acc = vs.zeros()
            for e in vs.standard_basis():
                acc = vs.add(acc, vs.scalar_mul(e, vs.inner_prod(x, e)))
            return acc, x

        eq("standard basis is complete: sum <x,e_i> e_i == x", complete)
        # closure at the level of container TYPES (a list space must not hand out tuples, a dict space keeps its keys)
        tt = _type_tree(x)
        for on, fn in (("zeros()", lambda: vs.zeros()), ("ones()", lambda: vs.ones()), ("add(x, y)", lambda: vs.add(x, y)), ("mut_add(None, x)", lambda: vs.mut_add(None, x)),
                       ("scalar_mul(x, a)", lambda: vs.scalar_mul(x, a)), ("covector(x)", lambda: vs.covector(x)), ("first basis vector", lambda: next(iter(vs.standard_basis()), x))):
            try:
                r_ = fn()
                if _type_tree(r_) != tt:
                    E.append(("%s has the container types of the value" % on, TypeError("container types %r, expected %r" % (_type_tree(r_), tt)), None))
            except (Unsupported, Infeasible, PathLimit):
                raise
            except Exception as e:
                E.append(("%s has the container types of the value" % on, e, None))
        return vs, zero, E

    def body():
        x, y, z = (_build_sym(spec, n_, None) for n_ in ("x", "y", "z"))
        y = _reverse_dicts(y)  # same keys, different insertion order: vector-space operations pair leaves by KEY
        y = _fortran_leaves(y)  # same values, Fortran memory layout: operations pair entries by INDEX, not by memory position
        a, b = sym("a"), sym("b")
        vs, zero, E = axioms(x, y, z, a, b)
        basis = list(vs.standard_basis())
        n = int(vs.size)
        gram_bad = []
        for i, ei in enumerate(basis):
            for j, ej in enumerate(basis):
                ip = vs.inner_prod(ei, ej)
                if float(S.L(ip).c[0] if isinstance(ip, S) else ip) != (1.0 if i == j else 0.0):
                    gram_bad.append((i, j))
        xx = vs.inner_prod(x, x)
        return {"tag": "ok", "E": E, "n": n, "nbasis": len(basis), "gram_bad": gram_bad, "xx": xx, "x": x, "args": [x, y, z],
                "same_vs": vspace(x) == vspace(y), "zero_struct": _shape_struct(zero) == _shape_struct(x)}

    def float_fails():
        """the same axioms on random float64 leaves (real NumPy arrays): names that fail"""
        from .enga import _build_float

        rng = random.Random(SEED + 5)
        envs = [_Default({}, rng) for _ in range(3)]
        x, y, z = (_build_float(spec, "x", e_) for e_ in envs)
        y = _fortran_leaves(_reverse_dicts(y))
        bad = []
        try:
            with warnings.catch_warnings():
                warnings.simplefilter("ignore")
                _, _, E = axioms(x, y, z, 0.75, -1.25)
            for name, lhs, rhs in E:
                if isinstance(lhs, Exception):
                    bad.append(name)
                    continue
                la, lb = flat_float(lhs), flat_float(rhs)
                if len(la) != len(lb) or not close(la, lb, 1e-9, 1e-12):
                    bad.append(name)
        except Exception as e:
            bad.append("float64 run raised %s" % exc_sig(e))
        return bad

    paths = explore_cfg(cfg, out, body, opts)
    if paths is None:
        out.time = time.time() - t0
        return out
    fails = []
    for p in paths:
        if p.err is not None:
            # a vector-space operation raised on symbolic (object-dtype) leaves: the engine cannot run this code.  The
            # float64 axioms decide whether that is a violation (they fail too) or only a limit of the model.
            ff = float_fails()
            if ff:
                out.status, out.detail = "violation", "vector-space operations raise / fail on float64 leaves: " + ", ".join(ff[:4])
                out.cex = {"env": {}, "mode": "vspace"}
            else:
                out.status, out.detail = "inconclusive", "the symbolic run raised %s; the float64 axioms hold" % exc_sig(p.err)
            out.extra["trace"] = repr(p.err)
            break
        res = p.res
        if res["nbasis"] != res["n"]:
            fails.append("standard_basis has %d members but size is %d" % (res["nbasis"], res["n"]))
        if res["gram_bad"]:
            fails.append("standard basis not orthonormal at %s" % (res["gram_bad"][:3],))
        if not res["same_vs"]:
            fails.append("two values of identical structure have unequal vspaces")
        if not res["zero_struct"]:
            fails.append("zeros() does not have the value's structure")
        for name, lhs, rhs in res["E"]:
            if isinstance(lhs, Exception):
                fails.append("%s: raised %s" % (name, exc_sig(lhs)))
                continue
            if structure(lhs)[:2] != structure(rhs)[:2] and not isinstance(lhs, (S, CS)):
                fails.append("%s: structure %s vs %s" % (name, structure(lhs), structure(rhs)))
                continue
            try:
                eqs = leaf_eqs(lhs, 0, rhs, 0)
            except ValueError as e:
                fails.append("%s: %s" % (name, e))
                continue
            v_, model = prove_eqs(p, eqs, [], out, opts)
            if v_ == "unknown":
                out.status, out.detail = "inconclusive", "solver unknown on %s" % name
                break
            if v_ == "sat":
                fails.append("%s: fails for %s" % (name, {k_: str(v) for k_, v in list((model or {}).items())[:6]}))
        if out.status:
            break
        # positive definiteness: x != 0  =>  <x,x> > 0
        comps = [t for t in coeffs(res["x"]) if type(t) is not Fr]
        if comps:
            xx = res["xx"]
            xt = xx.c[0] if isinstance(xx, S) else S.L(xx).c[0]
            r_, m_, _ = solve.check(p.antecedent() + [z3.Or([c != 0 for c in comps]), toz(xt) <= 0], timeout_ms=opts["timeout_ms"])
            out.queries += 1
            out.verdicts[r_] += 1
            if r_ == "sat":
                fails.append("inner product not positive definite")
            elif r_ == "unknown":
                out.status, out.detail = "inconclusive", "solver unknown on positive definiteness"
                break
    if out.status is None:
        ff = float_fails()
        confirmed = [f for f in fails if f.split(":")[0] in ff or ":" not in f]
        if confirmed:
            out.status, out.detail = "violation", "; ".join(confirmed[:5]) + " | float64: fails " + ", ".join(ff[:4])
            out.cex = {"env": {}, "mode": "vspace"}
        elif fails:
            out.status, out.detail = "error", "axioms fail on symbolic vectors only: " + "; ".join(fails[:4])
        elif ff:
            out.status, out.detail = "error", "axioms fail on float64 vectors only: " + ", ".join(ff[:4])
        else:
            out.status = "holds"
            out.validated += 1
    out.time = time.time() - t0
    return out


def _ref_add(x, y):
    """independent reference: leaf-wise sum, dict leaves paired by KEY"""
    if isinstance(x, dict):
        return {k_: _ref_add(x[k_], y[k_]) for k_ in x}
    if isinstance(x, (tuple, list)):
        return type(x)(_ref_add(a_, b_) for a_, b_ in zip(x, y))
    return x + y


def _ref_inner(x, y):
    """independent reference: real inner product = sum over leaves (by key) of re*re + im*im"""
    if isinstance(x, dict):
        return sum((_ref_inner(x[k_], y[k_]) for k_ in x), 0.0)
    if isinstance(x, (tuple, list)):
        return sum((_ref_inner(a_, b_) for a_, b_ in zip(x, y)), 0.0)
    tot = 0.0
    for a_, b_ in zip(leaves(x), leaves(y)):
        if isinstance(a_, (S, CS)) or isinstance(b_, (S, CS)):
            from .sym import re_im
            ar, ai = re_im(a_)
            br, bi = re_im(b_)
            tot = tot + ar * br + ai * bi
        else:
            a_, b_ = complex(a_), complex(b_)
            tot = tot + a_.real * b_.real + a_.imag * b_.imag
    return tot


def _fortran_leaves(v):
    if isinstance(v, dict):
        return {k_: _fortran_leaves(e) for k_, e in v.items()}
    if isinstance(v, (tuple, list)):
        return type(v)(_fortran_leaves(e) for e in v)
    if isinstance(v, onp.ndarray) and v.ndim >= 2:
        return onp.asfortranarray(v)
    return v


def _reverse_dicts(v):
    if isinstance(v, dict):
        return {k_: _reverse_dicts(v[k_]) for k_ in reversed(list(v))}
    if isinstance(v, (tuple, list)):
        return type(v)(_reverse_dicts(e) for e in v)
    return v


def _shape_struct(a):
    """nesting + shapes only (the real/complex kind of an all-zero object array is not observable)"""
    st = structure(a)
    if st[0] == "array":
        return st[:2]
    if st[0] == "dict":
        return ("dict", tuple((k_, _shape_struct(a[k_])) for k_ in sorted(a, key=repr)))
    return (st[0], tuple(_shape_struct(e) for e in a))


def _type_tree(v):
    """nested container TYPES of a value (leaves: 'leaf'): closure means every operation returns the value's own tree"""
    if isinstance(v, dict):
        return (type(v).__name__, tuple((k, _type_tree(v[k])) for k in sorted(v, key=repr)))
    if isinstance(v, (tuple, list)):
        return (type(v).__module__ + "." + type(v).__name__, tuple(_type_tree(e) for e in v))
    return "leaf"


def vspace_namedtuple_check():
    """the value types numpy.linalg returns as named tuples (EigResult, EighResult, QRResult, SlogdetResult, SVDResult):
    every constructive vector-space operation returns a value OF THE SAME container type and of the same space (closure),
    and the axioms hold leaf-wise.  Concrete float64 / complex128 leaves from NumPy's own routines."""
    from autograd.core import vspace

    rs = onp.random.RandomState(SEED + 11)
    A = rs.randn(3, 3)
    Asym = A + A.T
    makers = {"EigResult": lambda M: onp.linalg.eig(M), "EighResult": lambda M: onp.linalg.eigh(M + M.T), "QRResult": lambda M: onp.linalg.qr(M),
              "SlogdetResult": lambda M: onp.linalg.slogdet(M), "SVDResult": lambda M: onp.linalg.svd(M)}
    fails = []
    n = 0
    flat = lambda v: onp.concatenate([onp.ravel(onp.asarray(e)).astype(complex) for e in v]) if len(v) else onp.zeros(0)
    for name, mk in makers.items():
        try:
            x, y = mk(A), mk(rs.randn(3, 3))
            if type(x).__name__ != name:
                continue  # this NumPy returns plain tuples
            vs = vspace(x)
            tt = _type_tree(x)
            ops = {"zeros()": vs.zeros(), "ones()": vs.ones(), "randn()": vs.randn(), "add(x, y)": vs.add(x, y), "mut_add(None, x)": vs.mut_add(None, x),
                   "mut_add(zeros(), x)": vs.mut_add(vs.zeros(), x), "scalar_mul(x, 2.5)": vs.scalar_mul(x, 2.5), "covector(x)": vs.covector(x), "first basis vector": next(iter(vs.standard_basis()))}
            for on, r in ops.items():
                n += 1
                if _type_tree(r) != tt:
                    fails.append("%s: %s is a %s" % (name, on, type(r).__name__))
                elif not (vspace(r) == vs):
                    fails.append("%s: vspace(%s) != vspace(x)" % (name, on))
            chk = {"add(x, y) leaf-wise": (flat(vs.add(x, y)), flat(x) + flat(y)), "add(zeros(), x) == x": (flat(vs.add(vs.zeros(), x)), flat(x)),
                   "scalar_mul": (flat(vs.scalar_mul(x, 2.5)), 2.5 * flat(x)), "covector involution": (flat(vs.covector(vs.covector(x))), flat(x))}
            for cn, (a_, b_) in chk.items():
                n += 1
                if a_.shape != b_.shape or not onp.allclose(a_, b_, rtol=1e-12, atol=1e-12):
                    fails.append("%s: %s fails" % (name, cn))
            ip = vs.inner_prod(x, y)
            n += 1
            if abs(ip - float(onp.sum(onp.real(onp.conj(flat(x)) * flat(y))))) > 1e-9 * max(1.0, abs(ip)):
                fails.append("%s: inner_prod is not the leaf-wise real inner product" % name)
            import autograd
            import autograd.numpy as anp

            g = autograd.grad(lambda t: anp.sum(anp.real(t[0] * t[0])) + anp.sum(anp.real(t[-1])))(x)
            n += 1
            if _type_tree(g) != tt:
                fails.append("%s: grad w.r.t. a %s value returns a %s" % (name, name, type(g).__name__))
        except Exception as e:
            fails.append("%s: raised %s" % (name, exc_sig(e)))
    return n, fails


def vspace_pairs_check():
    """vspace(a) == vspace(b) iff same structure / shape / dtype-kind; mut_add(None, x) shares no memory with x.
    Concrete (float64) part of C13: these clauses are about dtypes and memory, which symbolic arrays cannot show."""
    from autograd.core import vspace

    vals = {
        "f64 (2,)": onp.zeros(2), "f64 (2,) b": onp.ones(2), "f64 (1,2)": onp.zeros((1, 2)), "f64 ()": onp.zeros(()), "f32 (2,)": onp.zeros(2, dtype=onp.float32),
        "c128 (2,)": onp.zeros(2, dtype=complex), "c64 (2,)": onp.zeros(2, dtype=onp.complex64), "f16 (2,)": onp.zeros(2, dtype=onp.float16), "longdouble (2,)": onp.zeros(2, dtype=onp.longdouble),
        "float": 1.5, "float b": 2.5, "complex": 1 + 2j, "np.float64": onp.float64(2.0), "f64 (0,)": onp.zeros(0), "f64 (2,0)": onp.zeros((2, 0)),
        "tuple": (onp.zeros(2), 1.0), "tuple b": (onp.ones(2), 3.0), "list": [onp.zeros(2), 1.0], "tuple other shape": (onp.zeros(3), 1.0), "dict": {"a": onp.zeros(2)}, "dict b": {"a": onp.ones(2)},
        "dict other key": {"b": onp.zeros(2)}, "empty tuple": (), "empty list": [],
    }
    same = {("f64 (2,)", "f64 (2,) b"), ("float", "float b"), ("tuple", "tuple b"), ("dict", "dict b"), ("float", "np.float64"), ("float b", "np.float64"),
            ("f64 ()", "float"), ("f64 ()", "float b"), ("f64 ()", "np.float64")}  # a 0-d float64 array and a Python float have the same shape () and dtype
    fails = []
    names = list(vals)
    n = 0
    for i, a in enumerate(names):
        for b in names[i:]:
            n += 1
            want = a == b or (a, b) in same or (b, a) in same
            try:
                got = vspace(vals[a]) == vspace(vals[b])
            except Exception as e:
                fails.append("vspace(%s) == vspace(%s) raised %s" % (a, b, exc_sig(e)))
                continue
            if bool(got) != want:
                fails.append("vspace(%s) == vspace(%s) is %s, expected %s" % (a, b, got, want))
            # the inequality operator is the negation of equality (a guard written `if vspace(g) != vspace(x): raise` relies on it),
            # in both operand orders; `in` on lists goes through == as well
            try:
                va, vb = vspace(vals[a]), vspace(vals[b])
                if (va != vb) is not (not (va == vb)) or (vb != va) is not (not (vb == va)) or (va == vb) != (vb == va):
                    fails.append("vspace(%s) != vspace(%s) is %s while == is %s" % (a, b, va != vb, va == vb))
                if (va in [vb]) != (va == vb):
                    fails.append("membership test disagrees with == for %s, %s" % (a, b))
            except Exception as e:
                fails.append("vspace(%s) != vspace(%s) raised %s" % (a, b, exc_sig(e)))
    for name in ("f64 (2,)", "c128 (2,)", "f32 (2,)", "f64 (1,2)", "tuple", "dict", "list", "f64 (0,)"):
        x = vals[name]
        vs = vspace(x)
        r = vs.mut_add(None, x)
        for u, v in zip(leaves_raw(r), leaves_raw(x)):
            n += 1
            if isinstance(u, onp.ndarray) and isinstance(v, onp.ndarray) and (u is v or onp.shares_memory(u, v)):
                fails.append("mut_add(None, x) shares memory with x for %s" % name)
            if isinstance(u, onp.ndarray) and isinstance(v, onp.ndarray) and (u.dtype != v.dtype or u.shape != v.shape):
                fails.append("mut_add(None, x) changed dtype/shape for %s: %s%s vs %s%s" % (name, u.dtype, u.shape, v.dtype, v.shape))
    # the operations work IN the space's dtype: extended / reduced precision leaves keep their range, precision and dtype
    # (only where the platform's long double is wider than double)
    with warnings.catch_warnings():
        warnings.simplefilter("ignore")
        if onp.finfo(onp.longdouble).max > onp.finfo(onp.float64).max:
            tiny = onp.array([1e-200, -2e-200], dtype=onp.longdouble)
            huge = onp.array([1e200, 3e200], dtype=onp.longdouble)
            for lab, mk in (("longdouble (2,)", lambda a: a), ("list [longdouble (2,), float]", lambda a: [a, 1.5]), ("dict {a: longdouble (2,)}", lambda a: {"a": a})):
                for nm, a in (("tiny", tiny), ("huge", huge)):
                    n += 1
                    x = mk(a)
                    extra = 2.25 if isinstance(x, list) else 0.0
                    vs = vspace(x)
                    try:
                        ip = vs.inner_prod(x, x)
                        want = onp.sum(a * a) + onp.longdouble(extra)
                        if not (onp.isfinite(ip) and ip > 0 and abs(ip - want) <= 1e-17 * abs(want)):
                            fails.append("inner_prod on %s (%s entries): %r, long double arithmetic gives %r" % (lab, nm, ip, want))
                        s2 = vs.scalar_mul(x, 0.5)
                        if [getattr(l_, "dtype", None) for l_ in leaves_raw(s2)] != [getattr(l_, "dtype", None) for l_ in leaves_raw(vs.add(x, x))]:
                            fails.append("scalar_mul / add disagree on leaf dtypes for %s" % lab)
                    except Exception as e:
                        fails.append("vector-space operation raised on %s: %s" % (lab, exc_sig(e)))
        # every real / complex dtype width, several shapes, against NumPy itself: <x,y> = Re(vdot), covector = conj,
        # real dimension n (real) or 2n (complex), complete orthonormal basis, zeros/ones in the space's dtype
        rs_ = onp.random.RandomState(5)
        for dt in (onp.float16, onp.float32, onp.float64, onp.longdouble, onp.complex64, onp.complex128, onp.clongdouble):
            cplx = onp.issubdtype(dt, onp.complexfloating)
            tol = 5e-2 if dt is onp.float16 else (1e-5 if dt in (onp.float32, onp.complex64) else 1e-12)
            for shp in ((2,), (), (0,), (2, 2)):
                n += 1
                mk = lambda: ((rs_.randn(*shp) + (1j * rs_.randn(*shp) if cplx else 0.0)) * onp.ones(shp)).astype(dt) if shp != () else onp.array(rs_.randn() + (1j * rs_.randn() if cplx else 0.0)).astype(dt)
                x, y = mk(), mk()
                lab = "%s %s" % (onp.dtype(dt).name, shp)
                try:
                    vs = vspace(x)
                    ip = vs.inner_prod(x, y)
                    ref = onp.real(onp.vdot(x.astype(onp.clongdouble if cplx else onp.longdouble), y.astype(onp.clongdouble if cplx else onp.longdouble)))
                    if onp.iscomplexobj(ip) or abs(float(ip) - float(ref)) > tol * max(1.0, abs(float(ref))):
                        fails.append("inner_prod on %s is %r, Re(vdot) is %r" % (lab, ip, ref))
                    if int(vs.size) != int(x.size) * (2 if cplx else 1):
                        fails.append("size of the %s space is %r" % (lab, vs.size))
                    basis = list(vs.standard_basis())
                    if len(basis) != int(vs.size):
                        fails.append("standard_basis of the %s space has %d members, size is %r" % (lab, len(basis), vs.size))
                    if not onp.array_equal(onp.asarray(vs.covector(x)), onp.conj(x)):
                        fails.append("covector on %s is not the conjugate" % lab)
                    if onp.asarray(vs.zeros()).dtype != onp.dtype(dt) or onp.asarray(vs.ones()).dtype != onp.dtype(dt):
                        fails.append("zeros()/ones() of the %s space have dtype %s / %s" % (lab, onp.asarray(vs.zeros()).dtype, onp.asarray(vs.ones()).dtype))
                    if x.size and not (float(vs.inner_prod(x, x)) > 0):
                        fails.append("<x,x> is not positive on %s" % lab)
                except Exception as e:
                    fails.append("vector-space operation raised on %s: %s" % (lab, exc_sig(e)))
        f16 = onp.array([1.0, 2.0], dtype=onp.float16)
        n += 1
        if vspace(f16).zeros().dtype != onp.float16 or onp.asarray(vspace(f16).add(f16, f16)).dtype != onp.float16:
            fails.append("float16 space: zeros / add leave the dtype")
    return n, fails


def leaves_raw(v):
    if isinstance(v, dict):
        o = []
        for k_ in sorted(v):
            o.extend(leaves_raw(v[k_]))
        return o
    if isinstance(v, (tuple, list)):
        o = []
        for e in v:
            o.extend(leaves_raw(e))
        return o
    return [v]


# ----------------------------------------------------------------------------------------------
# C14: independent / piecewise-constant dependence yields an exact zero derivative


def nograd_templates():
    """(name, call) templates for the members of nograd_functions; the list of names is read from the module at run time"""
    T = {}
    un = lambda n: [("%s(x)" % n, lambda np, x, _n=n: getattr(np, _n)(x))]
    for n in ["floor", "ceil", "round", "rint", "around", "fix", "trunc", "sign", "isfinite", "isinf", "isnan", "isneginf", "isposinf", "iscomplexobj", "iscomplex", "isreal", "isscalar",
              "zeros_like", "ones_like", "ndim", "shape", "size", "argmax", "argmin", "argsort", "nonzero", "flatnonzero", "count_nonzero", "argwhere", "logical_not", "all", "any", "result_type"]:
        T[n] = un(n)
    for n in ["greater", "greater_equal", "less", "less_equal", "equal", "not_equal", "logical_and", "logical_or", "logical_xor", "floor_divide", "allclose", "isclose", "array_equal", "array_equiv"]:
        T[n] = [("%s(x, y)" % n, lambda np, x, y, _n=n: getattr(np, _n)(x, y)), ("%s(x, 0.5)" % n, lambda np, x, _n=n: getattr(np, _n)(x, 0.5))]
    T["argpartition"] = [("argpartition(x, 1)", lambda np, x: np.argpartition(x, 1))]
    T["searchsorted"] = [("searchsorted(sorted, x)", lambda np, x: np.searchsorted(onp.array([-1.0, 0.0, 1.0]), x))]
    T["argmax"].append(("x.argmax() method", lambda np, x: x.argmax()))
    T["round"].append(("x.round() method", lambda np, x: x.round()))
    T["all"].append(("x.all() method", lambda np, x: x.all()))
    return T


def zero_cases(tier):
    """programs whose output is independent of the argument, or depends on it only through non-differentiable functions"""
    from .enga import R, SC

    c = []
    c.append(("constant array", lambda np, x: onp.array([1.0, 2.0]) * 3.0, R(2)))
    c.append(("constant scalar", lambda np, x: 5.0, R(2)))
    c.append(("floor(x)", lambda np, x: np.floor(x) * 2.0, R(2)))
    c.append(("(x > 0) * 1.0", lambda np, x: (x > 0) * 1.0, R(2)))
    c.append(("sign(x) + round(x)", lambda np, x: np.sign(x) + np.round(x), R(2)))
    c.append(("sum of argsort", lambda np, x: 1.0 * np.sum(np.argsort(x)), R(3)))
    c.append(("depends on another array only", lambda np, x, y: y * 2.0, R(2), R(2)))
    c.append(("shape / ndim / size queries", lambda np, x: 1.0 * np.ndim(x) + np.shape(x)[0] + np.size(x) + x.shape[0] + x.ndim + len(x), R(2)))
    c.append(("scalar argument, constant output", lambda np, x: 2.0, SC))
    c.append(("container argument, constant output", lambda np, t: onp.ones(2), (R(2), SC)))
    c.append(("dict argument, piecewise constant", lambda np, d: np.floor(d["a"]), {"a": R(2), "b": R(1)}))
    c.append(("value-dependent branch to constants", lambda np, x: 1.0 if x[0] > x[1] else 2.0, R(2)))
    c.append(("zeros_like / ones_like", lambda np, x: np.zeros_like(x) + np.ones_like(x), R(2)))
    c.append(("only the constant border of a padded array is read", lambda np, x: np.pad(x, 1, "constant", constant_values=7.0)[onp.array([0, -1])] * 3.0, R(2)))
    c.append(("full_like / linspace endpoints built from shapes only", lambda np, x: np.sum(np.full(np.shape(x), 2.5)) + np.sum(np.linspace(0.0, 1.0, np.size(x))), R(3)))
    # constant because an intermediate result is EMPTY (the backward pass still runs the rules, on empty cotangents)
    c.append(("sum of diff(x, n=2) of a length-2 vector (empty)", lambda np, x: np.sum(np.diff(x, n=2)) + 0.0, R(2)))
    c.append(("sum of diff(x, n=3) of a length-3 vector (empty)", lambda np, x: np.sum(np.diff(x, n=3)) + 0.0, R(3)))
    c.append(("sum of diff(x, n=4) of a length-2 vector (n > length)", lambda np, x: np.sum(np.diff(x, n=4)) + 0.0, R(2)))
    c.append(("sum of diff(x, n=2, axis=0) of a (2,3) array (empty)", lambda np, x: np.sum(np.diff(x, n=2, axis=0)) + 0.0, R(2, 3)))
    c.append(("sum of diff(x, n=1, axis=1) of a (2,1) array (empty)", lambda np, x: np.sum(np.diff(x, axis=1)) + 0.0, R(2, 1)))
    c.append(("sum / prod of an empty slice", lambda np, x: np.sum(x[2:2] * 3.0) + np.prod(x[5:]) + np.sum(x[:, :0] if np.ndim(x) > 1 else x[:0]), R(3)))
    c.append(("concatenate of empty pieces only", lambda np, x: np.sum(np.concatenate([x[:0], x[3:]])) + 1.0, R(3)))
    c.append(("triu above the last diagonal / diag outside the matrix", lambda np, x: np.sum(np.triu(x, 5)) + np.sum(np.diag(x, 4)) + 0.0, R(2, 3)))
    # constant pieces holding inf / nan next to the argument: the zero block of the OTHER pieces must be an exact zero (0 * inf is nan)
    NF = onp.array([onp.inf, -onp.inf, onp.nan])
    c.append(("only the non-finite constant piece of a concatenation is read", lambda np, x: np.concatenate([x, NF])[2:] if np is not onp else onp.array([1.0, 2.0, 3.0]), R(2)))
    c.append(("only the non-finite constant piece of append / hstack / stack is read", lambda np, x: (np.append(x, NF)[2:] * 1.0 + np.hstack([NF, x])[:3] + np.stack([x, NF[:2]])[1, 0]) if np is not onp else onp.array([1.0, 2.0, 3.0]), R(2)))
    # an inner derivative whose value depends on the OUTER argument only through two-argument non-differentiable functions
    # (operands of different nesting levels in one call)
    def _inner(np, body, at):
        import autograd

        return autograd.elementwise_grad(body)(at) if np is not onp else None

    c.append(("nested: d/dy [y * logical_and(y, x)] as a function of x", lambda np, x: (_inner(np, lambda y: y * np.logical_and(y, x), onp.array([1.5, 2.5])) if np is not onp else onp.ones(2)), R(2)))
    c.append(("nested: d/dy [y * (floor_divide(y, |x|+1) )] as a function of x", lambda np, x: (_inner(np, lambda y: y * np.floor_divide(y, np.abs(x) + 1.0) * 0.0 + np.logical_or(y, x) * y, onp.array([7.5, 9.5])) if np is not onp else onp.ones(2)), R(2)))
    return c


def _is_exact_zero(v):
    for e in leaves(v):
        for part in re_im_parts(e):
            if not (type(part) is Fr and part == 0):
                return False
    return True


def re_im_parts(e):
    from .sym import re_im

    if isinstance(e, (S, CS)):
        r, i = re_im(e)
        return [r.co(0), i.co(0)]
    if isinstance(e, Box_types()):
        return ["BOX"]
    try:
        c = complex(e)
        return [Fr(c.real) if c.real == int(c.real) else "nz", Fr(0) if c.imag == 0 else "nz"]
    except Exception:
        return ["?"]


def Box_types():
    from autograd.tracer import Box

    return (Box,)


def contains_box(v):
    from autograd.tracer import isbox

    if isbox(v):
        return True
    if isinstance(v, dict):
        return any(contains_box(e) for e in v.values())
    if isinstance(v, (tuple, list)):
        return any(contains_box(e) for e in v)
    if isinstance(v, onp.ndarray) and v.dtype == object:
        return any(isbox(e) for e in v.ravel())
    return False


def check_nograd(item, tier="quick"):
    """nograd function under both modes: unboxed value equal to NumPy's, and the oracle says it is locally constant"""
    from autograd import core
    from .enga import Config, R

    name, lab, call, nargs = item
    cfg = Config("nograd:" + name, "NOGRAD " + lab, call, [R(3)] * nargs, 0)
    opts = tier_opts(tier)
    out = Outcome(cfg)
    t0 = time.time()
    anp = enga.anp

    def body():
        dual = cfg.make_args(eps={0: {1: "d"}})
        try:
            y = call(onp, *dual)
        except (Unsupported, Infeasible, PathLimit):
            raise
        except Exception as e:
            return {"tag": "numpy_rejects", "exc": e}
        plain = cfg.make_args()
        seen = {}

        def f(x):
            # the non-differentiable function is called INSIDE a differentiated function on the traced value; its result
            # must be a plain value (so that Python control flow, indexing, shapes ... work) equal to NumPy's
            r = call(anp, *subst(plain, 0, x))
            seen["r"] = r
            return x * 1.0

        res = {"tag": "ok", "y": y, "args": dual}
        with warnings.catch_warnings():
            warnings.simplefilter("ignore")
            for mode in ("vjp", "jvp"):
                try:
                    if mode == "vjp":
                        vjp, val = core.make_vjp(f, plain[0])
                        vjp(sym_like(val, "g"))
                    else:
                        val, tan = core.make_jvp(f, plain[0])(tangent_of(dual[0]))
                    res[mode + "_inner_box"] = contains_box(seen["r"])
                    res[mode + "_val"] = seen["r"]
                except (Unsupported, Infeasible, PathLimit):
                    raise
                except Exception as e:
                    res[mode + "_exc"] = e
        return res

    paths = explore_cfg(cfg, out, body, opts)
    if paths is None:
        out.time = time.time() - t0
        return out
    fails = []
    nok = 0
    for p in paths:
        if p.err is not None:
            out.status, out.detail = "error", "harness: body raised %s" % exc_sig(p.err)
            break
        res = p.res
        if res["tag"] == "numpy_rejects":
            out.status, out.detail = "numpy_rejects", exc_sig(res["exc"])
            break
        r, m = witness(p, out, opts)
        if r == "unsat":
            continue
        nok += 1
        y = res["y"]
        # oracle: locally constant  (every eps coefficient of NumPy's own result is exactly 0)
        for e in leaves(y):
            if isinstance(e, (S, CS)):
                from .sym import re_im
                for part in re_im(e):
                    t = part.co(1)
                    if not (type(t) is Fr and t == 0):
                        fails.append("NumPy's %s is NOT locally constant on this path (d-coefficient %s): it should not be in nograd_functions" % (name, t))
        for mode in ("vjp", "jvp"):
            if mode + "_exc" in res:
                fails.append("%s under %s raised %s" % (name, mode, exc_sig(res[mode + "_exc"])))
                continue
            if res.get(mode + "_inner_box"):
                fails.append("%s returned a traced (boxed) value inside the %s trace" % (name, mode))
            val = res.get(mode + "_val")
            if contains_box(val):
                fails.append("value returned under %s contains a Box" % mode)
            else:
                try:
                    if not _numeric(y):
                        if repr(val) != repr(y):
                            fails.append("value under %s is %r, NumPy gives %r" % (mode, val, y))
                    elif structure(val)[:2] != structure(y)[:2]:
                        fails.append("value under %s has structure %s, NumPy gives %s" % (mode, structure(val), structure(y)))
                    else:
                        v_, _m = prove_eqs(p, leaf_eqs(val, 0, y, 0), [], out, opts)
                        if v_ == "sat":
                            fails.append("value under %s differs from NumPy's" % mode)
                except ValueError as e:
                    fails.append("value under %s: %s" % (mode, e))
        if "vjp_zero" in res and not _is_exact_zero(res["vjp_zero"]):
            fails.append("vjp is not an exact zero: %s" % (res["vjp_zero"],))
        if "jvp_tan" in res and not _is_exact_zero(res["jvp_tan"]):
            fails.append("jvp tangent is not an exact zero: %s" % (res["jvp_tan"],))
        if fails:
            break
    if out.status is None:
        if fails:
            out.status, out.detail = "violation", "; ".join(fails[:4])
            out.cex = {"env": {}, "mode": "nograd"}
        elif nok:
            out.status = "holds"
            out.validated += 1
        else:
            out.status = "error"
    out.time = time.time() - t0
    return out


def _numeric(v):
    try:
        for e in leaves(v):
            if not isinstance(e, (S, CS, int, float, complex, bool, onp.number, onp.bool_)):
                return False
        return True
    except Exception:
        return False


def _scribble(r):
    """add 7 in place to every array leaf of a result (what a caller's `r += ...` does)"""
    if isinstance(r, dict):
        for v in r.values():
            _scribble(v)
    elif isinstance(r, (tuple, list)):
        for v in r:
            _scribble(v)
    elif isinstance(r, onp.ndarray) and r.flags.writeable:
        r[...] = r + 7


def check_zero(case, tier="quick"):
    """every operator returns an exact structural zero (never None / error) when the output does not depend on the argument"""
    import autograd
    from .enga import Config

    lab, call = case[0], case[1]
    specs = list(case[2:])
    cfg = Config("zero", "ZERO " + lab, call, specs, 0)
    opts = tier_opts(tier)
    out = Outcome(cfg)
    t0 = time.time()
    anp = enga.anp

    def body():
        plain = cfg.make_args()
        f = lambda x: call(anp, *subst(plain, 0, x))
        x = plain[0]
        res = {"tag": "ok", "args": plain, "x": x, "ops": {}}
        y = call(onp, *plain)
        res["y"] = y
        scalar_out = onp.shape(y) == () and not isinstance(y, (tuple, list, dict))
        array_in = not isinstance(x, (tuple, list, dict))

        def attempt(name, fn, like):
            try:
                with warnings.catch_warnings():
                    warnings.simplefilter("ignore")
                    res["ops"][name] = (fn(), like)
            except (Unsupported, Infeasible, PathLimit):
                raise
            except Exception as e:
                res["ops"][name] = (e, like)

        attempt("make_vjp", lambda: autograd.make_vjp(f)(x)[0](y if not scalar_out else 1.0), x)
        attempt("make_jvp", lambda: autograd.make_jvp(f)(x)(x)[1], y)

        def scribbled_reuse(vjpf, ct):
            # the caller owns what a VJP function returns: modifying it in place must not change the next call
            _scribble(vjpf(ct))
            return vjpf(ct)

        attempt("make_vjp called again after the caller modified the first result in place",
                lambda: scribbled_reuse(autograd.make_vjp(f)(x)[0], y if not scalar_out else 1.0), x)
        if scalar_out and array_in:
            attempt("make_hvp called again after the caller modified the first result in place",
                    lambda: scribbled_reuse(autograd.make_hvp(f)(x)[0], x), x)
        attempt("elementwise_grad", lambda: autograd.elementwise_grad(f)(x), x)
        if scalar_out:
            attempt("grad", lambda: autograd.grad(f)(x), x)
            attempt("value_and_grad", lambda: autograd.value_and_grad(f)(x)[1], x)
            if array_in:
                attempt("hessian", lambda: autograd.hessian(f)(x), None)
        if array_in:
            attempt("jacobian", lambda: autograd.jacobian(f)(x), None)
            if onp.shape(x) == ():
                attempt("deriv", lambda: autograd.deriv(f)(x), y)
        return res

    paths = explore_cfg(cfg, out, body, opts)
    if paths is None:
        out.time = time.time() - t0
        return out
    fails = []
    for p in paths:
        if p.err is not None:
            out.status, out.detail = "error", "harness: body raised %s" % exc_sig(p.err)
            break
        for name, (val, like) in p.res["ops"].items():
            if isinstance(val, Exception):
                fails.append("%s raised %s" % (name, exc_sig(val)))
            elif val is None:
                fails.append("%s returned None" % name)
            elif contains_box(val):
                fails.append("%s returned a Box" % name)
            elif not _is_exact_zero(val):
                fails.append("%s is not an exact zero: %r" % (name, val))
            elif like is not None and _shape_struct(val) != _shape_struct(like):
                fails.append("%s returned a zero of structure %s, expected %s" % (name, _shape_struct(val), _shape_struct(like)))
            elif like is None and name == "jacobian" and tuple(onp.shape(val)) != tuple(onp.shape(p.res["y"])) + tuple(onp.shape(p.res["x"])):
                fails.append("jacobian zero has shape %s" % (onp.shape(val),))
        if fails:
            break
    if out.status is None:
        if fails:
            # float64 confirmation
            out.status, out.detail = "violation", "; ".join(fails[:4])
            out.cex = {"env": {}, "mode": "zero"}
        else:
            out.status = "holds"
            out.validated += 1
    out.time = time.time() - t0
    return out


# ----------------------------------------------------------------------------------------------
# C06: value transparency


def check_transparent(cfg, tier="quick"):
    from autograd import core
    import autograd
    import autograd.builtins as ab

    opts = tier_opts(tier)
    out = Outcome(cfg)
    t0 = time.time()
    k = cfg.argnum
    anp = enga.anp

    def body():
        plain = cfg.make_args()
        try:
            y_np = getattr(cfg, "oracle", cfg.call)(onp, *plain)
        except (Unsupported, Infeasible, PathLimit):
            raise
        except Exception as e:
            return {"tag": "numpy_rejects", "exc": e}
        in_ids = [_ids(a) for a in plain if isinstance(a, onp.ndarray)]
        f = lambda x: cfg.call(anp, *subst(plain, k, x))
        res = {"tag": "ok", "args": plain, "y_np": y_np, "vals": {}, "tq": []}

        def guard(name, fn):
            try:
                with warnings.catch_warnings():
                    warnings.simplefilter("ignore")
                    res["vals"][name] = fn()
            except (Unsupported, Infeasible, PathLimit):
                raise
            except Exception as e:
                res["vals"][name] = e

        guard("plain call through autograd.numpy", lambda: f(plain[k]))
        guard("make_vjp", lambda: core.make_vjp(f, plain[k])[1])
        v = sym_like(plain[k], "v")
        guard("make_jvp", lambda: core.make_jvp(f, plain[k])(v)[0])
        guard("jvp inside vjp (depth 2)", lambda: core.make_vjp(lambda x: core.make_jvp(f, x)(v)[0], plain[k])[1])
        guard("vjp inside jvp (depth 2)", lambda: core.make_jvp(lambda x: core.make_vjp(f, x)[1], plain[k])(v)[0])
        if not isinstance(y_np, (tuple, list, dict)) and onp.shape(y_np) == ():
            guard("value_and_grad", lambda: autograd.value_and_grad(f)(plain[k])[0])
            guard("grad_and_aux aux", lambda: autograd.grad_and_aux(lambda x: (f(x), f(x)))(plain[k])[1])

        # type queries through autograd's replacements answer as for the plain value
        def probe(x):
            res["tq"].append((ab.isinstance(x, onp.ndarray), isinstance(plain[k], onp.ndarray), ab.isinstance(x, (float, S)), isinstance(plain[k], (float, S)),
                              ab.type(x) is type(plain[k]), ab.isinstance(x, (tuple, list, dict)), isinstance(plain[k], (tuple, list, dict))))
            return f(x)

        try:
            with warnings.catch_warnings():
                warnings.simplefilter("ignore")
                core.make_vjp(probe, plain[k])
        except (Unsupported, Infeasible, PathLimit):
            raise
        except Exception:
            pass
        res["in_same"] = [_ids(a) for a in plain if isinstance(a, onp.ndarray)] == in_ids
        return res

    paths = explore_cfg(cfg, out, body, opts)
    if paths is None:
        out.time = time.time() - t0
        return out
    fails = []
    nok = 0
    nraise = 0
    for p in paths:
        if p.err is not None:
            out.status, out.detail = "error", "harness: body raised %s" % exc_sig(p.err)
            break
        res = p.res
        if res["tag"] == "numpy_rejects":
            out.status, out.detail = ("numpy_rejects" if _numpy_float_raises(cfg) else "inconclusive"), exc_sig(res["exc"])
            break
        r, m = witness(p, out, opts)
        if r == "unsat":
            continue
        y = res["y_np"]
        if not res["in_same"]:
            fails.append("an input array had entries replaced")
        for tq in res["tq"]:
            if tq[0] != tq[1] or tq[2] != tq[3] or not tq[4] or tq[5] != tq[6]:
                fails.append("autograd.builtins.isinstance/type disagree with the builtins on the plain value: %s" % (tq,))
        for name, val in res["vals"].items():
            if isinstance(val, Exception):
                nraise += 1
                out.extra.setdefault("raised", {})[name] = exc_sig(val)
                continue
            nok += 1
            if contains_box(val):
                fails.append("%s: returned value contains a tracer (Box)" % name)
                continue
            if not _numeric(y):
                continue
            if _container_types(val) != _container_types(y):
                fails.append("%s: result container structure %s, NumPy gives %s" % (name, _container_types(val), _container_types(y)))
                continue
            if _shape_struct(val) != _shape_struct(y):
                fails.append("%s: result shape structure %s, NumPy gives %s" % (name, _shape_struct(val), _shape_struct(y)))
                continue
            try:
                v_, model = prove_eqs(p, leaf_eqs(val, 0, y, 0), [], out, opts)
            except ValueError as e:
                fails.append("%s: %s" % (name, e))
                continue
            if v_ == "sat":
                fails.append("%s: value differs from NumPy's" % name)
            elif v_ == "unknown":
                out.status, out.detail = "inconclusive", "solver unknown on value equality (%s)" % name
                break
        if out.status or fails:
            break
    if out.status is None:
        if fails:
            rep = _float_transparent(cfg)
            if rep:
                out.status, out.detail = "violation", "; ".join(fails[:4]) + " | float64: " + rep
                out.cex = {"env": {}, "mode": "transparent"}
            else:
                out.status, out.detail = "inconclusive", "differs on symbolic arrays only (object-dtype artefact): " + "; ".join(fails[:3])
        elif nok == 0:
            out.status = "raises"
        else:
            out.status = "holds"
            out.validated += 1
    out.time = time.time() - t0
    return out


def _container_types(v):
    if isinstance(v, dict):
        return ("dict", tuple((k_, _container_types(v[k_])) for k_ in sorted(v, key=repr)))
    if isinstance(v, tuple) and hasattr(v, "_fields"):
        return (type(v).__name__, tuple(_container_types(e) for e in v))
    if isinstance(v, (tuple, list)):
        return (type(v).__name__, tuple(_container_types(e) for e in v))
    return "leaf"


def _float_transparent(cfg):
    """float64: value under both modes vs plain NumPy (values, shape, dtype, structure, no Box)"""
    from autograd import core

    rng = _rng(cfg)
    env = _Default({}, rng)
    anp = enga.anp
    k = cfg.argnum
    try:
        fa = cfg.float_args(env)
        with warnings.catch_warnings():
            warnings.simplefilter("ignore")
            y = getattr(cfg, "oracle", cfg.call)(onp, *fa)
            f = lambda x: cfg.call(anp, *subst(fa, k, x))
            vals = {"make_vjp": core.make_vjp(f, fa[k])[1]}
            try:
                vals["make_jvp"] = core.make_jvp(f, fa[k])(enga.add_scaled(fa[k], fa[k], 0.0))[0]
            except Exception:
                pass
            vals["plain"] = f(fa[k])
        for name, v in vals.items():
            if contains_box(v):
                return "%s returns a Box" % name
            if _container_types(v) != _container_types(y):
                return "%s: container structure %s vs NumPy %s" % (name, _container_types(v), _container_types(y))
            for a, b in zip(leaves_raw(v), leaves_raw(y)):
                a_, b_ = onp.asarray(a), onp.asarray(b)
                if a_.shape != b_.shape:
                    return "%s: shape %s vs NumPy %s" % (name, a_.shape, b_.shape)
                if a_.dtype != b_.dtype and a_.dtype != object and b_.dtype != object:
                    return "%s: dtype %s vs NumPy %s" % (name, a_.dtype, b_.dtype)
                if not onp.allclose(a_, b_, rtol=1e-12, atol=1e-12, equal_nan=True):
                    return "%s: values differ" % name
    except Exception as e:
        return ""
    return ""
