"""Per-configuration property instances decided with Engine A (C01, C02, C04, C05, ...)."""
import math
import os
import random
import time
import warnings

import numpy as onp
import z3

from . import enga, solve
from .enga import (Outcome, all_var_names, close, coeffs, exc_sig, flat_float, float_like, floats_of, model_env,
                   neq_any, pair, path_matches, rand_env, subst, sym_like)
from .sym import (CS, CTX, Fr, S, Infeasible, PathLimit, Unsupported, complete_env, evalf, is_complex, leaves,
                  structure, t_sub, toz, term_vars)

SEED = int(os.environ.get("VERIF_SEED", "0") or 0)


def _rng(cfg):
    return random.Random("%d|%s" % (SEED, cfg.key))


def tier_opts(tier):
    if tier == "thorough":
        return dict(max_paths=3000, timeout_ms=60000, feas_ms=4000)
    return dict(max_paths=400, timeout_ms=10000, feas_ms=1500)


# ----------------------------------------------------------------------------------------------
# shared symbolic run: oracle (NumPy primal on duals) + autograd reverse and/or forward mode


def sym_body(cfg, want_vjp=True, want_jvp=False, complex_g=None):
    """returns a body() for CTX.explore"""
    from autograd import core

    k = cfg.argnum
    anp = enga.anp

    def body():
        dual = cfg.make_args(eps={k: {1: "d"}})
        try:
            y = cfg.call(onp, *dual)
        except (Unsupported, Infeasible, PathLimit):
            raise
        except Exception as e:
            return {"tag": "numpy_rejects", "exc": e}
        res = {"tag": "ok", "x": dual[k], "y": y, "args": dual}
        plain = cfg.make_args()
        f = lambda x: cfg.call(anp, *subst(plain, k, x))
        if want_vjp:
            with warnings.catch_warnings(record=True) as w:
                warnings.simplefilter("always")
                try:
                    vjp, yv = core.make_vjp(f, plain[k])
                    res["untraced"] = any("independent" in str(m.message) for m in w)
                    res["yv"] = yv
                    g = sym_like(yv, "g")
                    res["g"] = g
                    res["got"] = vjp(g)
                except (Unsupported, Infeasible, PathLimit):
                    raise
                except Exception as e:
                    res["vjp_exc"] = e
        if want_jvp:
            with warnings.catch_warnings(record=True) as w:
                warnings.simplefilter("always")
                try:
                    v = tangent_of(dual[k])
                    res["v"] = v
                    yv2, tan = core.make_jvp(f, plain[k])(v)
                    res["untraced_fwd"] = any("independent" in str(m.message) for m in w)
                    res["yv_fwd"] = yv2
                    res["tan"] = tan
                except (Unsupported, Infeasible, PathLimit):
                    raise
                except Exception as e:
                    res["jvp_exc"] = e
        return res

    return body


def tangent_of(xd):
    """the direction d carried by a dual argument, as a plain symbolic value of the same structure"""
    if isinstance(xd, S):
        return S(xd.co(1))
    if isinstance(xd, CS):
        return CS(S(xd.re.co(1)), S(xd.im.co(1)))
    out = onp.empty(onp.shape(xd), dtype=object)
    for i in onp.ndindex(*onp.shape(xd)):
        out[i] = tangent_of(xd[i])
    return out


def explore_cfg(cfg, out, body, opts):
    CTX.mode = cfg.mode
    CTX.feas_timeout_ms = opts["feas_ms"]
    try:
        paths = CTX.explore(body, max_paths=cfg.max_paths or opts["max_paths"])
    except PathLimit as e:
        out.status, out.detail = "inconclusive", "path bound exceeded: %s" % e
        return None
    except Unsupported as e:
        out.status, out.detail = "inconclusive", "unsupported by the symbolic engine: %s" % e
        return None
    out.paths = len(paths)
    return paths


def witness(path, out, opts):
    """reachability witness for the path: antecedent must be satisfiable"""
    r, m, _ = solve.check(path.antecedent(), timeout_ms=opts["timeout_ms"], want_model=True)
    out.queries += 1
    return r, m


def _small_model(path, neg, m, opts):
    """prefer a small, well-scaled counterexample for the replay"""
    names = term_vars(path.antecedent() + [neg])
    box = [z3.And(v >= -4, v <= 4) for n, v in names.items() if "!" not in n]
    r2, m2, _ = solve.check(path.antecedent() + [neg] + box, timeout_ms=min(3000, opts["timeout_ms"]), use_cvc5=False)
    return m2 if r2 == "sat" else m


def prove_eqs(path, eqs, split_vars, out, opts):
    """claim: a == b for every (a, b) in eqs, under the path's antecedent.  (verdict, model).
    Every equation is linear in the direction symbols `split_vars`; when the joint query is not decided
    quickly it is split per equation and per unit direction (d := e_i), which is equivalent by linearity."""
    ante = path.antecedent()
    diffs = []
    for a, b in eqs:
        d = t_sub(a, b)
        if type(d) is Fr:
            if d != 0:
                r, m = witness(path, out, opts)
                return ("sat", m) if r == "sat" else (r, m)
            continue
        diffs.append(d)
    if not diffs:
        return "unsat", None
    fast = min(1500, opts["timeout_ms"])

    def q(neg, tmo, cvc):
        r, m, _ = solve.check(ante + [neg], timeout_ms=tmo, use_cvc5=cvc)
        out.queries += 1
        out.verdicts[r] += 1
        return r, m

    neg = z3.Or([d != 0 for d in diffs]) if len(diffs) > 1 else diffs[0] != 0
    r, m = q(neg, fast, False)
    if r == "sat":
        return r, _small_model(path, neg, m, opts)
    if r == "unsat":
        return r, None
    out.extra["split"] = out.extra.get("split", 0) + 1
    for d in diffs:
        if len(diffs) > 1:
            r, m = q(d != 0, fast, False)
            if r == "sat":
                return r, _small_model(path, d != 0, m, opts)
            if r == "unsat":
                continue
        present = term_vars([d])
        svs = [v for v in split_vars if v.decl().name() in present]
        if not svs:
            r, m = q(d != 0, opts["timeout_ms"], True)
            if r != "unsat":
                return r, m
            continue
        for v in svs:
            sub = [(w, z3.RealVal(1 if w.eq(v) else 0)) for w in svs]
            di = z3.simplify(z3.substitute(d, *sub))
            if z3.is_rational_value(di):
                if di.numerator_as_long() == 0:
                    continue
            r, m = q(di != 0, opts["timeout_ms"], True)
            if r == "sat":
                m = dict(m or {})
                for w in svs:
                    m[w.decl().name()] = Fr(1 if w.eq(v) else 0)
                return r, m
            if r == "unknown":
                return r, None
    return "unsat", None


def dir_vars(x):
    """the direction symbols (eps1 coefficients) of a dual argument"""
    out = []
    for t in coeffs(x, 1):
        if type(t) is not Fr and z3.is_const(t):
            out.append(t)
    return out


# ----------------------------------------------------------------------------------------------
# float64 executions of the real code (validation of the symbolic run, replay of counterexamples)


def float_vjp(cfg, env, g_struct_from=None):
    from autograd import core

    anp = enga.anp
    fa = cfg.float_args(env)
    k = cfg.argnum
    f = lambda x: cfg.call(anp, *subst(fa, k, x))
    with warnings.catch_warnings():
        warnings.simplefilter("ignore")
        vjp, yv = core.make_vjp(f, fa[k])
        g = float_like(yv if g_struct_from is None else g_struct_from, "g", env)
        got = vjp(g)
    return yv, g, got


def float_jvp(cfg, env):
    from autograd import core

    anp = enga.anp
    fa = cfg.float_args(env)
    k = cfg.argnum
    f = lambda x: cfg.call(anp, *subst(fa, k, x))
    denv = {n[1:]: val for n, val in env.items() if n.startswith("dx%d" % k)}
    v = _float_arg_like(cfg, k, denv)
    with warnings.catch_warnings():
        warnings.simplefilter("ignore")
        yv, tan = core.make_jvp(f, fa[k])(v)
    return yv, v, tan


def float_dir_deriv(cfg, env, dname="d", h=1e-4, one_sided=0):
    """Richardson-extrapolated central difference of NumPy's own function along direction d (float64)."""
    k = cfg.argnum
    fa = cfg.float_args(env)
    denv = {}
    for n, val in env.items():
        if n.startswith(dname + "x%d" % k):
            denv[n[len(dname):]] = val
    d = _float_arg_like(cfg, k, denv)

    def F(t):
        with warnings.catch_warnings():
            warnings.simplefilter("ignore")
            return onp.array(flat_float(cfg.call(onp, *subst(fa, k, fa[k] + t * d))), dtype=float)

    if one_sided:
        s = one_sided
        d1 = (F(s * h) - F(0.0)) / (s * h)
        d2 = (F(s * h / 2) - F(0.0)) / (s * h / 2)
        return list(2 * d2 - d1)
    c1 = (F(h) - F(-h)) / (2 * h)
    c2 = (F(h / 2) - F(-h / 2)) / h
    return list((4 * c2 - c1) / 3)


def _float_arg_like(cfg, k, env):
    a = cfg.args[k]
    nm = "x%d" % k
    if a.kind == "r":
        arr = onp.zeros(a.shape)
        for idx in onp.ndindex(*a.shape):
            arr[idx] = env.get(nm + "_" + "_".join(map(str, idx)) if idx else nm, 0.0)
        return arr
    if a.kind == "c":
        arr = onp.zeros(a.shape, dtype=complex)
        for idx in onp.ndindex(*a.shape):
            s = nm + "_" + "_".join(map(str, idx)) if idx else nm
            arr[idx] = complex(env.get(s + "r", 0.0), env.get(s + "i", 0.0))
        return arr
    if a.kind == "s":
        return float(env.get(nm, 0.0))
    if a.kind == "cs":
        return complex(env.get(nm + "r", 0.0), env.get(nm + "i", 0.0))
    raise ValueError


def dvec(cfg, env, dname="d"):
    k = cfg.argnum
    denv = {n[len(dname):]: v for n, v in env.items() if n.startswith(dname + "x%d" % k)}
    return flat_float(_float_arg_like(cfg, k, denv))


def dot(a, b):
    return float(sum(x * y for x, y in zip(a, b)))


def cdot(a, b):
    """<conj(a), b>_R for possibly complex leaves"""
    tot = 0.0
    for x, y in zip(leaves(a), leaves(b)):
        x, y = complex(x), complex(y)
        tot += x.real * y.real - x.imag * y.imag
    return tot


def unflat_like(vals, like):
    """regroup a flat float list (re, im interleaved for complex leaves) into complex/real leaves of `like`"""
    out = []
    i = 0
    for e in leaves(like):
        if isinstance(e, (complex, onp.complexfloating)):
            out.append(complex(vals[i], vals[i + 1]))
            i += 2
        else:
            out.append(vals[i])
            i += 1
    return out


def validate_path(cfg, out, paths, want_vjp, want_jvp):
    """translation validation: evaluate the symbolic results of the path selected by a random concrete
    point and compare with the float64 execution of the same call (real NumPy / real autograd), and the
    oracle derivative with a finite difference of NumPy's function."""
    rng = _rng(cfg)
    ok_paths = [p for p in paths if p.res and p.res.get("tag") == "ok"]
    if not ok_paths:
        return None
    p0 = ok_paths[0]
    objs = list(p0.res["args"]) + [p0.res.get("g"), p0.res.get("v")]
    names = all_var_names([o for o in objs if o is not None])
    for attempt in range(4):
        env0 = rand_env(names, rng)
        for p in ok_paths:
            try:
                env = complete_env(env0, p.ack_list)
            except (Unsupported, KeyError, ZeroDivisionError, OverflowError, ValueError):
                continue
            if any(math.isnan(v) or math.isinf(v) for v in env.values()):
                continue
            if not path_matches(p, env):
                continue
            return _validate(cfg, out, p, env, want_vjp, want_jvp)
    # no random point satisfied a path condition (narrow domain): use a solver model of the first path, in a box
    p = ok_paths[0]
    vs = term_vars(p.antecedent())
    box = [z3.And(v >= -3, v <= 3) for n, v in vs.items() if "!" not in n]
    r, m, _ = solve.check(p.antecedent() + box, timeout_ms=3000, use_cvc5=False)
    if r == "sat":
        env0 = rand_env(names, rng)
        for n in names:
            if n in m:
                env0[n] = float(m[n])
        try:
            env = complete_env(env0, p.ack_list)
            if path_matches(p, env) and not any(math.isnan(v) or math.isinf(v) for v in env.values()):
                return _validate(cfg, out, p, env, want_vjp, want_jvp)
        except (Unsupported, KeyError, ZeroDivisionError, OverflowError, ValueError):
            pass
    return None


def _validate(cfg, out, p, env, want_vjp, want_jvp):
    res = p.res
    msgs = []
    try:
        with warnings.catch_warnings():
            warnings.simplefilter("ignore")
            yf = flat_float(cfg.call(onp, *cfg.float_args(env)))
        ys = floats_of(res["y"], env, 0)
        if not close(ys, yf, 1e-6, 1e-8):
            msgs.append("primal: symbolic %s vs float64 %s" % (ys[:4], yf[:4]))
        dys = floats_of(res["y"], env, 1)
        fd = float_dir_deriv(cfg, env)
        if not close(dys, fd, 2e-4, 1e-6):
            msgs.append("oracle derivative: symbolic %s vs finite difference %s" % (dys[:4], fd[:4]))
        if want_vjp and "got" in res:
            yv, g, got = float_vjp(cfg, env)
            gs = floats_of(res["got"], env, 0)
            if not close(gs, flat_float(got), 1e-6, 1e-8):
                msgs.append("vjp: symbolic %s vs float64 %s" % (gs[:4], flat_float(got)[:4]))
        if want_jvp and "tan" in res:
            yv, v, tan = float_jvp(cfg, env)
            ts = floats_of(res["tan"], env, 0)
            if not close(ts, flat_float(tan), 1e-6, 1e-8):
                msgs.append("jvp: symbolic %s vs float64 %s" % (ts[:4], flat_float(tan)[:4]))
    except (Unsupported, KeyError) as e:
        return None
    except Exception as e:
        # the float64 run raised although the symbolic run did not
        msgs.append("float64 run raised %s" % exc_sig(e))
    if msgs:
        return msgs
    out.validated += 1
    return []


# ----------------------------------------------------------------------------------------------
# C01: reverse mode


def replay_vjp(cfg, env, tol=1e-5):
    """float64 replay of a reverse-mode counterexample.  returns (reproduces, info)"""
    try:
        yv, g, got = float_vjp(cfg, env)
    except Exception as e:
        return False, "float64 run raised %s" % exc_sig(e)
    k = cfg.argnum
    xs = structure(cfg.float_args(env)[k])
    if structure(got)[:2] != xs[:2]:
        return True, "cotangent structure %s != argument structure %s" % (structure(got), xs)
    denv = {n[1:]: v for n, v in env.items() if n.startswith("dx%d" % k)}
    d = _float_arg_like(cfg, k, denv)
    lhs = cdot(got, d)
    fd = float_dir_deriv(cfg, env)
    rhs = cdot(g, unflat_like(fd, g))
    scale = max(1.0, abs(lhs), abs(rhs))
    bad = (math.isnan(lhs) or math.isinf(lhs) or abs(lhs - rhs) > tol * scale * 10)
    return bad, "<vjp(g),d>=%.9g  <g,J d>(finite difference of NumPy's function)=%.9g" % (lhs, rhs)


def check_vjp(cfg, tier="quick"):
    """C01 instance: <vjp(g), d> == <g, f'(x; d)> for all x, g, d on every smooth path; same structure"""
    opts = tier_opts(tier)
    out = Outcome(cfg)
    t0 = time.time()
    paths = explore_cfg(cfg, out, sym_body(cfg, True, False), opts)
    if paths is None:
        out.time = time.time() - t0
        return out
    _decide(cfg, out, paths, opts, mode="vjp")
    out.time = time.time() - t0
    return out


def check_jvp(cfg, tier="quick"):
    opts = tier_opts(tier)
    out = Outcome(cfg)
    t0 = time.time()
    paths = explore_cfg(cfg, out, sym_body(cfg, False, True), opts)
    if paths is None:
        out.time = time.time() - t0
        return out
    _decide(cfg, out, paths, opts, mode="jvp")
    out.time = time.time() - t0
    return out


def _float_raises(cfg, mode):
    """does the same call raise on float64 inputs (real code, no symbolic values)?"""
    rng = _rng(cfg)
    names = []
    p = cfg.make_args()
    names = all_var_names(p)
    env = rand_env(names, rng)
    try:
        if mode == "vjp":
            yv, _, _ = float_vjp(cfg, _with_g(cfg, env, rng))
        else:
            float_jvp(cfg, _with_v(cfg, env, rng))
        return None
    except KeyError:
        raise
    except Exception as e:
        return e


class _Default(dict):
    def __init__(self, base, rng):
        super().__init__(base)
        self.rng = rng

    def __missing__(self, k):
        v = self.rng.choice([-1, 1]) * (self.rng.randrange(3, 128) / 64.0)
        self[k] = v
        return v


def _with_g(cfg, env, rng):
    return _Default(env, rng)


_with_v = _with_g


def _decide(cfg, out, paths, opts, mode):
    k = cfg.argnum
    nrej = 0
    nraise = 0
    nok = 0
    notes = set()
    exc_key = "vjp_exc" if mode == "vjp" else "jvp_exc"
    for p in paths:
        if p.err is not None:
            out.status, out.detail = "error", "harness: body raised %s" % exc_sig(p.err)
            return
        res = p.res
        notes |= p.notes
        out.abstracted = out.abstracted or p.abstracted
        if res["tag"] == "numpy_rejects":
            nrej += 1
            out.detail = exc_sig(res["exc"])
            continue
        # reachability witness
        r, m = witness(p, out, opts)
        if r == "unsat":
            out.paths_dropped += 1
            continue
        if exc_key in res:
            nraise += 1
            out.detail = exc_sig(res[exc_key])
            out.extra["raised"] = type(res[exc_key]).__name__
            continue
        nok += 1
        x = res["x"]
        if mode == "vjp":
            got = res["got"]
            if structure(got)[:2] != structure(x)[:2] or len(leaves(got)) != len(leaves(x)):
                _violation(cfg, out, p, m if r == "sat" else {}, opts, mode,
                           "cotangent structure %s differs from argument structure %s" % (structure(got), structure(x)),
                           structural=True)
                return
            # real pairing with the documented conjugation: <conj(vjp(g)), d>_R == <conj(g), J_R d>_R
            lhs = pair(got, x, 0, 1, conj_a=True)
            rhs = pair(res["g"], res["y"], 0, 1, conj_a=True)
            eqs = [(lhs, rhs)]
        else:
            tan = res["tan"]
            y = res["y"]
            if structure(tan)[:2] != structure(y)[:2] or len(leaves(tan)) != len(leaves(y)):
                _violation(cfg, out, p, m if r == "sat" else {}, opts, mode,
                           "tangent structure %s differs from output structure %s" % (structure(tan), structure(y)),
                           structural=True)
                return
            # the tangent v is the direction d itself: tangent == f'(x; d) entry-wise
            eqs = list(zip(coeffs(tan, 0), coeffs(y, 1)))
        v, model = prove_eqs(p, eqs, dir_vars(x), out, opts)
        if v == "unsat":
            continue
        if v == "unknown":
            out.status = "inconclusive"
            out.detail = "solver returned unknown (z3 and cvc5) on a %s claim" % mode
            out.notes = sorted(notes)
            return
        _violation(cfg, out, p, model or {}, opts, mode, "derivative differs from the oracle")
        if out.status is not None:
            out.notes = sorted(notes)
            return
    out.notes = sorted(notes)
    if nok == 0:
        if nraise:
            e = _float_raises(cfg, mode)
            if e is None:
                out.status = "inconclusive"
                out.detail = "symbolic run raised (%s) but the float64 run does not: harness limitation" % out.detail
            else:
                out.status = "raises"
                out.detail = exc_sig(e)
        elif nrej:
            out.status = "numpy_rejects"
        else:
            out.status, out.detail = "error", "no feasible path was witnessed (vacuous harness)"
        return
    if nraise:
        out.extra["partial_raise"] = nraise
    msgs = validate_path(cfg, out, paths, mode == "vjp", mode == "jvp")
    if msgs:
        out.status, out.detail = "error", "translation validation failed: " + "; ".join(msgs)
        return
    out.status = "holds"


def _neq(a, b):
    d = t_sub(a, b)
    if type(d) is Fr:
        return d != 0
    return d != 0


def _violation(cfg, out, p, model, opts, mode, what, structural=False):
    """a sat verdict: replay on float64 before calling it a violation"""
    rng = _rng(cfg)
    objs = list(p.res["args"]) + [p.res.get("g"), p.res.get("v")]
    names = all_var_names([o for o in objs if o is not None])
    tries = 0
    info = ""
    while True:
        env0 = model_env(model, names, rng)
        env = _Default(env0, rng)
        try:
            rep, info = (replay_vjp if mode == "vjp" else replay_jvp)(cfg, env)
        except Exception as e:
            rep, info = False, "replay raised %s" % exc_sig(e)
        if rep:
            out.status = "violation"
            out.detail = "%s; %s" % (what, info)
            out.cex = {"env": {k_: float(v) for k_, v in env.items() if "!" not in k_}, "mode": mode, "info": info,
                       "decisions": p.decisions}
            return
        tries += 1
        if structural or not p.abstracted or tries >= 3:
            break
        # abstraction may have produced a spurious model: block this input point and ask again
        block = []
        for n, v in term_vars(p.antecedent()).items():
            if "!" in n or n not in model:
                continue
            block.append(v != z3.RealVal(str(model[n])))
        if not block:
            break
        r, model2, _ = solve.check(p.antecedent() + [z3.Or(block)], timeout_ms=opts["timeout_ms"])
        if r != "sat":
            break
        model = model2
    if p.abstracted and not structural:
        out.status = "inconclusive"
        out.detail = "solver model under transcendental abstraction does not reproduce on float64 (%s)" % info
    else:
        out.status = "error"
        out.detail = "counterexample from an exact query does not reproduce on float64: %s; %s" % (what, info)
        out.cex = {"env": {k_: float(v) for k_, v in env.items() if "!" not in k_}, "mode": mode, "info": info}


def replay_jvp(cfg, env, tol=1e-5):
    try:
        yv, v, tan = float_jvp(cfg, env)
    except Exception as e:
        return False, "float64 run raised %s" % exc_sig(e)
    with warnings.catch_warnings():
        warnings.simplefilter("ignore")
        y = cfg.call(onp, *cfg.float_args(env))
    if structure(tan)[:2] != structure(y)[:2]:
        return True, "tangent structure %s != output structure %s" % (structure(tan), structure(y))
    fd = float_dir_deriv(cfg, env)
    tf = flat_float(tan)
    scale = max([1.0] + [abs(a) for a in tf] + [abs(b) for b in fd])
    bad = len(tf) != len(fd) or any(math.isnan(a) or abs(a - b) > tol * 10 * scale for a, b in zip(tf, fd))
    return bad, "jvp=%s finite difference=%s" % ([round(a, 6) for a in tf[:6]], [round(b, 6) for b in fd[:6]])
