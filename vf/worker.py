"""Worker process: python -m vf.worker <module> <tier>.  Reads item indices (one per line) on stdin, writes one
JSON line per finished item on stdout (prefixed 'R ').  The parent enforces the hard wall-time limit."""
import faulthandler
import json
import signal
import sys


def main():
    from . import runner

    modname, tier = sys.argv[1], sys.argv[2]
    faulthandler.register(signal.SIGUSR1, all_threads=True)
    out = sys.stdout
    sys.stdout = sys.stderr  # anything printed by code under test must not corrupt the protocol
    runner._winit(modname, tier)
    out.write("READY %d\n" % len(runner._W["items"]))
    out.flush()
    for line in sys.stdin:
        line = line.strip()
        if not line:
            continue
        if line == "QUIT":
            break
        idx = int(line)
        d = runner._work(idx)
        out.write("R " + json.dumps(d) + "\n")
        out.flush()


if __name__ == "__main__":
    main()
