"""Entry point:  python -m vf.main <property-id> [--tier quick|thorough] [--replay <path>] [--only <regex>]"""
import argparse
import importlib
import os
import sys
import time


def main(argv=None):
    ap = argparse.ArgumentParser()
    ap.add_argument("prop")
    ap.add_argument("--tier", default=os.environ.get("VERIF_TIER") or "quick", choices=["quick", "thorough"])
    ap.add_argument("--replay", default=None)
    ap.add_argument("--only", default=None, help="regex on item keys (debugging aid; evidence is still written)")
    ap.add_argument("--nproc", type=int, default=None)
    a = ap.parse_args(argv)
    pid = a.prop.upper()
    try:
        mod = importlib.import_module("vf.props.%s" % pid.lower())
    except ModuleNotFoundError as e:
        print("no check for property %s (%s)" % (pid, e))
        return 3
    if a.nproc:
        from . import runner

        runner.NPROC = a.nproc
    if a.replay:
        return mod.replay(a.replay)
    return mod.main(a.tier, only=a.only)


if __name__ == "__main__":
    sys.exit(main())
