"""C19 (and C10) order-independence probe on the NumPy rule tables: module-level caches, memo tables or other hidden
state in a rule file make the result of a differentiation depend on which differentiations ran before it.

For every configuration of the real grid the float64 VJP (and JVP) is computed in 8 (thorough: 16) different orders of
its primitive's configurations (grid order, reversed, seeded shuffles; a fresh interpreter per order) and, in the
thorough tier, alone in a forked copy of an interpreter in which nothing has been differentiated yet.  All must agree
bit for bit.  This is replay-style evidence on concrete float64 inputs, not a solver
verdict: the solver-decided part of C19 is the CrossHair conditions on the tracer / core."""
import json
import os
import subprocess
import sys
import warnings


def _configs(families):
    from .. import enga, grid

    enga.init()
    cfgs = grid.real_grid("quick", families=families)
    by = {}
    for c in cfgs:
        by.setdefault(c.prim, []).append(c)
    return by


def _one(cfg):
    import random
    import numpy as onp
    from .. import checks_a
    from ..enga import flat_float

    env = checks_a._Default({}, random.Random(hash_key(cfg.key)))
    out = {}
    for mode, fn in (("vjp", checks_a.float_vjp), ("jvp", checks_a.float_jvp)):
        try:
            with warnings.catch_warnings():
                warnings.simplefilter("ignore")
                r = fn(cfg, env)[2]
            out[mode] = [repr(float(v)) for v in flat_float(r)]
        except Exception as e:
            out[mode] = "raises %s" % type(e).__name__
    return out


def hash_key(k):
    import hashlib

    return int(hashlib.sha256(k.encode()).hexdigest()[:8], 16)


def _solo(cfg):
    """the configuration differentiated in a forked copy of this (so far pristine) interpreter: what a fresh
    interpreter gives, at the price of a fork"""
    r, w = os.pipe()
    pid = os.fork()
    if pid == 0:
        try:
            os.close(r)
            with os.fdopen(w, "w") as f:
                json.dump(_one(cfg), f)
        finally:
            os._exit(0)
    os.close(w)
    with os.fdopen(r) as f:
        data = f.read()
    os.waitpid(pid, 0)
    return json.loads(data) if data else {"vjp": "solo run died", "jvp": "solo run died"}


def child(order, families, only_prim=None, solo_key=None):
    by = _configs(families)
    res = {"seq": {}, "solo": {}}
    todo = []
    for prim in sorted(by):
        if only_prim and prim != only_prim:
            continue
        cs = by[prim]
        if order == "rev":
            cs = cs[::-1]
        elif order.startswith("shuf"):
            import random

            cs = list(cs)
            random.Random(hash_key(prim + order)).shuffle(cs)
        todo.extend(cs)
    if order == "solo":
        for c in todo:  # first: nothing has been differentiated in this interpreter yet
            res["solo"][c.key] = _solo(c)
    for c in todo:
        res["seq"][c.key] = _one(c)
    json.dump(res, sys.stdout)


def _spawn(order, families, only_prim=None, solo_key=None):
    from .. import runner

    env = dict(os.environ)
    env["PYTHONPATH"] = runner.VERIF + os.pathsep + runner.REPO
    args = [sys.executable, "-m", "vf.props.hist_probe", order, ",".join(families), only_prim or "", solo_key or ""]
    p = subprocess.run(args, env=env, capture_output=True, text=True, timeout=1500, cwd=runner.VERIF)
    if p.returncode != 0:
        raise RuntimeError("history probe child failed: %s" % p.stderr[-400:])
    return json.loads(p.stdout)


FAMILIES = ("fft", "linalg", "shape", "reduce", "contract")


def run(tier="quick", only_prim=None):
    """returns a list of result dicts (one per primitive)"""
    from concurrent.futures import ThreadPoolExecutor

    orders = ["fwd", "rev"] + ["shuf%d" % i for i in range(6 if tier == "quick" else 14)]
    if tier == "thorough":
        orders.append("solo")
    with ThreadPoolExecutor(len(orders)) as ex:
        futs = {o: ex.submit(_spawn, o, FAMILIES, only_prim) for o in orders}
        res = {o: f.result() for o, f in futs.items()}
    ref = res["solo"]["solo"] if "solo" in res else res["fwd"]["seq"]
    refname = "when it is the first differentiation of the interpreter" if "solo" in res else "in grid order"
    by_prim = {}
    for k in ref:
        by_prim.setdefault(k.split(" | ")[0], []).append(k)
    out = []
    for prim, keys in sorted(by_prim.items()):
        diff = [(k, o) for o in orders for k in keys if res[o]["seq"].get(k) != ref[k]]
        r = {"key": "HISTORY %s | %d configurations differentiated in %d different orders (fresh interpreter per order)%s" % (prim, len(keys), len(orders) - ("solo" in res), "; and each alone in a pristine interpreter" if "solo" in res else ""),
             "prim": prim, "paths": len(keys) * len(orders), "queries": 0, "validated": len(keys), "verdicts": {}}
        if not diff:
            r["status"], r["detail"] = "holds", ""
        else:
            k, which = diff[0]
            r["status"] = "violation"
            r["detail"] = ("%d result(s) depend on what was differentiated before, e.g. %s: the float64 derivative obtained in order '%s' differs from the one obtained %s"
                           % (len(diff), k, which, refname))
            r["cex"] = {"mode": "history", "prim": prim, "config": k}
            r["validated"] = 0
        out.append(r)
    return out


def fanout_child(variant):
    """one value consumed by six operations whose cotangent contributions do not add associatively in float64 (1e16, 1,
    -1e16, ...): the gradient is a function of the ORDER in which the backward pass visits the consumers.  That order
    must be a function of the program alone - not of object addresses, garbage, live closures or failed traces left by
    earlier calls.  Prints the results of 120 evaluations with different allocation histories between them."""
    import gc
    import random
    import numpy as onp
    import autograd.numpy as np
    from autograd import grad, make_vjp

    warnings.filterwarnings("ignore")
    coef = [1e16, 1.0, -1e16, 3.5, 7e15, -7e15, 0.125]

    def f(x):
        parts = [np.sin(x) * 0.0 + x * c for c in coef]
        tot = parts[0]
        for p_ in parts[1:]:
            tot = tot + p_
        return np.sum(tot)

    def g2(x):
        y = np.exp(x * 0.0) * x
        return np.sum(y * 1e16 + y * 1.0 - y * 1e16 + y * 2.5 + np.cos(y) * 0.0)

    rng = random.Random(int(variant))
    keep = []
    res = []
    for i in range(120):
        r = rng.random()
        if r < 0.3:
            keep.append(make_vjp(lambda z: np.tanh(z) * z)(onp.ones(rng.randint(1, 5)))[0])  # a live pullback
        elif r < 0.5:
            try:
                grad(lambda z: np.linalg.svd(z)[0][0, 0])(onp.eye(2) + 0.1)  # a differentiation that fails in the backward pass
            except Exception:
                pass
        elif r < 0.7:
            keep.append([object() for _ in range(rng.randint(1, 200))])
        elif r < 0.8 and keep:
            del keep[rng.randrange(len(keep))]
            gc.collect()
        x = onp.array([1.0, -2.0, 0.5])
        res.append([repr(float(v)) for v in grad(f)(x)] + [repr(float(v)) for v in grad(g2)(x)])
    json.dump(res, sys.stdout)


def fanout_order_probe():
    from concurrent.futures import ThreadPoolExecutor
    from .. import runner

    def spawn(variant):
        env = dict(os.environ)
        env["PYTHONPATH"] = runner.VERIF + os.pathsep + runner.REPO
        p = subprocess.run([sys.executable, "-m", "vf.props.hist_probe", "fanout", str(variant), "", ""], env=env, capture_output=True, text=True, timeout=600, cwd=runner.VERIF)
        if p.returncode != 0:
            raise RuntimeError("fan-out probe child failed: %s" % p.stderr[-300:])
        return json.loads(p.stdout)

    with ThreadPoolExecutor(4) as ex:
        runs = list(ex.map(spawn, [1, 2, 3, 4]))
    allres = [tuple(r) for run_ in runs for r in run_]
    distinct = sorted(set(allres))
    r = {"key": "HISTORY backward-pass order | one value with 7 consumers whose contributions do not add associatively: 480 evaluations under different allocation histories (live pullbacks, failed traces, garbage), 4 fresh interpreters",
         "prim": "order", "paths": len(allres), "queries": 0, "validated": len(allres), "verdicts": {}}
    if len(distinct) == 1:
        r["status"], r["detail"] = "holds", ""
    else:
        r["status"] = "violation"
        r["detail"] = "the same gradient call returned %d different float64 results depending on the allocation history, e.g. %s vs %s" % (len(distinct), distinct[0][:3], distinct[1][:3])
        r["cex"] = {"mode": "history", "prim": "__fanout__", "config": "fanout"}
        r["validated"] = 0
    return [r]


def returned_value_probe():
    """what an operator RETURNED earlier belongs to the caller: editing it in place (total = vjp(g); total += ...) is an
    ordinary part of a call history and must not change what later applications of the same VJP / JVP / gradient function
    return.  Covers the branches that have no per-call work to do (output independent of the argument, unused container
    leaves, zero tangents) - where a value built once and handed out every time would go unnoticed by single calls.
    (Programs whose result IS the caller's own cotangent, e.g. the identity, are left out: editing that result edits the
    caller's input, which is the caller's doing, not a dependence on history.)"""
    import numpy as onp
    import autograd.numpy as np
    from autograd import grad, make_jvp, make_vjp, value_and_grad, jacobian, elementwise_grad

    warnings.filterwarnings("ignore")

    def leaves(v):
        if isinstance(v, dict):
            return [l for k in sorted(v) for l in leaves(v[k])]
        if isinstance(v, (tuple, list)):
            return [l for e in v for l in leaves(e)]
        return [v]

    def scribble(v):
        for l in leaves(v):
            if isinstance(l, onp.ndarray) and l.flags.writeable and l.size:
                l += 7.5

    def snap(v):
        return [onp.array(l, copy=True) for l in leaves(v)]

    def same(a, b):
        return len(a) == len(b) and all(onp.shape(p) == onp.shape(q) and onp.array_equal(p, q) for p, q in zip(a, b))

    xa = onp.array([0.5, -1.5, 2.0])
    xt = (onp.array([0.5, -1.5]), 2.0, onp.array([[1.0, 2.0]]))
    xd = {"w": onp.array([0.5, -1.5]), "c": onp.array([3.0, 4.0])}
    g1 = onp.array([1.0, 2.0, 3.0])
    progs = [
        ("make_vjp of a constant output, array argument", lambda: make_vjp(lambda x: onp.array([1.0, 2.0, 3.0]))(xa)[0], lambda f: f(g1)),
        ("make_vjp of a constant output, tuple argument", lambda: make_vjp(lambda t: 5.0)(xt)[0], lambda f: f(1.0)),
        ("make_vjp of a constant output, dict argument", lambda: make_vjp(lambda d: onp.ones(2))(xd)[0], lambda f: f(onp.ones(2))),
        ("make_vjp of a piecewise-constant output", lambda: make_vjp(lambda x: np.floor(x) * 2.0)(xa)[0], lambda f: f(g1)),
        ("make_vjp with an unused tuple leaf", lambda: make_vjp(lambda t: np.sum(t[0] ** 2) * t[1])(xt)[0], lambda f: f(1.0)),
        ("make_vjp with an unused dict leaf", lambda: make_vjp(lambda d: np.sum(np.sin(d["w"])))(xd)[0], lambda f: f(1.0)),
        ("make_vjp of a linear map (the cotangent itself could be handed back)", lambda: make_vjp(lambda x: x * 1.0 + 0.0)(xa)[0], lambda f: f(g1)),
        ("make_jvp of a constant output", lambda: make_jvp(lambda x: onp.array([1.0, 2.0]))(xa), lambda f: f(g1)[1]),
        ("grad of a constant, same gradient function called again", lambda: grad(lambda x: 3.0), lambda f: f(xa)),
        ("grad with an unused tuple leaf, same gradient function called again", lambda: grad(lambda t: np.sum(t[0] ** 2)), lambda f: f(xt)),
        ("value_and_grad of a constant", lambda: value_and_grad(lambda d: 2.0), lambda f: f(xd)[1]),
        ("jacobian of a constant output", lambda: jacobian(lambda x: onp.ones(2)), lambda f: f(xa)),
        ("elementwise_grad of a piecewise-constant function", lambda: elementwise_grad(lambda x: np.sign(x)), lambda f: f(xa)),
    ]
    out = []
    for lab, build, call in progs:
        key = "HISTORY returned values | %s: apply, edit the result in place, apply again (x3)" % lab
        r = {"key": key, "prim": "returned", "paths": 4, "queries": 0, "validated": 1, "verdicts": {}}
        try:
            fresh = snap(call(build()))  # what a first application of a brand-new function object returns
            f = build()
            problems = []
            g_before = g1.copy()
            for round_ in range(3):
                res = call(f)
                if not same(snap(res), fresh):
                    problems.append("application %d returned %r, a fresh function object returns %r" % (round_ + 1, [onp.asarray(l).tolist() for l in leaves(res)], [l.tolist() for l in fresh]))
                    break
                scribble(res)
            if not onp.array_equal(g1, g_before):
                problems.append("the caller's cotangent / tangent was modified")
                g1[:] = g_before
            for nm, v0, v in (("array", onp.array([0.5, -1.5, 2.0]), xa), ("tuple leaf", onp.array([0.5, -1.5]), xt[0]), ("dict leaf", onp.array([3.0, 4.0]), xd["c"])):
                if not onp.array_equal(v0, v):
                    problems.append("the caller's %s argument was modified" % nm)
                    v[...] = v0
            r["status"], r["detail"] = ("holds", "") if not problems else ("violation", "; ".join(problems)[:500])
            if problems:
                r["cex"] = {"mode": "history", "prim": "__returned__", "config": lab}
                r["validated"] = 0
        except Exception as e:
            r["status"], r["detail"] = "raises", "%s: %s" % (type(e).__name__, str(e)[:100])
        out.append(r)
    return out


_GLOBAL_CHILD = r"""
import json, sys, types, warnings
warnings.filterwarnings("ignore")
import numpy as onp
import autograd, autograd.numpy as np, autograd.numpy.random, autograd.numpy.linalg, autograd.numpy.fft
import autograd.misc, autograd.misc.flatten, autograd.misc.optimizers, autograd.misc.tracers, autograd.misc.fixed_points, autograd.test_util, autograd.builtins, autograd.extend
from autograd import grad, make_jvp, make_vjp, hessian, jacobian, value_and_grad, elementwise_grad, make_hvp
from autograd.extend import primitive, defvjp, defjvp
from autograd.test_util import check_grads
from autograd.misc.flatten import flatten, flatten_func
from autograd.misc.optimizers import adam, sgd
from autograd.misc import const_graph

# user primitives are registered BEFORE the first snapshot (registration legitimately extends the rule tables)
@primitive
def rev_only(x):
    return x ** 3
defvjp(rev_only, lambda ans, x: lambda g: g * 3.0 * x ** 2)
@primitive
def bad(x):
    return x * 2.0
defvjp(bad, lambda ans, x: lambda g: g * 2.5)
defjvp(bad, lambda g, ans, x: g * 2.5)

def fp(v, depth=0):
    if isinstance(v, onp.ndarray):
        return ("ndarray", v.shape, str(v.dtype), v.tobytes().hex()[:200] if v.dtype != object else len(v))
    if isinstance(v, dict):
        # entry-wise: a later comparison flags changed or removed entries; NEW keys are allowed (registering a primitive - which
        # checkpoint() does on every call - legitimately extends the rule tables and cannot affect existing entries)
        return {"__dict__": {repr(k)[:80]: (id(x) if callable(x) else (fp(x, depth + 1) or repr(x)[:80])) for k, x in v.items()}}
    if isinstance(v, (list, set, frozenset, bytearray)):
        return (type(v).__name__, len(v), [repr(x)[:60] if not callable(x) else id(x) for x in list(v)[:200]])
    return None

def snapshot():
    snap = {}
    for mn, m in sorted(sys.modules.items()):
        if not (mn == "autograd" or mn.startswith("autograd.")) or m is None:
            continue
        for an, a in sorted(vars(m).items()):
            if an.startswith("__"):
                continue
            f = fp(a)
            if f is not None:
                snap["%s.%s" % (mn, an)] = f
            fns = [(an, a)]
            if isinstance(a, type) and getattr(a, "__module__", "") == mn:
                fns = [(an + "." + k, getattr(v, "__func__", v)) for k, v in vars(a).items()]
                for k, v in vars(a).items():
                    if not k.startswith("__"):
                        f2 = fp(v)
                        if f2 is not None:
                            snap["%s.%s.%s" % (mn, an, k)] = f2
            for fn_name, fn in fns:
                # the function itself, what it wraps (__wrapped__) and the functions it closes over (decorators such as
                # unary_to_nary keep the real function in a closure cell), three levels deep
                todo, done = [(fn, 0)], set()
                while todo:
                    fn, dep = todo.pop()
                    if not isinstance(fn, types.FunctionType) or id(fn) in done or dep > 3:
                        continue
                    done.add(id(fn))
                    for i, d in enumerate(fn.__defaults__ or ()):
                        f3 = fp(d)
                        if f3 is not None:
                            snap["%s.%s default #%d of %s" % (mn, fn_name, i, fn.__name__)] = f3
                    for k, d in (fn.__kwdefaults__ or {}).items():
                        f3 = fp(d)
                        if f3 is not None:
                            snap["%s.%s kw default %s of %s" % (mn, fn_name, k, fn.__name__)] = f3
                    todo.append((getattr(fn, "__wrapped__", None), dep + 1))
                    for cell in fn.__closure__ or ():
                        try:
                            cv = cell.cell_contents
                        except ValueError:
                            continue
                        if isinstance(cv, types.FunctionType):
                            todo.append((cv, dep + 1))
                        else:
                            f3 = fp(cv)
                            if f3 is not None and getattr(fn, "__module__", "").startswith("autograd"):
                                snap["%s.%s closure cell of %s (%s)" % (mn, fn_name, fn.__name__, type(cv).__name__)] = f3
    import numpy
    snap["numpy.geterr"] = repr(numpy.geterr())
    snap["warnings.filters"] = len(warnings.filters)
    snap["sys.getrecursionlimit"] = sys.getrecursionlimit()
    return snap

def attempt(th):
    try:
        th()
    except Exception:
        pass

x = onp.array([0.5, -1.5, 2.0])
params = {"w": onp.ones((2, 3)), "b": (onp.zeros(2), 1.5)}
battery = [
    lambda: grad(lambda z: np.sum(np.sin(z) * z[::-1]))(x), lambda: hessian(lambda z: np.sum(np.tanh(z) ** 2))(x), lambda: make_jvp(lambda z: np.sort(z) * z)(x)(x),
    lambda: jacobian(lambda z: np.fft.irfft(np.fft.rfft(np.concatenate([z, z[:1]]))))(x), lambda: grad(lambda z: np.linalg.det(np.outer(z, z) + np.eye(3)))(x),
    lambda: grad(lambda z: np.sum(np.einsum("i,j->ij", z, z)))(x), lambda: grad(lambda z: np.sum(z[[0, 0, 2]] ** 2))(x),
    lambda: grad(lambda p: np.sum(np.dot(p["w"], x)) * p["b"][1])(params), lambda: flatten(params)[1](flatten(params)[0]), lambda: grad(flatten_func(lambda p: np.sum(p["w"]), params)[0])(flatten(params)[0]),
    lambda: adam(lambda p, i: grad(lambda q: np.sum(q["w"] ** 2))(p), params, num_iters=3), lambda: sgd(lambda p, i: p * 2.0, x, num_iters=3),
    lambda: const_graph(lambda z: np.sum(z * z))(x), lambda: grad(const_graph(lambda z: np.sum(np.sin(z))))(x),
    lambda: check_grads(lambda z: np.sum(np.sin(z)))(x), lambda: check_grads(rev_only)(x), lambda: check_grads(rev_only, modes=["rev"])(x), lambda: check_grads(bad)(x), lambda: check_grads(bad, modes=["fwd"], order=1)(x),
    lambda: grad(lambda z: np.linalg.svd(np.outer(z, z))[0][0, 0])(x), lambda: grad(lambda z: z * 2.0)(x), lambda: grad(lambda z: 1.0)("abc"), lambda: make_jvp(lambda z: np.linalg.det(np.outer(z, z)))(x)(x),
    lambda: grad(lambda z: np.sum(np.cumprod(z)))(x), lambda: value_and_grad(lambda z: np.sum(z) * 1j)(x), lambda: elementwise_grad(lambda z: np.where(z > 0, z, 0.0) ** 2)(x),
    lambda: make_hvp(lambda z: np.sum(z ** 3))(x)[0](x), lambda: grad(grad(lambda z: np.sum(z) ** 3))(x), lambda: autograd.checkpoint(lambda z: np.sum(np.sin(z)))(x), lambda: grad(autograd.checkpoint(lambda z: np.sum(np.sin(z))))(x),
    lambda: autograd.misc.fixed_points.fixed_point(lambda a: lambda z: 0.5 * (z + a / z), 2.0, 1.0, lambda p, q: abs(p - q), 1e-10),
]
pristine = snapshot()
for th in battery:  # warm-up: lazily created entries (per-node-type tables, ...) exist after the first use
    attempt(th)
before = snapshot()
for th in battery:
    attempt(th)
for th in battery[::-1]:
    attempt(th)
after = snapshot()
diff = []
def changed(a, b):
    if isinstance(a, dict) and "__dict__" in a and isinstance(b, dict) and "__dict__" in b:
        return any(k not in b["__dict__"] or changed(va, b["__dict__"][k]) for k, va in a["__dict__"].items())
    return a != b
for k in sorted(set(before) | set(after)):
    if k not in before or k not in after or changed(before[k], after[k]):
        diff.append("%s: %s -> %s" % (k, str(before.get(k))[:120], str(after.get(k))[:120]))
# one-shot changes made by the very FIRST use (which the warm-up would hide): default arguments, lists and arrays must
# still be what they were in the pristine interpreter (dict / set tables may have gained lazily created entries)
for k in sorted(pristine):
    v0 = pristine[k]
    lazily_filled = isinstance(v0, dict) or (isinstance(v0, tuple) and v0 and v0[0] in ("set", "frozenset"))
    if (" default " in k or not lazily_filled) and k in after and changed(v0, after[k]) and not any(d.startswith(k + ":") for d in diff):
        diff.append("%s: %s -> %s (changed by the first use)" % (k, str(v0)[:120], str(after[k])[:120]))
print(json.dumps({"diff": diff[:10], "entries": len(before), "calls": 2 * len(battery)}))
"""


_LEGACY_CHILD = r"""
import json, warnings
warnings.filterwarnings("ignore")
import numpy as onp
import autograd
from autograd import grad

def factory(k):
    # primitives built by a factory share module and qualified name of their raw function
    @autograd.primitive
    def prim(x, y):
        return k * x * x * y + y * y * y
    return prim

problems = []
x0, y0 = 1.5, -0.5
def fresh(k, which):
    p = factory(k)
    p.defgrad(lambda ans, x, y: lambda g: g * k * 2.0 * x * y)
    p.defgrad(lambda ans, x, y: lambda g: g * (k * x * x + 3.0 * y * y), argnum=1)
    return float(grad(p, which)(x0, y0))
ref = {(k, w): fresh(k, w) for k in (1.0, 3.0) for w in (0, 1)}
for (k, w), v in ref.items():
    want = k * 2.0 * x0 * y0 if w == 0 else k * x0 * x0 + 3.0 * y0 * y0
    if abs(v - want) > 1e-12:
        problems.append("fresh registration: k=%r argnum %d -> %r, closed form %r" % (k, w, v, want))
# interleaved registration of two same-named primitives (what two modules built from one template do)
a, b = factory(1.0), factory(3.0)
a.defgrad(lambda ans, x, y: lambda g: g * 1.0 * 2.0 * x * y)
b.defgrad(lambda ans, x, y: lambda g: g * 3.0 * 2.0 * x * y)
a.defgrad(lambda ans, x, y: lambda g: g * (1.0 * x * x + 3.0 * y * y), argnum=1)
b.defgrad(lambda ans, x, y: lambda g: g * (3.0 * x * x + 3.0 * y * y), argnum=1)
for nm, p, k in (("a", a, 1.0), ("b", b, 3.0)):
    for w in (0, 1):
        v = float(grad(p, w)(x0, y0))
        if abs(v - ref[(k, w)]) > 1e-12:
            problems.append("after interleaved registrations grad(%s, %d) = %r, alone it is %r" % (nm, w, v, ref[(k, w)]))
# a later same-named primitive with a rule for argument 0 only must not inherit an earlier one's rule for argument 1
c = factory(5.0)
c.defgrad(lambda ans, x, y: lambda g: g * 5.0 * 2.0 * x * y)
try:
    v = grad(c, 1)(x0, y0)
    problems.append("a primitive without a rule for argument 1 returned %r instead of raising (stale rule of an earlier primitive?)" % (v,))
except Exception:
    pass
# same through the defvjp flavour with keyword arguments
d = factory(2.0)
d.defvjp(lambda g, ans, vs, gvs, x, y: g * 2.0 * 2.0 * x * y, argnum=0)
v = float(grad(d, 0)(x0, y0))
if abs(v - 2.0 * 2.0 * x0 * y0) > 1e-12:
    problems.append("defvjp flavour: %r" % v)
print(json.dumps({"problems": problems[:6]}))
"""


def legacy_registration_probe():
    """the deprecated per-argnum registration API (f.defgrad / f.defvjp on primitives made with autograd.primitive): the rules
    of one primitive do not depend on which rules were registered for OTHER primitives before (same-named raw functions
    from a factory, interleaved registrations, a later primitive with fewer rules)"""
    from .. import runner

    env = dict(os.environ)
    env["PYTHONPATH"] = runner.REPO
    p = subprocess.run([sys.executable, "-c", _LEGACY_CHILD], env=env, capture_output=True, text=True, timeout=300)
    key = "HISTORY legacy registration API | gradients of factory-built primitives after interleaved / partial registrations equal those of a fresh registration"
    r = {"key": key, "prim": "legacy", "paths": 12, "queries": 0, "validated": 0, "verdicts": {}}
    if p.returncode != 0:
        r["status"], r["detail"] = "error", "child failed: " + p.stderr[-300:]
        return [r]
    d = json.loads(p.stdout.strip().splitlines()[-1])
    if d["problems"]:
        r["status"], r["detail"] = "violation", "; ".join(d["problems"])[:600]
        r["cex"] = {"mode": "history", "prim": "__legacy__", "config": "legacy"}
    else:
        r["status"], r["detail"], r["validated"] = "holds", "", 12
    return [r]


def global_state_probe():
    """interpreter-wide state owned by the library - module-level lists / dicts / sets / arrays, class attributes, MUTABLE
    DEFAULT ARGUMENTS of every function and method under autograd.*, NumPy's error state, the warnings filters - is the same
    after a battery of 62 differentiations (successful and failing, incl. the bundled checker, optimizers, flatten,
    const_graph, checkpoint, fixed_point) as before it.  Anything that persists there is a channel through which one call
    can influence a later one."""
    from .. import runner

    env = dict(os.environ)
    env["PYTHONPATH"] = runner.REPO
    p = subprocess.run([sys.executable, "-c", _GLOBAL_CHILD], env=env, capture_output=True, text=True, timeout=900)
    key = "HISTORY library-owned global state | module-level containers, class attributes and mutable default arguments under autograd.* before / after a battery of successful and failing differentiations"
    r = {"key": key, "prim": "globals", "paths": 0, "queries": 0, "validated": 0, "verdicts": {}}
    if p.returncode != 0:
        r["status"], r["detail"] = "error", "child failed: " + p.stderr[-300:]
        return [r]
    d = json.loads(p.stdout.strip().splitlines()[-1])
    r["paths"] = d["calls"]
    if d["diff"]:
        r["status"], r["detail"] = "violation", ("%d library-owned objects changed, e.g. " % len(d["diff"])) + " ; ".join(d["diff"][:3])[:600]
        r["cex"] = {"mode": "history", "prim": "__globals__", "config": "globals"}
    else:
        r["status"], r["detail"], r["validated"] = "holds", "%d library-owned mutable objects fingerprinted" % d["entries"], d["entries"]
    return [r]


def replay(prim):
    if prim == "__legacy__":
        rs = legacy_registration_probe()
        bad = [r for r in rs if r["status"] == "violation"]
        for r in bad:
            print(r["detail"])
        return bool(bad)
    if prim == "__globals__":
        rs = global_state_probe()
        bad = [r for r in rs if r["status"] == "violation"]
        for r in bad:
            print(r["detail"])
        return bool(bad)
    if prim == "__returned__":
        rs = returned_value_probe()
        bad = [r for r in rs if r["status"] == "violation"]
        for r in bad:
            print(r["detail"])
        return bool(bad)
    rs = fanout_order_probe() if prim == "__fanout__" else run("quick", prim)
    bad = [r for r in rs if r["status"] == "violation"]
    for r in bad:
        print(r["detail"])
    return bool(bad)


if __name__ == "__main__" and sys.argv[1] == "fanout":
    fanout_child(sys.argv[2])
elif __name__ == "__main__":
    child(sys.argv[1], tuple(sys.argv[2].split(",")), sys.argv[3] or None, sys.argv[4] or None)
