"""Engine A parts of the Engine-B properties: small item sets run through the shared worker pool."""
import os

from .. import checks_a, enga, grid, runner

MOD = "vf.props.progs_a"
WHICH = os.environ.get("VF_PROGS", "C08")


def worker_init(tier):
    enga.init()


def items(tier):
    enga.init()
    which = os.environ.get("VF_PROGS", "C08")
    out = []
    if which == "C08":
        for c in grid.nested_grid(tier):
            out.append(("vjp", c))
            out.append(("jvp", c))
    elif which == "C10":
        for c in grid.container_grid(tier):
            out.append(("reuse", c))
        for c in grid.program_grid(tier) + grid.index_grid(tier) + [c for c in grid.real_grid("quick", families=("binary", "contract")) if c.prim in ("add", "multiply", "op+", "op*", "dot", "matmul", "concatenate", "where")][:120]:
            out.append(("reuse", c))
        # every primitive of the real grid: the closure returned by its VJP maker / its JVP must not carry state
        # from one call to the next (one-shot iterators, popped kwargs, cached buffers)
        seen = {}
        have = {item_key(it) for it in out}
        per = 5 if tier == "quick" else 40
        for c in grid.real_grid("quick"):
            n = seen.get(c.prim, 0)
            if "ndarray" in c.label:
                n = 0  # option values handed over as (read-only) ndarrays the caller keeps: always included
            if n >= per or ("reuse " + c.key) in have:
                continue
            seen[c.prim] = n + 1
            out.append(("reuse", c))
    elif which == "C17":
        for c in grid.program_grid(tier):
            out.append(("checkpoint", c))
        # the extension contract on ARRAYS: None positions whose shape / kind differs from the output's, both modes
        for c in grid.real_grid("quick", families=("extension",)) + grid.extension_pass_configs():
            out.append(("vjp", c))
            out.append(("jvp", c))
            out.append(("struct", c))
    return out


def item_key(it):
    return it[0] + " " + it[1].key


def check(it, tier):
    mode, cfg = it
    if mode == "vjp":
        o = checks_a.check_vjp(cfg, tier)
    elif mode == "jvp":
        o = checks_a.check_jvp(cfg, tier)
    elif mode == "struct":
        o = checks_a.check_structure(cfg, tier)
    elif mode == "reuse":
        o = checks_a.check_reuse(cfg, tier)
    else:
        o = checks_a.check_checkpoint(cfg, tier)
    o.key = item_key(it)
    return o


def run(which, tier):
    os.environ["VF_PROGS"] = which
    return runner.run_items(MOD, tier)
