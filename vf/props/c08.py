"""C08 — nested differentiation is isolated: no perturbation confusion at any depth / mode (Engine B + A)."""
from ..ch.prop import BProp


def conditions(tier):
    H = "vf.ch.h_c08"
    cs = [dict(module=H, func="_nest2", cases=32, what="depth 2: 2x2 modes x closure bit x evaluation point, symbolic values and symbolic initial trace counter"),
          dict(module=H, func="_nest2_reach", expect="counterexample", what="reachability twin")]
    for s, pin in (("a", "inner evaluated at the middle variable"), ("b", "inner evaluated at the outer variable"), ("c", "inner evaluated at a constant")):
        cs.append(dict(module=H, func="_nest3_" + s, cases=128, what="depth 3: 8 mode assignments x 16 closure / evaluation patterns; " + pin, timeout={"quick": 240, "thorough": 900}))
    for n in (2, 3, 4, 5):
        cs.append(dict(module=H, func="_ftba%d" % n, cases=(2 ** n) * (3 ** (n - 1)), what="find_top_boxed_args on %d arguments: symbolic box/non-box pattern and trace ids" % n, timeout={"quick": 120, "thorough": 600}))
    cs.append(dict(module="vf.ch.h_c19", func="_fault", cases=144, what="an inner differentiation fails and is caught INSIDE an enclosing differentiated function, which then continues with further nested differentiations", timeout={"quick": 300, "thorough": 900}))
    cs.append(dict(module="vf.ch.h_c19", func="_absolute_id_planted", expect="counterexample", what="planted defect: tracer made to depend on an absolute trace id"))
    return cs


def extra(tier):
    from .. import enga, runner
    from . import lapack_probe, progs_a

    res = progs_a.run("C08", tier)
    # nested differentiation through the LAPACK-backed rules (float64 probe, outside the symbolic engine): the inner
    # VJP differentiated again, incl. w.r.t. its own cotangent at zero (value-dependent shortcuts on a traced cotangent)
    enga.init()
    res = list(res) + [r for r in lapack_probe.run(runner.SEED)]
    from . import misc_probe

    res += misc_probe.run_nested(runner.SEED)
    # pinned values of an outer traced scalar that meets an inner traced array (x ** p at p == 2 / 0 / 1, x * p at p == 1, ...)
    from . import pinned_probe

    res += pinned_probe.run_nested(runner.SEED)
    return res


BProp("C08", conditions,
      functions=["autograd.tracer:trace", "autograd.tracer:primitive.f_wrapped", "autograd.tracer:find_top_boxed_args", "autograd.tracer:TraceStack.new_trace", "autograd.tracer:new_box",
                 "autograd.core:make_vjp", "autograd.core:make_jvp", "autograd.core:backward_pass", "autograd.core:JVPNode.__init__", "autograd.core:VJPNode.__init__"],
      files=["autograd/tracer.py", "autograd/core.py"],
      bounds={"depth": "2 and 3", "modes": "all 2^depth assignments", "closures": "inner body mentions any subset of the enclosing variables; evaluation point = enclosing variable or constant",
              "initial_trace_counter": "symbolic, >= -1 (unbounded)", "find_top_boxed_args": "argument lists of length 2..5", "outside": "depth > 3"},
      claims=["the nested derivative equals the closed form of the monomial program for all integer values; the trace counter is restored; find_top_boxed_args returns exactly the boxes of maximal trace id, in order, with that box's node type"],
      extra=extra).export(globals())
