"""C09 — complex differentiation follows the documented convention everywhere (Engine A with complex scalars)."""
import os
import time

from .. import checks_a, enga, grid, runner, stubs
from . import gridprop

ID = "C09"
MOD = "vf.props.c09"
FILES = ["docs/tutorial.md", "autograd/numpy/numpy_vspaces.py", "autograd/numpy/numpy_vjps.py", "autograd/numpy/numpy_jvps.py", "autograd/numpy/fft.py", "autograd/numpy/linalg.py", "autograd/differential_operators.py"]


def worker_init(tier):
    enga.init()


def items(tier):
    enga.init()
    out = []
    for c in grid.complex_grid(tier):
        out.append(("vjp", c))
        out.append(("jvp", c))
    # the FFT family of the real grid: real -> complex (rfft*), complex -> real (irfft*) and complex -> complex transforms
    # with every axes / s / n / norm layout (the half-spectrum weights are where the convention bites)
    seen = {it[0] + " " + it[1].key for it in out}
    for c in grid.real_grid(tier, families=("fft",)):
        c.label = "FFTGRID " + c.label
        c.tags.add("complex")
        for mode in ("vjp", "jvp"):
            if mode + " " + c.key not in seen:
                out.append((mode, c))
    # the real grid's shape / reduction / contraction families on COMPLEX arguments: all of them in the thorough tier, in
    # the quick tier every primitive's first two configurations plus every fifth one
    cg = grid.complexified_grid(tier)
    if tier != "thorough" and not os.environ.get("VF_C09_GRID"):
        per = {}
        keep = []
        for i, c in enumerate(cg):
            n = per.get(c.prim, 0)
            per[c.prim] = n + 1
            if n < 2 or i % 5 == 0 or c.prim in ("diagonal", "make_diagonal"):
                keep.append(c)
        cg = keep
    for c in cg:
        out.append(("vjp", c))
        out.append(("jvp", c))
    for case in checks_a.holo_cases():
        out.append(("holo", case))
    only = os.environ.get("VF_ONLY")
    if only:
        import re
        out = [it for it in out if re.search(only, item_key(it))]
    return out


def item_key(it):
    return it[0] + " " + (it[1].key if it[0] != "holo" else "HOLO " + it[1][0])


def check(it, tier):
    mode, x = it
    if mode == "vjp":
        o = checks_a.check_vjp(x, tier)
    elif mode == "jvp":
        o = checks_a.check_jvp(x, tier)
    else:
        o = checks_a.check_holo(x, tier)
    o.key = item_key(it)
    return o


def main(tier, only=None):
    t0 = time.time()
    if only:
        os.environ["VF_ONLY"] = only
    results = runner.run_items(MOD, tier)
    if not only:
        # pinned points of complex-typed inputs (exact zeros, integer exponents, data-dependent output kind of real_if_close):
        # float64 replay evidence against closed forms, the generic-position symbolic claims never visit them
        from . import pinned_probe

        enga.init()
        results += pinned_probe.run_complex(runner.SEED)
    return runner.finish(
        ID, tier, results, t0,
        functions=gridprop.ENGINE_A_FUNCS + ["ComplexArrayVSpace (real inner product, conjugating covector, ones = 1+1j)", "match_complex", "rules for real/imag/conj/abs/absolute/angle", "fft_grad / rfft_grad / irfft_grad / fftshift rules",
                                             "norm_vjp / norm_jvp on complex input", "autograd.differential_operators:holomorphic_grad", "every VJP/JVP rule reached by the complex grid with real/complex argument mixes"],
        files=FILES,
        bounds={"tier": tier, "complex scalars": "pairs (re, im) of symbolic reals; dual parts on both", "grid": "arithmetic ufuncs and operators in all real/complex mixes, real/imag/conj/abs/angle, reductions, shape ops, contractions, linalg.norm/det/inv/solve (closed forms), FFT lengths {1,2,4}, real->real through complex intermediates",
                "outside": "complex transcendental ufuncs other than exp (sqrt/log/sin/... of complex arguments are not modelled), eig/eigh/svd, FFT lengths not in {1,2,4}"},
        assumptions=gridprop.ENGINE_A_ASSUME + ["oracle: the real Jacobian J_R from NumPy's primal on entries whose re and im parts are dual numbers; reverse claim <conj(vjp(g)),d>_R == <conj(g), J_R d>_R for all x, g, d (i.e. vjp(g) = conj(J_R^T conj g)); forward claim jvp(v) == J_R v",
                                                "holomorphic_grad(f)(z) == f'(z) for polynomial / rational / exp holomorphic f (closed-form derivative)"],
        stubs=dict(stubs.STUBS))


def replay(path):
    import json

    data = json.load(open(path))
    key = data.get("key", "")
    mode, _, ck = key.partition(" ")
    if mode == "holo":
        for case in checks_a.holo_cases():
            if "HOLO " + case[0] == ck:
                o = checks_a.check_holo(case, "quick")
                print(o.status, o.detail)
                if o.status == "violation":
                    print("VIOLATION property=%s replay=%s" % (ID, path))
                    return 1
                return 0
        return 3
    data["key"] = ck
    tmp = path + ".tmp"
    json.dump(data, open(tmp, "w"))
    try:
        return checks_a.replay_file(ID, tmp, [c for m, c in items("thorough") if m == mode])
    finally:
        os.unlink(tmp)
