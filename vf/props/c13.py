"""C13 — vector-space operations obey the axioms for every differentiable value type (Engine A)."""
import time

from .. import checks_a, enga, runner, stubs
from . import gridprop

ID = "C13"
MOD = "vf.props.c13"
FILES = ["autograd/core.py", "autograd/numpy/numpy_vspaces.py", "autograd/builtins.py"]


def worker_init(tier):
    enga.init()


def items(tier):
    enga.init()
    return checks_a.vspace_cases(tier)


def item_key(it):
    return "VS " + it[0]


def check(it, tier):
    o = checks_a.check_vspace(it, tier)
    o.key = item_key(it)
    return o


def main(tier, only=None):
    t0 = time.time()
    results = runner.run_items(MOD, tier)
    enga.init()
    n, fails = checks_a.vspace_pairs_check()
    results.append({"key": "VS concrete: vspace equality on %d value pairs and freshness of mut_add(None, x)" % n, "status": "violation" if fails else "holds", "detail": "; ".join(fails[:5]),
                    "paths": n, "queries": 0, "validated": n, "verdicts": {}, "cex": {"env": {}, "mode": "vspace-concrete"}})
    n2, fails2 = checks_a.vspace_namedtuple_check()
    results.append({"key": "VS concrete: numpy.linalg result named tuples (EigResult, EighResult, QRResult, SlogdetResult, SVDResult): closure of every operation in the value's own container type and space, leaf-wise axioms (%d checks)" % n2,
                    "status": "violation" if fails2 else "holds", "detail": "; ".join(fails2[:5]), "paths": n2, "queries": 0, "validated": n2, "verdicts": {}, "cex": {"env": {}, "mode": "vspace-concrete"}})
    return runner.finish(
        ID, tier, results, t0,
        functions=["autograd.core:VSpace.add / mut_add / scalar_mul / inner_prod / covector (primitives) and _add/_mut_add/_scalar_mul/_covector", "autograd.core:vspace", "autograd.numpy.numpy_vspaces:ArrayVSpace, ComplexArrayVSpace (zeros, ones, standard_basis, size, _inner_prod, _covector)",
                   "autograd.builtins:ContainerVSpace, SequenceVSpace, ListVSpace, TupleVSpace, DictVSpace (_map, _subval, _kv_pairs, size, standard_basis)"],
        files=FILES,
        bounds={"tier": tier, "value types": "real / complex Python-scalar-like, 0-d, rank 1..3 arrays, size-0 arrays, tuples / lists / dicts nested to depth 3 incl. empty containers",
                "outside": "the dtype quantifier over float16/32/longdouble/complex64 for the AXIOMS (object arrays hide dtypes; only vspace equality and mut_add freshness are exercised per dtype, concretely), floating-point non-associativity"},
        assumptions=gridprop.ENGINE_A_ASSUME[:2] + ["each axiom is one solver query with symbolic vectors x, y, z and scalars a, b (exact reals): identity, commutativity, associativity, add == mut_add on a copy, distributivity (3 forms), 1*x, "
                                                    "inner product symmetric / real-bilinear / positive definite (x != 0 => <x,x> > 0), covector involution, basis complete / orthonormal / exactly `size` members",
                                                    "vspace(a) == vspace(b) iff same structure/shape/dtype and 'mut_add(None, x) shares no memory with x' are checked concretely on float arrays of 5 dtypes and containers (memory / dtype are not visible symbolically)"],
        stubs=dict(stubs.STUBS))


def replay(path):
    return main("quick")
