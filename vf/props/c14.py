"""C14 — independent or piecewise-constant dependence yields an exact zero derivative (Engine A)."""
import time

from .. import checks_a, enga, grid, runner, stubs
from . import gridprop

ID = "C14"
MOD = "vf.props.c14"
FILES = ["autograd/core.py", "autograd/tracer.py", "autograd/numpy/numpy_vjps.py", "autograd/numpy/numpy_jvps.py", "autograd/builtins.py", "autograd/numpy/numpy_wrapper.py"]


def worker_init(tier):
    enga.init()


def items(tier):
    enga.init()
    from autograd.numpy.numpy_vjps import nograd_functions

    T = checks_a.nograd_templates()
    out = []
    names = [getattr(f, "__name__", str(f)) for f in nograd_functions]
    for n in names:
        for lab, call in T.get(n, []):
            nargs = call.__code__.co_argcount - 1 - len(call.__defaults__ or ())
            out.append(("nograd", (n, lab, call, nargs)))
        if n not in T:
            out.append(("nograd-untemplated", n))
    for c in checks_a.zero_cases(tier):
        out.append(("zero", c))
    for c in grid.program_grid(tier):
        if any(k_ in c.label for k_ in ("floor", "argmax", "abs and sign", "relu", "value-dependent")):
            out.append(("vjp", c))
            out.append(("jvp", c))
    # arguments registered as non-differentiable (rule None) get an exact zero OF THE ARGUMENT'S SPACE
    for c in grid.real_grid("quick", families=("shape",)):
        if c.prim == "where" and "condition" in c.label:
            out.append(("vjp", c))
            out.append(("structure", c))
    for c in grid.nested_grid(tier):
        if "independent of ITS" in c.label or "piecewise constant in ITS" in c.label or "outer-only" in c.label:
            out.append(("vjp", c))
            out.append(("jvp", c))
    return out


def item_key(it):
    if it[0] == "nograd":
        return "NOGRAD " + it[1][1]
    if it[0] == "nograd-untemplated":
        return "NOGRAD (no template) " + it[1]
    if it[0] == "zero":
        return "ZERO " + it[1][0]
    return it[0] + " " + it[1].key


def check(it, tier):
    if it[0] == "nograd":
        o = checks_a.check_nograd(it[1], tier)
    elif it[0] == "nograd-untemplated":
        o = enga.Outcome(enga.Config("nograd", it[1], None, []))
        o.status, o.detail = "inconclusive", "no argument template for this member of nograd_functions"
    elif it[0] == "zero":
        o = checks_a.check_zero(it[1], tier)
    elif it[0] == "structure":
        o = checks_a.check_structure(it[1], tier)
    elif it[0] == "vjp":
        o = checks_a.check_vjp(it[1], tier)
    else:
        o = checks_a.check_jvp(it[1], tier)
    o.key = item_key(it)
    return o


def main(tier, only=None):
    t0 = time.time()
    results = runner.run_items(MOD, tier)
    if not only:
        # entries masked out by np.where contribute an EXACT zero even when the downstream derivative at the constant is
        # infinite / NaN (float64 probe at pinned points, reverse mode; see vf/props/pinned_probe.py)
        from . import pinned_probe

        enga.init()
        results += [r for r in pinned_probe.run(runner.SEED) if "safe " in r["key"] or "masked" in r["key"] or "piecewise-constant factors" in r["key"] or "astype" in r["key"]]
    return runner.finish(
        ID, tier, results, t0,
        functions=["autograd.core:make_vjp / make_jvp end_node-is-None zero path", "autograd.tracer:trace 'Output seems independent of input' path", "autograd.tracer:primitive notrace branch", "autograd.tracer:notrace_primitive",
                   "autograd.numpy.numpy_vjps:nograd_functions (list read at run time) + register_notrace for VJPNode and JVPNode", "autograd.tracer:Box.__bool__", "grad / value_and_grad / elementwise_grad / jacobian / hessian / deriv on independent outputs"],
        files=FILES,
        bounds={"tier": tier, "nograd functions": "every member of nograd_functions with an argument template (untemplated members are listed as inconclusive)", "programs": "13 independent / piecewise-constant programs over array, scalar, tuple and dict arguments; 8 operators",
                "outside": "larger programs"},
        assumptions=gridprop.ENGINE_A_ASSUME + ["(i) for each nograd function, on every generic-position path: NumPy's own result has all direction coefficients exactly 0 (locally constant => marking it non-differentiable is right), the value under both modes is unboxed and solver-equal to NumPy's, the derivative is an exact zero",
                                                "(ii) every operator returns an exact structural zero of the right space - never None, never an error, never a Box; (iii) compositions such as x*floor(x), x[argmax(x)]*x differentiate to the oracle value"],
        stubs=dict(stubs.STUBS))


def replay(path):
    return main("quick")
