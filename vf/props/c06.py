"""C06 — differentiation is value-transparent: primal results identical to plain NumPy (Engine A)."""
from .. import checks_a, grid
from .gridprop import GridProp


def _items(tier):
    its = grid.real_grid(tier) + grid.program_grid(tier) + grid.container_grid(tier) + grid.nested_grid(tier)
    idx = grid.index_grid(tier)
    its += idx if tier == "thorough" else idx[::4]
    if tier == "quick":
        # one argnum per call form is enough for the VALUE (argnum only changes which input is boxed): keep all anyway for the
        # list-taking wrappers, thin the rest
        keep = []
        seen = set()
        for c in its:
            key = (c.prim, c.label, repr(c.args))
            if key in seen and c.prim not in ("concatenate", "stack", "vstack", "hstack", "column_stack", "append", "array", "select", "r_", "c_", "where"):
                continue
            seen.add(key)
            keep.append(c)
        its = keep
    return its


GridProp(
    "C06", "vf.props.c06", _items, checks_a.check_transparent,
    files=["autograd/tracer.py", "autograd/numpy/numpy_wrapper.py", "autograd/numpy/numpy_boxes.py", "autograd/core.py", "autograd/differential_operators.py", "autograd/builtins.py"],
    functions=["autograd.tracer:primitive.f_wrapped (unbox / call raw / re-box)", "autograd.tracer:trace (returns end_box._value)", "autograd.numpy.numpy_wrapper:wrap_namespace and the re-implemented list-taking functions (concatenate, vstack, hstack, column_stack, array, select, stack, append, r_, c_, make_diagonal)",
               "autograd.numpy.numpy_boxes:ArrayBox operators / methods / properties", "autograd.builtins:isinstance / type replacements, tuple/list/dict metaclasses", "value_and_grad / grad_and_aux primal and aux outputs"],
    bounds={"ranks": "0..3", "depth of nested differentiation": "2 (jvp inside vjp, vjp inside jvp)", "outside": "dtype equality is only compared in the float64 replay (object arrays hide dtypes); callables NumPy cannot run on object arrays"},
    claims=["for every configuration and path: the value returned by the plain autograd.numpy call, under make_vjp, under make_jvp, under both nestings of depth 2, by value_and_grad and as grad_and_aux's aux output "
            "has NumPy's container structure and shapes, contains no Box, and is solver-equal entry-wise to what NumPy's own function returns on the same symbolic arrays; inputs keep their entries; autograd.builtins.isinstance/type answer as the builtins do"],
    selftest=False,
).export(globals())

_grid_main, _grid_replay = main, replay


def main(tier, only=None):
    """the grid check, plus float64 probes of autograd.misc.optimizers / fixed_points ("user-supplied inputs are left
    unmodified": read-only start points, iterates kept by a callback)"""
    import os

    os.environ["VF_EXTRA_RESULTS"] = "vf.props.misc_probe"
    return _grid_main(tier, only=only)


def replay(path):
    import json

    with open(path) as f:
        data = json.load(f)
    cex = data.get("cex") or {}
    if cex.get("mode") == "misc":
        from .. import enga
        from . import misc_probe

        enga.init()
        bad = [r for r in misc_probe.run() if r["key"] == cex["key"] and r["status"] == "violation"]
        for r in bad:
            print("replay %s: %s" % (r["key"], r["detail"]))
        if bad:
            print("VIOLATION property=C06 replay=%s" % path)
            return 1
        print("does not reproduce on the current tree")
        return 0
    return _grid_replay(path)
