"""C02 — forward-mode derivatives are exact for every way a primitive can be called (Engine A)."""
from .. import checks_a, grid
from .gridprop import GridProp

GridProp(
    "C02", "vf.props.c02", lambda tier: grid.real_grid(tier), checks_a.check_jvp,
    files=["autograd/numpy/numpy_jvps.py", "autograd/numpy/linalg.py", "autograd/core.py", "autograd/builtins.py", "autograd/tracer.py",
           "autograd/numpy/numpy_boxes.py", "autograd/numpy/numpy_wrapper.py"],
    functions=["autograd.core:make_jvp", "autograd.core:JVPNode.__init__", "autograd.core:defjvp.jvp_argnums", "autograd.core:defjvp_argnum.jvp_argnums",
               "autograd.core:def_linear", "autograd.core:translate_jvp ('same', None)", "autograd.core:sum_outgrads",
               "every JVP rule in autograd.core.primitive_jvps that a grid configuration reaches",
               "autograd.numpy.numpy_jvps: broadcast, fwd_grad_chooser, forward_grad_np_var/std, fwd_grad_sort/partition, fwd_grad_concatenate_args, atleast_jvpmaker",
               "autograd.numpy.linalg:norm_jvp"],
    bounds={"ranks": "0..3", "dims": "{1,2,3,4}", "outside": "primitives without JVP rule raise (allowed); LAPACK-backed primitives, FFT (no JVP rules), sizes beyond the grid"},
    claims=["claim per smooth path: forall x,v: jvp(v) == f'(x; v) entry-wise (oracle: NumPy's primal on x + eps*v) and jvp(v) has the output's shape"],
).export(globals())


_grid_main_pp, _grid_replay_pp = main, replay


def main(tier, only=None):
    """the grid check, plus the float64 probe of isolated REGULAR points that generic-position reasoning never visits
    (exact zeros, exponent 0): vf/props/pinned_probe.py"""
    import os

    if not os.environ.get("VF_EXTRA_RESULTS"):
        os.environ["VF_EXTRA_RESULTS"] = "vf.props.pinned_jvp"
    return _grid_main_pp(tier, only=only)


def replay(path):
    import json

    with open(path) as f:
        data = json.load(f)
    cex = data.get("cex") or {}
    if cex.get("mode") == "pinned":
        from .. import enga
        from . import pinned_probe

        enga.init()
        bad = [r for r in pinned_probe.run() if r["key"] == cex["key"] and r["status"] == "violation"]
        for r in bad:
            print("replay %s: %s" % (r["key"], r["detail"]))
        if bad:
            print("VIOLATION property=C02 replay=%s" % path)
            return 1
        print("does not reproduce on the current tree")
        return 0
    return _grid_replay_pp(path)
