"""C15 — unsupported requests fail loudly; no exported function silently drops dependence (Engine A sweep + B)."""
import os
import time
import warnings

from .. import checks_a, enga, grid, runner, stubs
from ..ch import run as chrun
from ..enga import Config, R, SC
from . import gridprop

ID = "C15"
MOD = "vf.props.c15"
FILES = ["autograd/core.py", "autograd/tracer.py", "autograd/differential_operators.py", "autograd/numpy/numpy_vjps.py", "autograd/numpy/numpy_jvps.py", "autograd/numpy/fft.py", "autograd/numpy/linalg.py",
         "autograd/numpy/numpy_boxes.py", "autograd/numpy/numpy_wrapper.py"]
BLACKLIST = {"test", "info", "lookfor", "source", "who", "show_config", "show_runtime", "save", "savez", "savez_compressed", "savetxt", "load", "loadtxt", "fromfile", "genfromtxt", "memmap",
             "set_printoptions", "seterr", "seterrcall", "setbufsize", "set_string_function", "seed", "set_state", "get_state", "printoptions", "errstate", "fromregex", "frombuffer", "fromstring",
             "DataSource", "nditer", "nested_iters", "ndindex", "ndenumerate", "vectorize", "frompyfunc", "from_dlpack", "busday_count", "busday_offset", "is_busday", "datetime_as_string",
             "einsum_path", "put", "place", "putmask", "copyto", "put_along_axis", "fill_diagonal", "shuffle", "getbufsize", "geterr", "geterrcall", "get_printoptions", "get_include", "isdtype",
             "can_cast", "promote_types", "min_scalar_type", "common_type", "mintypecode", "typename", "issubdtype", "iterable", "may_share_memory", "shares_memory", "array_repr", "array_str",
             "array2string", "format_float_positional", "format_float_scientific", "base_repr", "binary_repr", "asmatrix", "bmat", "matrix", "require", "asfortranarray", "broadcast", "concatenate_args",
             "array_from_args", "_array_from_scalar_or_array", "metadata", "parse_einsum_input", "wrap_namespace", "wrap_intdtype", "wrap_if_boxes_inside", "primitive", "notrace_primitive", "_astype"}


def worker_init(tier):
    enga.init()


_CACHE = {}


def _templates():
    x22, y22, v3, w3 = R(2, 2), R(2, 2), R(3), R(3)
    return [
        ("f(x)", lambda f: (lambda np, x: f(np)(x)), [x22], [0]),
        ("f(x[3])", lambda f: (lambda np, x: f(np)(x)), [v3], [0]),
        ("f(x, y)", lambda f: (lambda np, x, y: f(np)(x, y)), [x22, y22], [0, 1]),
        ("f(x[3], y[3])", lambda f: (lambda np, x, y: f(np)(x, y)), [v3, w3], [0, 1]),
        ("f(x, 1)", lambda f: (lambda np, x: f(np)(x, 1)), [x22], [0]),
        ("f(x, 2)", lambda f: (lambda np, x: f(np)(x, 2)), [x22], [0]),
        ("f(x, 0.5)", lambda f: (lambda np, x: f(np)(x, 0.5)), [x22], [0]),
        ("f(x, (2, 2))", lambda f: (lambda np, x: f(np)(x, (2, 2))), [x22], [0]),
        ("f(x, y, z)", lambda f: (lambda np, x, y, z: f(np)(x, y, z)), [x22, y22, R(2, 2)], [0, 1, 2]),
        ("f(scalar)", lambda f: (lambda np, x: f(np)(x)), [SC], [0]),
    ]


def _accepts(call, args):
    import numpy as onp
    import random

    rng = random.Random(3)
    cfg = Config("probe", "probe", call, args, 0)
    env = checks_a._Default({}, rng)
    try:
        with warnings.catch_warnings():
            warnings.simplefilter("ignore")
            r = call(onp, *cfg.float_args(env))
        return r is not None
    except Exception:
        return False


def items(tier):
    key = ("items", tier)
    if key in _CACHE:
        return _CACHE[key]
    enga.init()
    import signal
    import autograd.numpy as anp
    import autograd.numpy.linalg
    import autograd.numpy.fft
    import autograd.numpy.random
    import numpy as onp
    from autograd.numpy.numpy_boxes import ArrayBox

    out = []
    untemplated = []
    max_t = 2 if tier == "quick" else 4
    # numpy.random samplers crash the interpreter on object arrays: the random namespace is probed concretely (random_cases)
    spaces = [("np", lambda np: np, anp), ("linalg", lambda np: np.linalg, anp.linalg), ("fft", lambda np: np.fft, anp.fft)]
    for sname, getns, mod in spaces:
        for n, obj in sorted(vars(mod).items()):
            if n.startswith("__") or n in BLACKLIST or not callable(obj) or isinstance(obj, type):
                continue
            if not hasattr(getns(onp), n):
                continue  # autograd-only helper without NumPy counterpart
            f = lambda np, _g=getns, _n=n: getattr(_g(np), _n)
            got = 0
            for tlab, mk, args, argnums in _templates():
                call = mk(f)
                always = tlab == "f(x, y, z)"  # three arrays (the third is often an out= buffer): tried for every callable, outside the budget
                if got >= max_t and not always:
                    continue
                if not _accepts(call, args):
                    continue
                got += 0 if always else 1
                for k in argnums:
                    for mode in ("vjp", "jvp"):
                        out.append((mode, Config("%s.%s" % (sname, n), "SWEEP %s.%s %s" % (sname, n, tlab.replace("f(", n + "(")), call, args, k, tags=("sweep",))))
            if got == 0:
                untemplated.append("%s.%s" % (sname, n))
    # ArrayBox attributes and operators
    meths = sorted(a for a in dir(ArrayBox) if not a.startswith("_") and callable(getattr(ArrayBox, a, None)) and a not in ("register",))
    for m in meths:
        for tlab, call, args in [("x.%s()" % m, lambda np, x, _m=m: getattr(x, _m)(), [R(2, 2)]), ("x.%s(1)" % m, lambda np, x, _m=m: getattr(x, _m)(1), [R(2, 2)]),
                                 ("x.%s(0, 1)" % m, lambda np, x, _m=m: getattr(x, _m)(0, 1), [R(2, 2)]), ("x.%s(y)" % m, lambda np, x, y, _m=m: getattr(x, _m)(y), [R(2, 2), R(2, 2)])]:
            if _accepts(call, args):
                for k in (0,):  # the receiver is the differentiated array (x.method(box) with a plain ndarray x is NumPy's method, not autograd's)
                    for mode in ("vjp", "jvp"):
                        out.append((mode, Config("ArrayBox.%s" % m, "SWEEP %s" % tlab, call, args, k, tags=("sweep",))))
    for a in ("T", "shape", "ndim", "size", "dtype", "real", "imag", "flat"):
        call = lambda np, x, _a=a: getattr(x, _a)
        for mode in ("vjp", "jvp"):
            out.append((mode, Config("ArrayBox." + a, "SWEEP x.%s attribute" % a, call, [R(2, 2)], 0, tags=("sweep",))))
    import operator as op
    for oname, fn in [("neg", op.neg), ("pos", op.pos), ("abs", abs), ("invert", op.invert), ("len", len), ("iter-sum", lambda x: sum(e for e in x)), ("bool(any)", lambda x: 1.0 if x[0, 0] else 2.0),
                      ("float()", lambda x: float(x[0, 0])), ("int()", lambda x: int(x[0, 0])), ("complex()", lambda x: complex(x[0, 0])), ("round()", lambda x: round(x[0, 0])),
                      ("divmod", lambda x: divmod(x, 2.0)[1]), ("floordiv", lambda x: x // 2.0), ("rfloordiv", lambda x: 2.0 // x), ("lshift", lambda x: x << 1), ("and", lambda x: x & x), ("matmul", lambda x: x @ x),
                      ("iadd (x += 1 on a copy of the name)", lambda x: _iadd(x)), ("getitem-then-setitem", lambda x: _setitem(x))]:
        call = lambda np, x, _f=fn: _f(x)
        if _accepts(call, [R(2, 2)]):
            for mode in ("vjp", "jvp"):
                out.append((mode, Config("ArrayBox.op." + oname, "SWEEP operator %s" % oname, call, [R(2, 2)], 0, tags=("sweep",))))
    # explicit guards driven with the options that should trip them (and their neighbours that should not): outcome must be
    # 'raises' or a correct derivative
    guard_prims = {"rfft", "irfft", "rfft2", "irfft2", "rfftn", "irfftn", "fft2", "fftn", "ifft2", "ifftn", "rollaxis", "sort", "partition", "diagonal", "norm", "pad", "gradient", "einsum", "linspace", "rot90", "trace", "repeat", "roll", "clip", "where"}
    for c in grid.real_grid(tier, families=("fft", "shape", "linalg", "contract")):
        if c.prim in guard_prims:
            g = Config(c.prim, "GUARD " + c.label, c.call, c.args, c.argnum, tags=("guard",))
            out.append(("vjp", g))
    _CACHE[("untemplated", tier)] = untemplated
    _CACHE[key] = out
    return out


def _iadd(x):
    x += 1.0
    return x * 2.0


def _setitem(x):
    y = x * 1.0
    y[0, 0] = 5.0  # in-place assignment into a differentiated array
    return y


def item_key(it):
    return it[0] + " " + it[1].key


def check(it, tier):
    mode, cfg = it
    o = checks_a.check_vjp(cfg, tier) if mode == "vjp" else checks_a.check_jvp(cfg, tier)
    o.key = item_key(it)
    return o


def loud_cases():
    """requests autograd cannot serve must raise at the point of use (real float64 API, no symbolic values)"""
    import autograd
    import autograd.numpy as np
    import numpy as onp

    x = onp.array([1.0, 2.0, 3.0])
    cases = [
        ("grad of a non-scalar output", lambda: autograd.grad(lambda v: v * 2.0)(x)),
        ("grad of a complex output", lambda: autograd.grad(lambda v: np.sum(v * 1j))(x)),
        ("value_and_grad of a non-scalar output", lambda: autograd.value_and_grad(lambda v: v * 2.0)(x)),
        ("elementwise_grad of a complex output", lambda: autograd.elementwise_grad(lambda v: v * 1j)(x)),
        ("in-place assignment into a differentiated array", lambda: autograd.grad(lambda v: np.sum(_setitem(v)))(x)),
        ("non-differentiable input type str", lambda: autograd.grad(lambda v: 1.0)("abc")),
        ("non-differentiable input type None", lambda: autograd.grad(lambda v: 1.0)(None)),
        ("non-differentiable input type int", lambda: autograd.grad(lambda v: v * 1.0)(3)),
        ("primitive without any rule", lambda: autograd.grad(lambda v: np.sum(np.cumprod(v)))(x)),
        ("primitive without forward rule", lambda: autograd.make_jvp(lambda v: np.linalg.det(np.outer(v, v) + np.eye(3)))(x)(x)),
        ("rollaxis negative axis", lambda: autograd.grad(lambda v: np.sum(np.rollaxis(v.reshape(3, 1), -1)))(x)),
        ("sort of 2-D input (reverse)", lambda: autograd.grad(lambda v: np.sum(np.sort(np.outer(v, v))))(x)),
        ("make_diagonal unsupported options", lambda: autograd.grad(lambda v: np.sum(np.diagonal(np.outer(v, v), 1)))(x)),
        ("norm with unsupported ord", lambda: autograd.grad(lambda v: np.linalg.norm(v, 1))(x)),
        ("einsum sublist form without output", lambda: autograd.grad(lambda v: np.sum(np.einsum(v, [0], v, [0])))(x)),
        ("pad with non-constant mode", lambda: autograd.grad(lambda v: np.sum(np.pad(v, 1, "edge")))(x)),
        ("gradient with spacing argument", lambda: autograd.grad(lambda v: np.sum(np.gradient(np.concatenate([v, v]), 2.0)))(x)),
        ("rfftn with repeated axes", lambda: autograd.grad(lambda v: np.sum(np.real(np.fft.rfftn(np.outer(v, v)[:2, :2], axes=(0, 0)))))(x)),
        ("rfft of odd length", lambda: autograd.grad(lambda v: np.sum(np.real(np.fft.rfft(v))))(x)),
        ("svd with full_matrices", lambda: autograd.grad(lambda v: np.sum(np.linalg.svd(np.outer(v, v[:2]) + 1.0, full_matrices=True)[0]))(x)),
    ]
    # every scalar-output operator x every kind of output it cannot serve (complex in three layouts, containers, non-numbers)
    bad_outputs = [
        ("a complex scalar", lambda v: np.sum(v) * (1 + 0.2j)),
        ("a one-element complex array", lambda v: np.sum(v, keepdims=True) * (1 + 0.2j)),
        ("a 0-d complex array", lambda v: np.array(np.sum(v) * (1 + 0.2j))),
        ("a tuple of scalars", lambda v: (np.sum(v), np.sum(v * v))),
        ("None", lambda v: None),
        ("a string", lambda v: "abc"),
        ("a bool", lambda v: np.sum(v) > 0),
    ]
    scalar_ops = [
        ("grad", lambda f: autograd.grad(f)(x)),
        ("value_and_grad", lambda f: autograd.value_and_grad(f)(x)),
        ("grad_named", lambda f: autograd.grad_named(lambda v: f(v), "v")(x)),
        ("grad with argnum given as a tuple", lambda f: autograd.grad(lambda v, w: f(v), (0, 1))(x, x)),
        ("value_and_grad with argnum given as a list", lambda f: autograd.value_and_grad(lambda v, w: f(v), [0, 1])(x, x)),
        ("make_hvp", lambda f: autograd.make_hvp(f)(x)[0](x)),
        ("hessian_vector_product", lambda f: autograd.hessian_vector_product(f)(x, x)),
        ("hessian_tensor_product", lambda f: autograd.hessian_tensor_product(f)(x, x)),
    ]
    for oname, of in bad_outputs:
        for pname, op in scalar_ops:
            cases.append(("%s of a function returning %s" % (pname, oname), (lambda op=op, of=of: op(of))))
    # input types autograd has no vector space / box for: SUBCLASSES of supported types with their own arithmetic or
    # structure (np.matrix: * is a matrix product; MaskedArray: reductions skip masked entries; named tuples; list / dict /
    # tuple subclasses), NumPy integer / bool scalars, and unrelated Python types.  Every operator must refuse them.
    import collections
    import decimal
    import fractions

    class _Arr(onp.ndarray):
        pass

    class _F(float):
        pass

    class _C(complex):
        pass

    class _I(int):
        pass

    class _L(list):
        pass

    class _D(dict):
        pass

    class _T(tuple):
        pass

    _NT = collections.namedtuple("_NT", "a b")
    bad_inputs = [("numpy.matrix", onp.matrix([[1.0, 2.0], [3.0, 4.0]])), ("numpy.ma.MaskedArray", onp.ma.MaskedArray([1.0, 2.0, 3.0], mask=[0, 1, 0])),
                  ("an ndarray subclass", onp.arange(3.0).view(_Arr)), ("a float subclass", _F(2.0)), ("a complex subclass", _C(2 + 1j)), ("an int subclass", _I(2)),
                  ("a user-defined named tuple", _NT(onp.ones(2), 2.0)), ("a list subclass", _L([1.0, 2.0])), ("a dict subclass", _D(a=1.0)), ("a tuple subclass", _T((1.0, 2.0))),
                  ("numpy.int64", onp.int64(2)), ("numpy.bool_", onp.bool_(True)), ("a record array", onp.rec.array([(1.0, 2.0)], dtype=[("a", "f8"), ("b", "f8")])),
                  ("range", range(3)), ("set", {1.0}), ("bytes", b"ab"), ("decimal.Decimal", decimal.Decimal(2)), ("fractions.Fraction", fractions.Fraction(1, 2))]
    arrlike = lambda v: isinstance(v, onp.ndarray)
    for iname, val in bad_inputs:
        body = (lambda z: np.sum(np.sin(z) * 2.0)) if arrlike(val) else (lambda z: 1.5)
        cases.append(("grad w.r.t. an argument of type %s" % iname, (lambda body=body, val=val: autograd.grad(body)(val))))
        cases.append(("make_vjp w.r.t. an argument of type %s" % iname, (lambda body=body, val=val: autograd.make_vjp(body)(val))))
        cases.append(("make_jvp w.r.t. an argument of type %s" % iname, (lambda val=val: autograd.make_jvp(lambda z: z)(val)(val))))
        cases.append(("a supported argument next to one of type %s selected by argnum" % iname, (lambda val=val: autograd.grad(lambda a, z: np.sum(a) * 1.0, 1)(x, val))))
    res = []
    for name, fn in cases:
        try:
            with warnings.catch_warnings():
                warnings.simplefilter("ignore")
                r = fn()
            res.append({"key": "LOUD " + name, "status": "violation", "detail": "did not raise; returned %r" % (r,), "paths": 1, "queries": 0, "validated": 1, "verdicts": {}, "cex": {"env": {}, "mode": "loud"}})
        except Exception as e:
            res.append({"key": "LOUD " + name, "status": "holds", "detail": "raises %s" % checks_a.exc_sig(e), "paths": 1, "queries": 0, "validated": 1, "verdicts": {}})
    return res


def random_cases():
    """numpy.random callables that accept an array positionally: differentiating through them must raise (they have no
    rules) - executed on the real float64 API"""
    import autograd
    import autograd.numpy as np
    import autograd.numpy.random as npr
    import numpy as onp

    x = onp.array([0.5, 1.5])
    res = []
    for n, f in sorted(vars(npr).items()):
        if n.startswith("_") or n in BLACKLIST or not callable(f) or isinstance(f, type):
            continue
        try:
            with warnings.catch_warnings():
                warnings.simplefilter("ignore")
                onp.random.seed(0)
                getattr(onp.random, n)(x)
        except Exception:
            continue  # NumPy does not accept an array here
        try:
            with warnings.catch_warnings():
                warnings.simplefilter("error")  # 'Output seems independent of input' would be the silent path
                autograd.make_vjp(lambda v: f(v))(x)
            res.append({"key": "RANDOM random.%s(x)" % n, "status": "inconclusive", "detail": "returned a traced result without raising", "paths": 1, "queries": 0, "validated": 1, "verdicts": {}})
        except UserWarning:
            res.append({"key": "RANDOM random.%s(x)" % n, "status": "violation", "detail": "random.%s(x) depends on x but is silently treated as a constant" % n, "paths": 1, "queries": 0, "validated": 1, "verdicts": {},
                        "cex": {"env": {}, "mode": "loud"}})
        except Exception as e:
            res.append({"key": "RANDOM random.%s(x)" % n, "status": "holds", "detail": "raises %s" % checks_a.exc_sig(e), "paths": 1, "queries": 0, "validated": 1, "verdicts": {}})
    return res


def main(tier, only=None):
    t0 = time.time()
    results = runner.run_items(MOD, tier)
    enga.init()
    items(tier)
    untemplated = _CACHE.get(("untemplated", tier), [])
    results += loud_cases()
    results += random_cases()
    # LAPACK-backed primitives with their option values (UPLO in every spelling NumPy accepts, full_matrices, ...):
    # float64 probe, first order only here: each request is answered correctly or refused
    from . import lapack_probe

    results += [r for r in lapack_probe.run(runner.SEED) if r["key"].endswith("| vjp") or "np.geterr" in r["key"]]
    H = "vf.ch.h_ext"
    conds = [dict(module=H, func="_missing1", cases=6, what="missing rule raises, arity 1"), dict(module=H, func="_missing2", cases=72, what="missing rule raises, arity 2", timeout={"quick": 180, "thorough": 600}),
             dict(module=H, func="_missing3", cases=336, what="missing rule raises, arity 3", timeout={"quick": 240, "thorough": 900}), dict(module=H, func="_newbox_unregistered", cases=4, what="new_box on unregistered types raises TypeError")]
    ch = chrun.run_conditions(conds, tier)
    for r in ch:
        if r["verdict"] != "confirmed":
            results.append({"key": "crosshair " + r["key"], "status": "violation" if (r["verdict"] == "counterexample" and r.get("replay_violated")) else "inconclusive", "detail": r["detail"],
                            "paths": 0, "queries": 0, "validated": 0, "verdicts": {}})
    prims = sorted({r["key"].split(" | ")[0].split(" ", 1)[1] for r in results if " | " in r["key"]})
    return runner.finish(
        ID, tier, results, t0,
        functions=gridprop.ENGINE_A_FUNCS + ["namespace sweep: %d exported callables / ArrayBox attributes enumerated at run time from autograd.numpy, .linalg, .fft, .random and ArrayBox" % len(prims),
                                             "autograd.core:VJPNode.__init__ / JVPNode.__init__ (NotImplementedError when no rule)", "autograd.core:defvjp (missing argnum)", "autograd.tracer:new_box (TypeError)",
                                             "grad / value_and_grad / elementwise_grad output checks", "explicit NotImplementedError guards", "CrossHair: h_ext._missing1/2/3, _newbox_unregistered"],
        files=FILES,
        bounds={"tier": tier, "templates per callable": "first %d accepted of: f(x), f(x[3]), f(x,y), f(x,1), f(x,2), f(x,0.5), f(x,(2,2)), f(x,y,z), f(scalar); every array position differentiated; both modes" % (2 if tier == "quick" else 4),
                "outside": "callables NumPy cannot run on object arrays (reported as inconclusive), callables with side effects (blacklisted by name), arguments passed inside plain Python containers or as keywords (documented as opaque to autograd)"},
        assumptions=gridprop.ENGINE_A_ASSUME + ["per (callable, template, argument, mode) exactly one of: (a) raises; (b) traced -> the C01/C02 claim is decided; (c) untraced -> the returned derivative is zero and the claim degenerates to the dependence query "
                                                "'exists x, d: NumPy's own output varies along d', which must be unsat", "20 'must raise' requests are executed on the real float64 API"],
        stubs=dict(stubs.STUBS), extra_cov={"callables_swept": len(prims), "callables_without_accepted_template": untemplated, "crosshair_conditions": [{"condition": r["key"], "verdict": r["verdict"]} for r in ch]})


def replay(path):
    import json

    data = json.load(open(path))
    key = data.get("key", "")
    if key.startswith("LOUD"):
        for r in loud_cases():
            if r["key"] == key:
                print(r["status"], r["detail"])
                if r["status"] == "violation":
                    print("VIOLATION property=%s replay=%s" % (ID, path))
                    return 1
                return 0
        return 3
    mode, _, ck = key.partition(" ")
    data["key"] = ck
    tmp = path + ".tmp"
    json.dump(data, open(tmp, "w"))
    try:
        return checks_a.replay_file(ID, tmp, [c for m, c in items("thorough") if m == mode])
    finally:
        os.unlink(tmp)
