"""adjointness of the two modes at the explicitly handled non-smooth points (C04)"""
from . import pinned_probe


def run(seed=0):
    return pinned_probe.run_adjoint(seed)
