"""Engine A part of C03: small NumPy programs (diamonds, multi-edges, dead branches, value-dependent control flow)
over symbolic arrays; every path checked against the dual-number oracle in both modes."""
import os

from .. import checks_a, enga, grid, runner

MOD = "vf.props.c03a"


def worker_init(tier):
    enga.init()


def items(tier):
    enga.init()
    out = []
    for c in grid.program_grid(tier):
        out.append(("vjp", c))
        out.append(("jvp", c))
    # graphs in which an executed operation is itself a differentiation (nested programs): the chain rule over the outer
    # graph needs the inner derivative as a function of the outer variable
    for c in grid.nested_grid(tier):
        out.append(("vjp", c))
    # graphs whose values are containers (tuples / lists / dicts consumed whole several times and by index)
    for c in grid.container_grid(tier):
        out.append(("vjp", c))
    return out


def item_key(it):
    return it[0] + " " + it[1].key


def check(it, tier):
    mode, cfg = it
    o = checks_a.check_vjp(cfg, tier) if mode == "vjp" else checks_a.check_jvp(cfg, tier)
    o.key = item_key(it)
    return o


def run(tier):
    return runner.run_items(MOD, tier)


def replay(path):
    import json

    with open(path) as f:
        key = json.load(f).get("key", "")
    mode, _, ck = key.partition(" ")
    for m, c in items("thorough"):
        c.key  # noqa
    cfgs = [c for m, c in items("thorough") if m == mode]
    for c in cfgs:
        pass
    # configuration keys inside the replay file carry the mode prefix
    class W:
        pass
    its = []
    for c in cfgs:
        w = c
        its.append(w)
    import copy
    its2 = []
    for c in cfgs:
        c2 = copy.copy(c)
        c2.label = c.label
        its2.append(c2)
    data = json.load(open(path))
    data["key"] = ck
    tmp = path + ".tmp"
    json.dump(data, open(tmp, "w"))
    try:
        return checks_a.replay_file("C03", tmp, its2)
    finally:
        os.unlink(tmp)
