"""nested / same-level pinned-value probe (C07 extra; C08 calls pinned_probe.run_nested directly)"""
from . import pinned_probe


def run(seed=0):
    return pinned_probe.run_nested(seed)
