"""Concrete float64 probe of the LAPACK-backed primitives that Engine A cannot encode (eigh, svd, cholesky, pinv, eig,
qr-free): first order, reverse-over-reverse, and the 'VJP differentiated w.r.t. its cotangent AT ZERO' trick used by
make_jvp_reversemode / make_ggnvp.  Replay-style evidence (finite differences of NumPy's own function at random regular
points, 3 points each), labelled decided_by='float64 probe'; not a solver verdict."""
import warnings

import numpy as onp


def _fd(f, x, v, h=1e-6):
    return (onp.asarray(f(x + h * v)) - onp.asarray(f(x - h * v))) / (2 * h)


def cases():
    import autograd.numpy as np

    def spd(rs, n):
        a = rs.randn(n, n)
        return a @ a.T + n * onp.eye(n)

    def sym(rs, n):
        a = rs.randn(n, n)
        return a + a.T

    gen = lambda rs, n: rs.randn(n, n) + 2 * onp.eye(n)
    rect = lambda rs, n: rs.randn(n + 1, n)
    symdir = lambda rs, n: sym(rs, n)
    cube = lambda rs, n: rs.randn(n + 1, n, n + 2)
    batch = lambda rs, n: rs.randn(2, n, n) + 2 * onp.eye(n)
    batch_spd = lambda rs, n: onp.stack([spd(rs, n), spd(rs, n)])
    batch_sym = lambda rs, n: onp.stack([sym(rs, n), sym(rs, n)])
    return [
        ("eigh eigenvalues", lambda x: np.linalg.eigh(x)[0], sym, symdir, 3),
        ("eigh eigenvectors (sign-invariant: v*v)", lambda x: np.linalg.eigh(x)[1] ** 2, sym, symdir, 3),
        ("eigh UPLO='L' on a non-symmetric input (only the lower triangle is read)", lambda x: np.linalg.eigh(x, "L")[0], gen, gen, 3),
        ("eigh UPLO='U' on a non-symmetric input", lambda x: np.linalg.eigh(x, "U")[0], gen, gen, 3),
        ("eigh UPLO='l' (NumPy accepts lower case)", lambda x: np.linalg.eigh(x, "l")[0], gen, gen, 3),
        ("eigh UPLO='u' keyword", lambda x: np.linalg.eigh(x, UPLO="u")[0], gen, gen, 3),
        ("eigh eigenvectors UPLO='U' non-symmetric input", lambda x: np.linalg.eigh(x, "U")[1] ** 2, gen, gen, 3),
        ("svd full_matrices=True (default) singular vectors: gradient not implemented", lambda x: np.linalg.svd(x)[0] ** 2, rect, rect, 2),
        ("svd singular values", lambda x: np.linalg.svd(x, compute_uv=False), gen, gen, 3),
        ("svd u (sign-invariant)", lambda x: np.linalg.svd(x, full_matrices=False)[0] ** 2, gen, gen, 3),
        ("svd vt (sign-invariant)", lambda x: np.linalg.svd(x, full_matrices=False)[2] ** 2, gen, gen, 3),
        ("svd rectangular u,s,vt", lambda x: (lambda u, s, vt: np.sum(u ** 2, axis=0) * s + np.sum(vt ** 2, axis=1))(*np.linalg.svd(x, full_matrices=False)), rect, rect, 2),
        ("cholesky", lambda x: np.linalg.cholesky(x), spd, symdir, 3),
        ("pinv", lambda x: np.linalg.pinv(x), rect, rect, 2),
        ("inv", lambda x: np.linalg.inv(x), gen, gen, 3),
        ("det", lambda x: np.linalg.det(x), gen, gen, 3),
        ("slogdet", lambda x: np.linalg.slogdet(x)[1], spd, symdir, 3),
        ("solve", lambda x: np.linalg.solve(x, onp.arange(1.0, x.shape[0] + 1)), gen, gen, 3),
        ("norm nuc", lambda x: np.linalg.norm(x, "nuc"), gen, gen, 3),
        ("norm nuc over axis=(0, 1) of a 3-D array", lambda x: np.linalg.norm(x, "nuc", axis=(0, 1)), cube, cube, 3),
        ("norm nuc over axis=(2, 0) of a 3-D array (row axis after the column axis, not adjacent)", lambda x: np.linalg.norm(x, "nuc", axis=(2, 0)), cube, cube, 3),
        ("norm nuc over axis=(1, 2) / (2, 1) of a 3-D array", lambda x: np.linalg.norm(x, "nuc", axis=(1, 2)) + 2.0 * np.linalg.norm(x, "nuc", axis=(2, 1)), cube, cube, 3),
        ("det / inv / solve on a batch of matrices", lambda x: np.linalg.det(x) + np.sum(np.linalg.inv(x), axis=(1, 2)) + np.sum(np.linalg.solve(x, onp.ones((2, 3, 1))), axis=(1, 2)), batch, batch, 3),
        ("cholesky / slogdet on a batch of SPD matrices", lambda x: np.sum(np.linalg.cholesky(x), axis=(1, 2)) + np.linalg.slogdet(x)[1], batch_spd, batch_sym, 3),
        ("svd singular values of a batch", lambda x: np.linalg.svd(x, compute_uv=False), batch, batch, 3),
        ("eig eigenvalues (real parts, SPD input)", lambda x: np.real(np.linalg.eig(x)[0]) ** 2, spd, symdir, 3),
    ]


def run(seed=0):
    import autograd
    from autograd import core
    from autograd.differential_operators import make_jvp_reversemode

    out = []
    err_state0 = dict(onp.geterr())
    for name, f, mk, mkdir, n in cases():
        if dict(onp.geterr()) != err_state0:
            out.append({"key": "LAPACK float64 probe | global NumPy error state (np.geterr) after the previous case", "status": "violation",
                        "detail": "np.geterr() changed from %r to %r during the differentiations before '%s' (a rule left seterr modified, e.g. on an exception path)" % (err_state0, dict(onp.geterr()), name),
                        "paths": 1, "queries": 0, "validated": 1, "verdicts": {}, "cex": {"env": {}, "mode": "lapack"}})
            onp.seterr(**err_state0)
        rs = onp.random.RandomState(seed + 11)
        fails = {"vjp": 0, "jvp": 0, "rev-over-rev": 0, "double-vjp at zero cotangent": 0}
        info = {}
        tried = 0
        err = None
        for trial in range(3):
            x, v, w = mk(rs, n), mkdir(rs, n), mkdir(rs, n)
            try:
                with warnings.catch_warnings():
                    warnings.simplefilter("ignore")
                    y = onp.asarray(f(x))
                    g = rs.randn(*y.shape)
                    # first order: <vjp(g), v> == <g, df[v]>
                    vj = core.make_vjp(f, x)[0](g)
                    a1, b1 = float(onp.sum(vj * v)), float(onp.sum(g * _fd(f, x, v)))
                    # forward mode, where a rule exists: <g, jvp(v)> against the same finite difference
                    try:
                        a0 = float(onp.sum(g * onp.asarray(core.make_jvp(f, x)(v)[1])))
                    except (NotImplementedError, KeyError):
                        a0 = None
                    # reverse over reverse: d/dx <vjp_x(g), w> in direction v  vs  FD of x -> <g, df_x[w]>
                    inner = lambda xx: autograd.numpy.sum(core.make_vjp(f, xx)[0](g) * w)
                    hv = core.make_vjp(inner, x)[0](1.0)
                    a2 = float(onp.sum(hv * v))
                    b2 = float(_fd(lambda xx: onp.sum(g * _fd(f, xx, w, 1e-5)), x, v, 1e-4))
                    # the double-VJP trick: vjp differentiated w.r.t. its cotangent AT ZERO must be the JVP
                    jv = make_jvp_reversemode(f)(x)(v)
                    fd = _fd(f, x, v)
                    a3, b3 = onp.asarray(jv, dtype=float), onp.asarray(fd, dtype=float)
            except Exception as e:  # raising is loud, hence allowed
                err = "%s: %s" % (type(e).__name__, str(e)[:80])
                break
            tried += 1
            sc = lambda p, q: max(1.0, abs(p), abs(q))
            if not abs(a1 - b1) <= 1e-4 * sc(a1, b1):
                fails["vjp"] += 1
                info["vjp"] = (a1, b1)
            if a0 is not None and not abs(a0 - b1) <= 1e-4 * sc(a0, b1):
                fails["jvp"] += 1
                info["jvp"] = (a0, b1)
            if not abs(a2 - b2) <= 5e-3 * sc(a2, b2):
                fails["rev-over-rev"] += 1
                info["rev-over-rev"] = (a2, b2)
            m3 = float(onp.max(onp.abs(a3 - b3), initial=0.0))
            if not m3 <= 1e-4 * max(1.0, float(onp.max(onp.abs(b3), initial=0.0))):
                fails["double-vjp at zero cotangent"] += 1
                info["double-vjp at zero cotangent"] = m3
        for what, nfail in fails.items():
            key = "LAPACK float64 probe | %s | %s" % (name, what)
            if err is not None and tried == 0:
                out.append({"key": key, "status": "raises", "detail": err, "paths": 0, "queries": 0, "validated": 0, "verdicts": {}})
            elif tried and nfail == tried:
                out.append({"key": key, "status": "violation", "detail": "[float64 probe] wrong at %d/%d random regular points: %s" % (nfail, tried, info.get(what)), "paths": tried, "queries": 0,
                            "validated": tried, "verdicts": {}, "cex": {"env": {}, "mode": "lapack"}, "extra": {"decided_by": "float64 probe"}})
            else:
                out.append({"key": key, "status": "holds", "detail": "", "paths": tried, "queries": 0, "validated": tried, "verdicts": {}, "extra": {"decided_by": "float64 probe"}})
    ok = dict(onp.geterr()) == err_state0 and not any("np.geterr" in r["key"] for r in out)
    if dict(onp.geterr()) != err_state0:
        out.append({"key": "LAPACK float64 probe | global NumPy error state (np.geterr) after the previous case", "status": "violation",
                    "detail": "np.geterr() changed from %r to %r during the last case" % (err_state0, dict(onp.geterr())), "paths": 1, "queries": 0, "validated": 1, "verdicts": {}, "cex": {"env": {}, "mode": "lapack"}})
        onp.seterr(**err_state0)
    if ok:
        nraise = len({r["key"].split(" | ")[1] for r in out if r["status"] == "raises"})
        out.append({"key": "LAPACK float64 probe | global NumPy error state (np.geterr) unchanged across all cases", "status": "holds",
                    "detail": "%d cases, %d of them raising inside the forward or backward pass" % (len(cases()), nraise), "paths": 1, "queries": 0, "validated": 1, "verdicts": {}})
    return out
