"""C10 — differentiation never writes to memory it does not own; VJP functions are reusable (Engine B + A)."""
from ..ch.prop import BProp


def conditions(tier):
    H = "vf.ch.h_c10"
    cs = [dict(module=H, func="_fold3", cases=8 * 6, what="add_outgrads folded over 3 contributions: sparse/dense bits, aliasing pattern, symbolic values"),
          dict(module=H, func="_fold4", cases=16 * 24, what="fold over 4 contributions"),
          dict(module=H, func="_fold5", cases=32 * 120, what="fold over 5 contributions", timeout={"quick": 240, "thorough": 900}),
          dict(module=H, func="_foldt3", cases=6, what="fold over 3 tuple-valued contributions (TupleVSpace), aliasing"),
          dict(module=H, func="_foldt4", cases=24, what="fold over 4 tuple-valued contributions"),
          dict(module="vf.ch.h_c19", func="_reuse_after_fault", cases=8, what="the VJP function is reused after one of its calls failed part-way through the backward pass", timeout={"quick": 200, "thorough": 600}),
          dict(module=H, func="_foldb3", cases=8 * 6, what="the fold over 3 contributions executed under an enclosing trace (contributions are boxes: higher-order differentiation): the values inside the boxes are never written"),
          dict(module=H, func="_foldb4", cases=16 * 24, what="boxed fold over 4 contributions", timeout={"quick": 240, "thorough": 900}),
          dict(module=H, func="_foldb_reach", expect="counterexample", what="reachability twin (boxed fold)"),
          dict(module="vf.ch.h_ext", func="_contract3", cases=4 * 7 * 7, what="VJP function of a trace through a 3-ary user primitive called twice: second call gives the full sum again (no one-shot state in the dispatch)", timeout={"quick": 240, "thorough": 900}),
          dict(module=H, func="_fold_reach", expect="counterexample", what="reachability twin"),
          dict(module=H, func="_alias3", cases=36 * 3, what="3-op programs whose rules return the incoming cotangent object; vjp called 3 times in symbolic order with two cotangents", timeout={"quick": 180, "thorough": 900}),
          dict(module=H, func="_alias3_planted", expect="counterexample", what="planted ownership bug (second contribution accumulated in place into the first)")]
    return cs


def extra(tier):
    from .. import enga, runner
    from . import misc_probe, progs_a

    res = list(progs_a.run("C10", tier))
    enga.init()
    res += misc_probe.run_out_buffers(runner.SEED)  # float64 probe: caller-provided out= buffers
    return res


BProp("C10", conditions,
      functions=["autograd.core:add_outgrads", "autograd.core:sparse_add", "autograd.core:VSpace.mut_add", "autograd.core:VSpace.add", "autograd.core:SparseObject", "autograd.core:backward_pass",
                 "autograd.core:make_vjp", "autograd.core:vspace"],
      files=["autograd/core.py", "autograd/numpy/numpy_vspaces.py", "autograd/numpy/numpy_vjps.py", "autograd/differential_operators.py"],
      bounds={"contributions": "3, 4, 5 per accumulated cotangent, each sparse or dense, each possibly the same object as an earlier one", "programs": "3 ops, every wiring", "calls": "3 calls of one VJP function, 3 orders", "outside": "longer sequences"},
      claims=["every in-place accumulation targets an object allocated inside the accumulation (never a contribution, never the caller's cotangent); contributions are unchanged; the result is the sum",
              "vjp(g) called repeatedly returns each time what a single call returns; cotangents passed in and results returned earlier stay unchanged"],
      extra=extra).export(globals())
