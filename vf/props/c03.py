"""C03 — chain rule over arbitrary computation graphs; each op differentiated once (Engine B, + Engine A programs)."""
import itertools
import time

from ..ch import prop as chprop
from ..ch import run as chrun

ID = "C03"
FILES = ["autograd/core.py", "autograd/util.py", "autograd/tracer.py"]


def conditions(tier):
    cs = []
    for a, b in itertools.product(range(3), range(3)):
        cs.append(dict(module="vf.ch.h_c03_topo", func="_topo4_%d%d" % (a, b), cases=81, what="toposort: all 4-node DAGs, edge multiplicities 0..2, m10=%d m20=%d" % (a, b)))
    cs.append(dict(module="vf.ch.h_c03_topo", func="_topo4_reach", expect="counterexample", what="reachability twin"))
    for i in range(3):
        cs.append(dict(module="vf.ch.h_c03_graph", func="_g3_rev_%d" % i, cases=12, what="make_vjp on 3-op programs, symbolic wiring (a2=%d) / coefficients / input / cotangent; rule invocation counts and received adjoints" % i))
    cs.append(dict(module="vf.ch.h_c03_graph", func="_g3_fwd", cases=36, what="make_jvp on 3-op programs, symbolic wiring"))
    cs.append(dict(module="vf.ch.h_c03_graph", func="_g3_cf_rev", cases=72, what="3-op programs with value-dependent Python control flow, reverse mode", timeout={"quick": 120, "thorough": 600}))
    cs.append(dict(module="vf.ch.h_c03_graph", func="_g3_cf_fwd", cases=72, what="3-op programs with value-dependent Python control flow, forward mode", timeout={"quick": 120, "thorough": 600}))
    cs.append(dict(module="vf.ch.h_c10", func="_foldt3", cases=6, what="accumulation of three container-valued (tuple) cotangents incl. aliasing: element-wise sum"))
    cs.append(dict(module="vf.ch.h_c10", func="_foldt4", cases=24, what="accumulation of four container-valued cotangents"))
    cs.append(dict(module="vf.ch.h_ext", func="_contract3", cases=4 * 7 * 7, what="one 3-ary operation (generic dispatch path of defvjp), every differentiated subset, TWO backward evaluations of the same trace: each rule once per evaluation, full sum", timeout={"quick": 240, "thorough": 900}))
    cs.append(dict(module="vf.ch.h_c03_graph", func="_g3_reach", expect="counterexample", what="reachability twin"))
    if tier == "thorough":
        for pre in itertools.product(range(3), repeat=4):
            cs.append(dict(module="vf.ch.h_c03_topo", func="_topo5_" + "".join(map(str, pre)), cases=729, what="toposort: all 5-node DAGs with multiplicities 0..2 (prefix %s)" % (pre,), timeout=900))
        for a3, b3 in itertools.product(range(4), range(4)):
            cs.append(dict(module="vf.ch.h_c03_graph", func="_g4_rev_%d%d" % (a3, b3), cases=36, what="make_vjp on 4-op programs (a3=%d,b3=%d)" % (a3, b3), timeout=900))
    return cs


def main(tier, only=None):
    t0 = time.time()
    cs = conditions(tier)
    if only:
        import re
        cs = [c for c in cs if re.search(only, c["func"])]
    res = chrun.run_conditions(cs, tier)
    extra = []
    if not only:
        from . import c03a
        extra = c03a.run(tier)
        # rules whose Jacobian has entries 0 / +-1 only, fed cotangents spanning 40 orders of magnitude (float64 probe)
        from .. import enga
        from . import pinned_probe

        enga.init()
        extra = list(extra) + pinned_probe.run_linear_extreme()
    return chprop.finish(
        ID, tier, res, t0,
        functions=["autograd.util:toposort", "autograd.core:make_vjp", "autograd.core:backward_pass", "autograd.core:VJPNode.__init__", "autograd.core:defvjp.vjp_argnums",
                   "autograd.core:add_outgrads", "autograd.core:make_jvp", "autograd.core:JVPNode.__init__", "autograd.core:defjvp.jvp_argnums", "autograd.core:sum_outgrads",
                   "autograd.tracer:primitive.f_wrapped", "autograd.tracer:trace", "autograd.tracer:find_top_boxed_args", "autograd.tracer:new_box", "autograd.tracer:notrace_primitive"],
        files=FILES,
        bounds={"toposort": "all DAGs on 4 nodes (quick) / 5 nodes (thorough) with edge multiplicity 0..2 per ordered pair", "programs": "3 ops (quick) / 4 ops (thorough), every wiring incl. multi-edges, diamonds, dead nodes; unbounded symbolic integer coefficients, input, cotangent",
                "control_flow": "operand swap steered by the traced input value", "outside": "graphs larger than the bound (no induction over graph size)"},
        claims=["toposort output is a permutation of exactly the nodes reachable from the end node and every node precedes all of its parents",
                "reverse mode: result == g * dv_n/dx (independent forward recurrence over the executed wiring); every live op's rule is invoked exactly once per argument and receives the full adjoint; dead ops are never differentiated; forward mode gives the same Jacobian"],
        extra_results=extra)


def replay(path):
    r = chprop.replay(ID, path)
    if r is None:
        from . import c03a
        return c03a.replay(path)
    return r
