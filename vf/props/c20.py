"""C20 — concurrent differentiations in different threads do not interfere (Engine C + B)."""
import concurrent.futures as cf
import json
import multiprocessing as mp
import os
import sys
import time
import warnings

from .. import runner
from ..ch import run as chrun

ID = "C20"
FILES = ["autograd/tracer.py"]


def _q(args):
    sys.path[:0] = [runner.VERIF, runner.REPO]
    warnings.filterwarnings("ignore")
    from ..sched import encode, extract

    scr, force_shared = args
    try:
        rel = extract.extract()
    except Exception:
        rel = extract.extract_concrete()
    if force_shared:
        rel["shared"] = True
    t0 = time.time()
    v, sched, st = encode.query(rel, scr)
    return {"scripts": list(scr), "verdict": v, "schedule": sched, "time": time.time() - t0, "steps": st.get("steps"), "forced_shared": force_shared}


def main(tier, only=None):
    t0 = time.time()
    warnings.filterwarnings("ignore")
    sys.path[:0] = [runner.REPO]
    from ..sched import encode, extract, replay_threads

    try:
        rel = extract.extract()
    except Exception as e:
        try:
            rel = extract.extract_concrete()
            print("NOTE property=C20 symbolic extraction of the trace entry/exit relation failed (%s); using %s" % (str(e)[:100], rel["extraction"]))
        except Exception as e2:
            print("HARNESS-ERROR property=C20 cannot extract the trace-entry/exit transition relation from the real tracer: %s / %s" % (e, e2))
            return 3
    reldesc = {k: str(v) for k, v in rel.items() if not callable(v)}
    if tier == "quick":
        tuples = encode.script_tuples(2, 3, 6)
        tuples3 = encode.script_tuples(3, 2, 4)
    else:
        tuples = encode.script_tuples(2, 3, 8)
        tuples3 = encode.script_tuples(3, 3, 6)
    jobs = [(t, False) for t in tuples + tuples3]
    # adversarial schedules: what WOULD break the contract if the counter were shared; replayed on real threads below
    adv = [(t, True) for t in (tuples[:: max(1, len(tuples) // 12)] + tuples3[:: max(1, len(tuples3) // 4)])]
    ctx = mp.get_context("spawn")
    with cf.ProcessPoolExecutor(max_workers=runner.NPROC, mp_context=ctx) as ex:
        res = list(ex.map(_q, jobs + adv, chunksize=4))
    real = [r for r in res if not r["forced_shared"]]
    advr = [r for r in res if r["forced_shared"]]
    findings = runner.load_findings(ID)
    violations, known, errors, inconc = [], [], [], []
    replays = 0
    for r in real:
        if r["verdict"] == "unsat":
            continue
        if r["verdict"] != "sat":
            inconc.append(r)
            continue
        got, solo, errs = replay_threads.run(tuple(r["scripts"]), r["schedule"])
        replays += 1
        r["replay"] = {"scheduled": got, "solo": solo, "errors": errs}
        if got != solo or errs:
            key = "schedule scripts=%s" % "|".join(r["scripts"])
            e = runner.match_finding(findings, key)
            (known if e else violations).append((key, r, e))
        else:
            errors.append(r)
    adv_viol = []
    for r in advr:
        if r["verdict"] != "sat":
            continue
        got, solo, errs = replay_threads.run(tuple(r["scripts"]), r["schedule"])
        replays += 1
        if got != solo or errs:
            key = "adversarial schedule scripts=%s" % "|".join(r["scripts"])
            r["replay"] = {"scheduled": got, "solo": solo, "errors": errs}
            e = runner.match_finding(findings, key)
            (known if e else adv_viol).append((key, r, e))
    # operation-event granularity (yield points inside forward and backward passes), exhaustive over two small programs
    op = replay_threads.op_level_probe(runner.SEED, max_schedules=300 if tier == "quick" else 3000)
    for r in op:
        replays += r["schedules_run"]
        if r["bad"]:
            key = "operation-level schedule programs=%s" % "|".join(r["programs"])
            rr = {"scripts": r["programs"], "schedule": r["bad"]["schedule"], "replay": {"scheduled": r["bad"]["scheduled"], "solo": r["bad"]["solo"], "errors": r["bad"]["errors"]}, "op_level": True}
            e = runner.match_finding(findings, key)
            (known if e else adv_viol).append((key, rr, e))
    # K suffices (CrossHair): results depend on trace ids only through their order
    conds = [dict(module="vf.ch.h_c08", func="_contract2", cases=32, what="depth-2 canaries with trace ids arbitrary but satisfying contract K give the solo results"),
             dict(module="vf.ch.h_c08", func="_nest2", cases=32, what="shift invariance of the canaries")]
    ch = chrun.run_conditions(conds, tier)
    ch_bad = [r for r in ch if r["verdict"] != "confirmed"]
    for key, r, e in known:
        print("KNOWN-FINDING: property=%s %s [%s]" % (ID, e["what"], key))
    for key, r, e in violations + adv_viol:
        p = runner.write_replay(ID, key, {"cex": {"mode": "threads-op" if r.get("op_level") else "threads", "scripts": r["scripts"], "schedule": r["schedule"]}, "detail": r.get("replay")})
        print("VIOLATION property=%s replay=%s" % (ID, os.path.relpath(p, runner.VERIF)))
        print("  scripts=%s schedule=%s -> scheduled results %s, solo results %s %s" % (r["scripts"], r["schedule"], r["replay"]["scheduled"], r["replay"]["solo"], r["replay"]["errors"] or ""))
    for r in errors[:10]:
        print("HARNESS-ERROR property=%s the solver's schedule %s for %s does not change any thread's result on real threads (encoding or replay wrong)" % (ID, r["schedule"], r["scripts"]))
    for r in ch_bad:
        print("%s property=%s crosshair %s: %s %s" % ("HARNESS-ERROR" if r["verdict"] in ("error", "counterexample") else "INCONCLUSIVE", ID, r["key"], r["verdict"], r.get("detail", "")[:200]))
    cov = {
        "states": max(1, sum(r["steps"] or 0 for r in real)),
        "transitions": max(1, len(real) + len(advr) + len(ch)),
        "traces_validated_against_impl": replays,
        "samples": [{"scripts": r["scripts"], "verdict": r["verdict"], "schedule": r["schedule"]} for r in (real[:3] + advr[:3])],
        "transition_relation_extracted_from_real_tracer": reldesc,
        "script_tuples": len(real), "threads": "2 (depth<=3, <=%d events) and 3 (<=%d events)" % ((6, 4) if tier == "quick" else (8, 6)),
        "verdicts": {v: sum(1 for r in real if r["verdict"] == v) for v in ("unsat", "sat", "unknown")},
        "adversarial_schedules_replayed_on_real_threads": len([r for r in advr if r["verdict"] == "sat"]),
        "crosshair": [{"condition": r["key"], "verdict": r["verdict"]} for r in ch],
        "operation_level_probe": [{"programs": r["programs"], "yield_points": r["yield_points"], "schedules_run": r["schedules_run"], "ok": not r["bad"]} for r in op],
        "solver_time_s": round(sum(r["time"] for r in res), 2),
        "functions_encoded": ["autograd.tracer:trace (executed with a z3 Int counter)", "autograd.tracer:TraceStack.new_trace", "autograd.tracer:new_box", "autograd.tracer:find_top_boxed_args (CrossHair, ids constrained only by K)"],
        "source_sha256_16": runner.source_hashes(FILES),
        "bounds": {"threads": "<= 3", "nesting depth": "<= 3", "events per thread": "<= 8 (thorough)", "granularity": "trace entry / exit events; pre-emption inside `top += 1` is outside", "initial counter": "symbolic >= -1"},
        "exhaustive": False,
    }
    assume = ["assume-guarantee split: (B) CrossHair shows results depend on trace ids only through contract K; (C) z3 decides, for every script tuple, whether SOME interleaving violates K under the transition relation extracted from the real code",
              "whether threads share the counter is read off the real object with two real threads", "sat schedules are replayed on real threads by a strictly serialising scheduler with yield points in user code only",
              "additionally the schedules that would break K under a shared counter are replayed on real threads regardless of the extracted model",
              "operation-event granularity is NOT solver-decided: 15 pairs of small array programs (sort / partition / indexing / dot / nested and reused VJPs) with yield points inside forward and backward passes are run under every interleaving of their yield points (exhaustive enumeration, real threads) and compared with solo runs"]
    nv = len(violations) + len(adv_viol) + len(known)
    runner.write_evidence(ID, tier, "model_checking", cov, assume, time.time() - t0, nv)
    print("%s [%s] script tuples=%d %s adversarial replays=%d crosshair=%s wall=%.1fs" % (ID, tier, len(real), cov["verdicts"], cov["adversarial_schedules_replayed_on_real_threads"], [r["verdict"] for r in ch], time.time() - t0))
    if violations or adv_viol:
        return 1
    if errors or [r for r in ch_bad if r["verdict"] in ("error", "counterexample")]:
        return 3
    return 0


def replay(path):
    sys.path[:0] = [runner.REPO]
    from ..sched import replay_threads

    d = json.load(open(path))
    cex = d["cex"]
    if cex.get("mode") == "threads-op":
        bad = [r for r in replay_threads.op_level_probe(runner.SEED, 3000) if r["bad"]]
        print("operation-level probe:", [(r["programs"], r["bad"]["schedule"]) for r in bad])
        if bad:
            print("VIOLATION property=%s replay=%s" % (ID, path))
            return 1
        return 0
    got, solo, errs = replay_threads.run(tuple(cex["scripts"]), cex["schedule"])
    print("scheduled:", got, "solo:", solo, errs)
    if got != solo or errs:
        print("VIOLATION property=%s replay=%s" % (ID, path))
        return 1
    return 0
