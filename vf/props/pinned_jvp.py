"""forward-mode half of the pinned-point probe (C02)"""
from . import pinned_probe


def run(seed=0):
    return [r for r in pinned_probe.run(seed) if r["key"].startswith("PINNED jvp")]
