"""Engine A part of C16: operators over a generic C^2 function."""
from .. import checks_a, enga, runner

MOD = "vf.props.ops_a"


def worker_init(tier):
    enga.init()


def items(tier):
    ins = ["s", (), (2,), (1,), (2, 2), (1, 2)] + ([(2, 1, 2), (3,)] if tier == "thorough" else [])
    outs = [(), (2,), (1,), (2, 2)] + ([(2, 1, 2), (3,), (2, 3)] if tier == "thorough" else [])
    return [(i, o) for i in ins for o in outs]


def item_key(it):
    return "OPS in=%s out=%s" % (it[0], it[1])


def check(it, tier):
    o = checks_a.check_operators(it, tier)
    o.key = item_key(it)
    return o


def run(tier):
    return runner.run_items(MOD, tier)
