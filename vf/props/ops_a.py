"""Engine A part of C16: operators over a generic C^2 function."""
from .. import checks_a, enga, runner

MOD = "vf.props.ops_a"


def worker_init(tier):
    enga.init()


def items(tier):
    ins = ["s", (), (2,), (1,), (2, 2), (1, 2)] + ([(2, 1, 2), (3,)] if tier == "thorough" else [])
    outs = [(), (2,), (1,), (2, 2)] + ([(2, 1, 2), (3,), (2, 3)] if tier == "thorough" else [])
    out = [(i, o) for i in ins for o in outs]
    # the forward-mode operators (deriv, make_jvp) and the reverse-mode ones (grad, jacobian, make_vjp, the Hessian-vector
    # products) must describe ONE Jacobian also for real rule-table functions whose two rule tables are written
    # independently: contractions given by explicit axis lists / subscripts (pairings in any order, total contractions)
    from .. import grid

    enga.init()
    seen = set()
    for c in grid.real_grid("quick", families=("contract",)):
        if c.prim in ("tensordot", "einsum", "inner", "kron") and ("[" in c.label or "'" in c.label) and c.key not in seen:
            seen.add(c.key)
            out.append(("adjoint", c))
    # ... and for two-operand ufuncs whose operands have DIFFERENT shapes (each rule un-broadcasts against its own operand)
    for c in grid.real_grid("quick", families=("binary",)):
        if c.prim in ("arctan2", "hypot", "power", "maximum", "minimum", "logaddexp", "divide", "subtract", "mod", "multiply", "add") and len(c.args) == 2 and c.key not in seen:
            sh = [getattr(a, "shape", None) for a in c.args]
            if sh[0] != sh[1] and None not in sh:
                seen.add(c.key)
                out.append(("adjoint", c))
    return out


def item_key(it):
    if it[0] == "adjoint":
        return "OPS forward- and reverse-mode operators agree | " + it[1].key
    return "OPS in=%s out=%s" % (it[0], it[1])


def check(it, tier):
    o = checks_a.check_adjoint(it[1], tier) if it[0] == "adjoint" else checks_a.check_operators(it, tier)
    o.key = item_key(it)
    return o


def run(tier):
    return runner.run_items(MOD, tier)
