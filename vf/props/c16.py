"""C16 — all differential operators agree with one ground-truth Jacobian (Engine A + B)."""
from ..ch.prop import BProp


def conditions(tier):
    H = "vf.ch.h_ext"
    return [dict(module=H, func="_argnum_int", cases=4, what="make_vjp(fun, i): only position i is traced, the other arguments reach fun unchanged, keyword argument passed through"),
            dict(module=H, func="_argnum_pair", cases=24, what="tuple / list argnum: tuple of results in the order given", timeout={"quick": 180, "thorough": 600}),
            dict(module=H, func="_unary_to_nary_generic", cases=9, what="wrap_util.unary_to_nary with a marker operator: selected position, operator args/kwargs, function kwargs")]


def extra(tier):
    from . import ops_a
    return ops_a.run(tier)


BProp("C16", conditions,
      functions=["autograd.differential_operators: grad, elementwise_grad, deriv, jacobian, hessian, make_hvp, hessian_tensor_product, tensor_jacobian_product, make_jvp_reversemode, make_ggnvp, value_and_grad, grad_and_aux, grad_named, make_vjp, make_jvp",
                 "autograd.wrap_util:unary_to_nary", "autograd.core:make_vjp / make_jvp", "ArrayVSpace.standard_basis / ones (jacobian, grad)"],
      files=["autograd/differential_operators.py", "autograd/wrap_util.py", "autograd/__init__.py", "autograd/core.py", "autograd/numpy/numpy_vspaces.py"],
      bounds={"function": "ANY C^2 function up to second order: value y, Jacobian J and symmetric Hessian H are free symbols", "input shapes": "Python scalar, (), (1,), (2,), (1,2), (2,2) [thorough: (3,), (2,1,2)]",
              "output shapes": "(), (1,), (2,), (2,2) [thorough: (3,), (2,3), (2,1,2)]", "argnum": "int, tuple, list, by name; extra positional and keyword arguments", "outside": "ranks 3 (beyond the thorough cases), container-valued arguments (C12)"},
      claims=["~30 identities per shape pair, each decided by the solver for all y, J, H, x, v, g: jacobian == J with shape out+in; grad / value_and_grad / grad_and_aux; elementwise_grad == sum over outputs; deriv / make_jvp / make_jvp_reversemode == J v; tensor_jacobian_product == g J; hessian == g H (symmetric); three Hessian-vector products; make_ggnvp == J^T J v; argnum / name selection"],
      extra=extra).export(globals())
