"""C04 — forward and reverse modes are mutually adjoint and linear (Engine A; relates the two real rule tables)."""
from .. import checks_a, grid
from .gridprop import GridProp


def _items(tier):
    from autograd.core import primitive_jvps, primitive_vjps

    idx = grid.index_grid(tier)
    if tier == "quick":
        # every advanced / mixed index expression, every third basic one
        idx = [c for i, c in enumerate(idx) if "[" in c.label.split("x[", 1)[-1][:-1].replace("] on shape", "") or "mix" in c.tags or i % 3 == 0]
    return [c for c in grid.real_grid(tier) + grid.complex_grid(tier) + idx + grid.program_grid(tier) if "nooracle_skip" not in c.tags]


GridProp(
    "C04", "vf.props.c04", _items, checks_a.check_adjoint,
    files=["autograd/numpy/numpy_vjps.py", "autograd/numpy/numpy_jvps.py", "autograd/core.py", "autograd/numpy/numpy_vspaces.py", "autograd/numpy/linalg.py"],
    functions=["autograd.core:make_vjp", "autograd.core:make_jvp", "every (VJP rule, JVP rule) pair in primitive_vjps/primitive_jvps reached by the grid",
               "inner product convention of ArrayVSpace / ComplexArrayVSpace (real pairing, conjugating covector)"],
    bounds={"ranks": "0..3", "dims": "{1,2,3,4}", "outside": "configurations where either mode raises (no rule) are recorded as 'raises'; sizes beyond the grid"},
    claims=["claims per path, for all x, g, h, v, w, a, b: <conj g, jvp(v)>_R == <conj vjp(g), v>_R ; jvp(a v + b w) == a jvp(v) + b jvp(w) ; vjp(a g + b h) == a vjp(g) + b vjp(h)",
            "no oracle: the identities relate autograd's two independently written rule tables directly"],
    selftest=True,
).export(globals())

_grid_main_c04 = main


def main(tier, only=None):
    """the grid check plus the float64 probe of adjointness AT the explicitly handled non-smooth points (clip at a
    bound, ties of maximum / max / sort, abs at 0): vf/props/pinned_probe.py"""
    import os

    os.environ["VF_EXTRA_RESULTS"] = "vf.props.pinned_adj"
    return _grid_main_c04(tier, only=only)
