"""C19 — results are independent of call history, including calls that failed anywhere (Engine B)."""
from ..ch.prop import BProp


def conditions(tier):
    H = "vf.ch.h_c19"
    cs = [dict(module="vf.ch.h_c08", func="_nest2", cases=32, what="L1 shift invariance: every depth-2 canary returns the fresh-interpreter result for ANY initial trace counter"),
          dict(module=H, func="_fault", cases=3 * 3 * 2 * 2 * 4, what="L2: fault kind x position x caught/uncaught x depth x modes; counter never below start, registries untouched, enclosing differentiation continues, canaries fine", timeout={"quick": 300, "thorough": 900}),
          dict(module=H, func="_reuse_after_fault", cases=8, what="a VJP function is called again after one of its calls failed at the k-th backward rule (fan-out graph): same answers as a fresh one", timeout={"quick": 200, "thorough": 600}),
          dict(module=H, func="_container_history3", cases=125 * 2, what="3 gradient calls w.r.t. ONE dict object that the caller grows / shrinks / breaks (unsupported leaf: the call must fail) / repairs in place between calls, optionally after an unrelated container gradient: each call gives what a fresh interpreter gives for the dict as it is now (no identity-keyed or half-filled cache)", timeout={"quick": 300, "thorough": 900}),
          dict(module=H, func="_container_history_reach", expect="counterexample", what="reachability twin (container histories)"),
          dict(module=H, func="_fault_reach", expect="counterexample", what="reachability twin"),
          dict(module=H, func="_absolute_id_planted", expect="counterexample", what="planted defect: dependence on an absolute trace id")]
    for f1 in range(4):
        for m in (0, 1):
            if tier == "quick" and not ((f1 + m) % 2 == 0):
                continue
            cs.append(dict(module=H, func="_history3_%d%d" % (f1, m), cases=16 * 9, what="histories of 3 calls (first: kind %d), each success or one of three failure kinds, then canaries" % f1, timeout={"quick": 400, "thorough": 900}))
    if tier == "thorough":
        for s in "abc":
            cs.append(dict(module="vf.ch.h_c08", func="_nest3_" + s, cases=128, what="L1 at depth 3", timeout=900))
    return cs


def extra(tier):
    from .. import enga, runner
    from . import hist_probe, lapack_probe

    res = hist_probe.run(tier)
    res += hist_probe.fanout_order_probe()
    # process-global NumPy state (np.seterr) must survive every differentiation, including the ones that raise inside a rule
    enga.init()
    res += hist_probe.returned_value_probe()
    res += hist_probe.global_state_probe()
    res += hist_probe.legacy_registration_probe()
    res += [r for r in lapack_probe.run(runner.SEED) if "np.geterr" in r["key"]]
    return res


BProp("C19", conditions, extra=extra,
      functions=["autograd.tracer:TraceStack.new_trace (no try/finally: an exception leaves the counter raised)", "autograd.tracer:trace", "autograd.tracer:find_top_boxed_args", "autograd.tracer:primitive.f_wrapped",
                 "autograd.core:make_vjp", "autograd.core:make_jvp", "autograd.core:backward_pass", "registries: primitive_vjps, primitive_jvps, Box.type_mappings, VSpace.mappings, notrace_primitives"],
      files=["autograd/tracer.py", "autograd/core.py"],
      bounds={"histories": "3 top-level calls + canaries", "fault points": "k-th forward op (k<=3), k-th backward rule, trace exit (warning promoted to error)", "depth": "<= 2 enclosing levels", "initial counter": "symbolic >= -1",
              "outside": "longer histories are covered only through the two lemmas (shift invariance + failures only raise the counter)"},
      claims=["L1: results do not depend on the absolute value of the trace counter; L2: a failure at any point leaves counter >= its start value and all registries unchanged, an enclosing differentiation that catches it returns its fault-free value, and subsequent differentiations return fresh-interpreter results"]).export(globals())
