"""Engine A part of C12: nested containers with symbolic array/scalar leaves, and flatten."""
from .. import checks_a, enga, grid, runner

MOD = "vf.props.cont_a"


def worker_init(tier):
    enga.init()


def items(tier):
    enga.init()
    out = []
    for c in grid.container_grid(tier):
        out.append(("vjp", c))
        out.append(("jvp", c))
        out.append(("structure", c))
    for case in grid.flatten_cases():
        out.append(("flatten", case))
    return out


def item_key(it):
    return it[0] + " " + (it[1].key if it[0] != "flatten" else "FLAT " + it[1][0])


def check(it, tier):
    mode, x = it
    if mode == "vjp":
        o = checks_a.check_vjp(x, tier)
    elif mode == "jvp":
        o = checks_a.check_jvp(x, tier)
    elif mode == "structure":
        o = checks_a.check_structure(x, tier)
    else:
        o = checks_a.check_flatten(x, tier)
    o.key = item_key(it)
    return o


def run(tier):
    return runner.run_items(MOD, tier)
