"""float64 probes of autograd.misc (optimizers, fixed_points): code outside the symbolic engines' reach that the
properties still speak about ("user-supplied inputs are left unmodified", derivative exactness of the bundled
fixed-point primitive).  Replay-style evidence on concrete inputs, reported as extra items of C06 / C10."""
import warnings


def _res(key, ok, detail=""):
    return {"key": key, "status": "holds" if ok else "violation", "detail": detail, "paths": 1, "queries": 0, "validated": 1 if ok else 0, "verdicts": {},
            "prim": "misc", "cex": None if ok else {"mode": "misc", "key": key}}


def run(seed=0):
    import numpy as onp
    import autograd.numpy as np
    from autograd import grad
    from autograd.misc import optimizers
    from autograd.misc.fixed_points import fixed_point

    warnings.filterwarnings("ignore")
    out = []
    A = onp.array([[2.0, 0.3, 0.0], [0.3, 1.5, 0.2], [0.0, 0.2, 1.0]])
    b = onp.array([1.0, -2.0, 0.5])
    loss = lambda x, i: 0.5 * np.dot(x, np.dot(A, x)) - np.dot(b, x) + 0.01 * i * 0.0
    g = grad(loss)
    for name in ("sgd", "rmsprop", "adam"):
        opt = getattr(optimizers, name)
        for layout in ("C-contiguous bare ndarray", "1-D view with a stride", "wrapped in a list"):
            base = onp.array([0.5, -1.0, 2.0, 9.0, 9.0, 9.0])
            if layout == "1-D view with a stride":
                x0 = base[::2]
                x0[:] = [0.5, -1.0, 2.0]
            else:
                x0 = base[:3].copy()
            keep = x0.copy()
            x0.flags.writeable = False
            seen = []
            cb = lambda x, i, gg: seen.append(x)  # a logging callback that keeps what it is given
            arg = [x0] if layout == "wrapped in a list" else x0
            key = "MISC optimizers.%s | start point: %s, read-only" % (name, layout)
            try:
                r = opt((lambda x, i: [g(x[0], i)]) if isinstance(arg, list) else g, arg, callback=cb, num_iters=6, step_size=0.05)
            except Exception as e:
                out.append(_res(key, False, "raised %s: %s (the start point is read-only: an in-place update of the caller's array)" % (type(e).__name__, e)))
                continue
            problems = []
            if not onp.array_equal(x0, keep):
                problems.append("the caller's start point was modified")
            its = [onp.array(s[0] if isinstance(s, list) else s) for s in seen]
            if len(its) != 6 or not onp.array_equal(its[0], keep):
                problems.append("the callback's first iterate is not the start point")
            if any(onp.array_equal(its[i], its[i + 1]) for i in range(len(its) - 1)):
                problems.append("iterates handed to the callback were overwritten by later ones")
            # reference: the same optimizer on a private copy wrapped in a tuple (flatten copies containers)
            ref = opt(lambda x, i: (g(x[0], i),), (keep.copy(),), num_iters=6, step_size=0.05)[0]
            rr = onp.array(r[0] if isinstance(r, list) else r)
            if not onp.allclose(rr, ref, rtol=1e-12, atol=1e-12):
                problems.append("result differs from the run on a private copy")
            out.append(_res(key, not problems, "; ".join(problems)))
    # fixed_point: x* = sqrt(a) through Newton's iteration, d x*/da = 1/(2 sqrt a); vector version
    newton = lambda a: lambda x: 0.5 * (x + a / x)
    dist = lambda x, y: np.max(np.abs(x - y))
    for a0 in (onp.array([2.0, 3.0, 0.7]), 5.0):
        key = "MISC fixed_points.fixed_point | sqrt by Newton iteration, a=%r" % (a0,)
        try:
            f = lambda a: np.sum(fixed_point(newton, a, a * 0.0 + 1.0, dist, 1e-12))
            got = grad(f)(a0)
            want = 0.5 / onp.sqrt(a0)
            ok = onp.allclose(got, want, rtol=1e-6) and onp.shape(got) == onp.shape(a0)
            out.append(_res(key, ok, "" if ok else "gradient %r, expected %r" % (got, want)))
        except Exception as e:
            out.append(_res(key, False, "raised %s: %s" % (type(e).__name__, e)))
    return out


def run_out_buffers(seed=0):
    """calls that hand NumPy an out= buffer: the forward pass fills the caller's buffer (that is what out= means); the
    backward pass must not touch it again, the VJP function stays reusable, and the derivative is right"""
    import numpy as onp
    import autograd.numpy as np
    from autograd import make_vjp

    warnings.filterwarnings("ignore")
    rs = onp.random.RandomState(seed + 3)
    out = []
    X = rs.randn(3, 3)
    cases = [
        ("einsum('ij,jk->ik', x, x, out=buf)", lambda x, buf: np.einsum("ij,jk->ik", x, x, out=buf), lambda x, g: g @ x.T + x.T @ g),
        ("einsum('ij,jk->ik', x, A, out=buf, optimize=True)", lambda x, buf: np.einsum("ij,jk->ik", x, X, out=buf, optimize=True), lambda x, g: g @ X.T),
        ("multiply(x, x, out=buf)", lambda x, buf: np.multiply(x, x, out=buf), lambda x, g: 2.0 * x * g),
        ("add(x, A, out=buf) * x", lambda x, buf: np.add(x, X, out=buf) * x, None),
        ("dot(x, x, out=buf)", lambda x, buf: np.dot(x, x, out=buf), lambda x, g: g @ x.T + x.T @ g),
        ("matmul(x, A, out=buf)", lambda x, buf: np.matmul(x, X, out=buf), lambda x, g: g @ X.T),
        ("sum(x * x, axis=0, out=buf[0])", lambda x, buf: np.sum(x * x, axis=0, out=buf[0]), lambda x, g: 2.0 * x * g[None, :]),
    ]
    for lab, f, closed in cases:
        key = "MISC out= buffer | %s" % lab
        x = rs.randn(3, 3)
        buf = onp.zeros((3, 3))
        try:
            vjp, y = make_vjp(lambda z: f(z, buf))(x)
            y0 = onp.array(y, copy=True)
            g1, g2 = rs.randn(*onp.shape(y)), rs.randn(*onp.shape(y))
            r1 = vjp(g1)
            r1c = onp.array(r1, copy=True)
            vjp(g2)
            r3 = vjp(g1)
            problems = []
            if not onp.array_equal(onp.asarray(y), y0):
                problems.append("the forward result handed to the caller (the out= buffer) was overwritten by the backward pass")
            if not onp.array_equal(onp.asarray(r1), r1c):
                problems.append("the array returned by the first VJP call was overwritten by a later call")
            if not onp.allclose(r3, r1c, rtol=1e-12, atol=1e-12):
                problems.append("a repeated VJP call returned a different answer")
            if closed is not None and not onp.allclose(r1c, closed(x, g1), rtol=1e-9, atol=1e-10):
                problems.append("the VJP differs from the closed form")
            out.append(_res(key, not problems, "; ".join(problems)))
        except Exception as e:
            out.append({"key": key, "status": "raises", "detail": "%s: %s" % (type(e).__name__, str(e)[:100]), "paths": 1, "queries": 0, "validated": 0, "verdicts": {}, "prim": "misc"})
    return out


def run_nested(seed=0):
    """nested differentiation through autograd.misc.fixed_points.fixed_point (its reverse rule is itself built from
    nested make_vjp calls and an inner fixed point): orders 2 and 3 of sqrt by Newton's iteration, a Hessian-vector
    product of a vector version, against closed forms"""
    import numpy as onp
    import autograd.numpy as np
    from autograd import grad, make_hvp
    from autograd.misc.fixed_points import fixed_point
    from autograd.tracer import isbox

    warnings.filterwarnings("ignore")
    out = []
    newton = lambda a: lambda x: 0.5 * (x + a / x)
    dist = lambda x, y: np.max(np.abs(x - y))
    sq = lambda a: fixed_point(newton, a, a * 0.0 + 1.0, dist, 1e-12)
    for order, want in ((2, -0.25 * 2.0 ** -1.5), (3, 0.375 * 2.0 ** -2.5)):
        key = "MISC fixed_points.fixed_point | derivative of order %d of sqrt by Newton iteration at a=2 (nested reverse mode)" % order
        try:
            f = sq
            for _ in range(order):
                f = grad(f)
            got = f(2.0)
            ok = (not isbox(got)) and abs(float(got) - want) <= 1e-5 * max(1.0, abs(want))
            out.append(_res(key, ok, "" if ok else "got %r, closed form %r" % (got, want)))
        except Exception as e:
            out.append(_res(key, False, "raised %s: %s" % (type(e).__name__, e)))
    key = "MISC fixed_points.fixed_point | Hessian-vector product of sum(sqrt(a)) (vector Newton iteration)"
    try:
        a0 = onp.array([2.0, 3.0, 0.7])
        v = onp.array([1.0, -2.0, 0.5])
        got = make_hvp(lambda a: np.sum(sq(a)))(a0)[0](v)
        want = -0.25 * a0 ** -1.5 * v
        ok = (not isbox(got)) and onp.allclose(onp.asarray(got, dtype=float), want, rtol=1e-5, atol=1e-8)
        out.append(_res(key, ok, "" if ok else "got %r, closed form %r" % (got, want)))
    except Exception as e:
        out.append(_res(key, False, "raised %s: %s" % (type(e).__name__, e)))
    return out


if __name__ == "__main__":
    for r in run() + run_nested() + run_out_buffers():
        print(r["status"], r["key"], r["detail"])
