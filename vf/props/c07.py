"""C07 — derivatives of derivatives: higher-order and mixed-mode differentiation is exact (Engine A, nested duals)."""
from .. import checks_a, grid
from .gridprop import GridProp

def _check(cfg, tier):
    if "nested" in cfg.tags:
        # programs that already contain one or two differentiations (incl. the library's own second-order operators
        # with non-default argnum): their reverse-mode derivative against the closed-form oracle
        return checks_a.check_vjp(cfg, tier)
    return checks_a.check_second_order(cfg, tier)


GridProp(
    "C07", "vf.props.c07", lambda tier: grid.second_order_grid(tier) + grid.nested_grid(tier), _check,
    files=["autograd/numpy/numpy_vjps.py", "autograd/numpy/numpy_jvps.py", "autograd/core.py", "autograd/builtins.py", "autograd/numpy/fft.py", "autograd/numpy/linalg.py", "autograd/tracer.py"],
    functions=["nested make_vjp / make_jvp through the public API (4 mode sequences)", "adjoint helper primitives and their own rules: dot_adjoint_*, tensordot_adjoint_*, untake, truncate_pad",
               "VSpace.add / mut_add / scalar_mul / inner_prod / covector, sparse_add (primitives with rules, traced when a rule is itself differentiated)", "every VJP/JVP rule reached when a rule body is traced"],
    bounds={"order": "2 (both directions symbolic)", "input size": "<= 4 entries (thorough: 6)", "configurations per primitive": "6 (quick) / 30 (thorough) + the program grid",
            "outside": "orders >= 3, larger inputs"},
    claims=["oracle: the eps1*eps2 coefficient of NumPy's primal on x + eps1 u + eps2 w (nilpotent eps1, eps2) = D2f[u,w]",
            "for all x, u, w, g: jvp-of-jvp == D2f[u,w]; <vjp-of-jvp, w> == <jvp-of-vjp, u> == <vjp-of-vjp(u), w> == <g, D2f[u,w]> (hence the three Hessian-vector products agree and the Hessian is symmetric); queries split over unit directions by multilinearity"],
    selftest=False,
).export(globals())

_grid_main = main


def main(tier, only=None):
    """the grid check, plus the float64 probe of the LAPACK-backed primitives (outside the symbolic engine)"""
    import os
    from .. import runner as _r

    os.environ["VF_EXTRA_RESULTS"] = "vf.props.lapack_probe,vf.props.pinned_nested"
    return _grid_main(tier, only=only)

