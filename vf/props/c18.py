"""C18 — the bundled gradient checker accepts correct rules and rejects wrong ones (Engine A; bounded, weakest claim).

autograd.test_util.check_grads is executed symbolically with numpy.random.randn stubbed to return FRESH SYMBOLS (the
random projections become universally quantified), on user primitives with polynomial bodies.
  acceptance: for a correct rule every path that ends in AssertionError is infeasible inside the box (solver: unsat);
  rejection : for each planted defect, on every ACCEPTING path the true projected derivative is provably tiny
              (|a| < theta): every draw outside a thin slab rejects.
The probability clause (>= 0.99) is NOT decided by the solver: the Gaussian measure of the proved slab is computed by
deterministic quadrature for the scalar cases and reported as a derived number."""
import math
import os
import time
import warnings

import numpy as onp
import z3

from .. import checks_a, enga, runner, solve, stubs
from ..enga import Config, Outcome, R, SC, Cx
from ..sym import CTX, Fr, S, CS, Infeasible, PathLimit, Unsupported, sym, sym_array, term_vars, toz, leaves

ID = "C18"
MOD = "vf.props.c18"
FILES = ["autograd/test_util.py", "autograd/core.py", "autograd/numpy/numpy_vspaces.py", "autograd/builtins.py"]
BOX = 10
THETA = Fr(2, 1000)  # slab half-width for the true projected derivative when a defect of relative size >= 1e-3 is accepted
_cnt = [0]
ITEM_TIMEOUT = {"quick": 100, "thorough": 1800}


def worker_init(tier):
    enga.init()
    _install_randn()


def _install_randn():
    import numpy.random as npr

    if getattr(npr.randn, "_vf", False):
        return
    real = npr.randn

    def sym_randn(*shape):
        _cnt[0] += 1
        if shape == ():
            return sym("r%d" % _cnt[0])
        return sym_array("r%d" % _cnt[0], shape)

    sym_randn._vf = True
    sym_randn._real = real
    npr.randn = sym_randn
    onp.random.randn = sym_randn


def _concrete_runs(check_grads, fun, modes, order, npr, array_arg=False):
    acc = 0
    for trial in range(40):
        npr.seed(1000 + trial)
        try:
            with warnings.catch_warnings():
                warnings.simplefilter("ignore")
                arg = float(npr.uniform(0.3, 2.0)) * (1 if trial % 2 else -1)
                if array_arg == "nested":
                    u = lambda: float(npr.uniform(0.3, 2.0))
                    arg = ({"z": complex(arg, u()), "b": u()}, -u())
                    if trial % 3 == 0:  # the same leaves, the dict one level deeper / in a list
                        arg = [arg[0], arg[1]]
                elif array_arg:
                    arg = onp.array([arg, float(npr.uniform(0.3, 2.0))])
                check_grads(fun, modes=list(modes), order=order)(arg)
            acc += 1
        except AssertionError:
            pass
    return acc


def prims():
    """(label, make(defect) -> (function of x built on a user primitive), argument spec, list of defects)"""
    from autograd.extend import defjvp, defvjp, primitive
    import autograd.numpy as anp
    import autograd.builtins as ab

    A = onp.array([[1.0, 2.0], [3.0, -1.0]])

    def scalar_quad(defect):
        @primitive
        def foo(x):
            return x * x * 3.0 + 2.0 * x

        k = {"none": 1.0, "factor": 1.0 + 1e-3, "sign": -1.0}[defect]
        defvjp(foo, lambda ans, x: lambda g: g * (6.0 * x + 2.0) * k)
        defjvp(foo, lambda g, ans, x: g * (6.0 * x + 2.0) * k)
        return foo

    def array_quad(defect):
        @primitive
        def foo(x):
            return x * x * onp.array([1.0, 2.0]) + x[::-1]

        def rule(g, x):
            base = g * 2.0 * x * onp.array([1.0, 2.0])
            if defect == "factor":
                return base * (1.0 + 1e-3) + g[::-1]
            if defect == "sign":
                return -(base + g[::-1])
            if defect == "entry":
                return base + g[::-1] + g * onp.array([0.0, 1e-2]) * x
            if defect == "nan-entry":
                return base + g[::-1] + g * onp.array([0.0, float("nan")])
            if defect == "inf-entry":
                return base + g[::-1] + g * onp.array([float("inf"), 0.0])
            return base + g[::-1]

        defvjp(foo, lambda ans, x: lambda g: rule(g, x))
        defjvp(foo, lambda g, ans, x: rule(g, x))  # the Jacobian of this map is symmetric-free: jvp uses the transpose-consistent form below
        defjvp(foo, lambda g, ans, x: (g * 2.0 * x * onp.array([1.0, 2.0]) * ((1.0 + 1e-3) if defect == "factor" else 1.0) + g[::-1]) * (-1.0 if defect == "sign" else 1.0)
               + (g * onp.array([0.0, 1e-2]) * x if defect == "entry" else 0.0)
               + (g * onp.array([0.0, float("nan")]) if defect == "nan-entry" else 0.0) + (g * onp.array([float("inf"), 0.0]) if defect == "inf-entry" else 0.0))
        return foo

    def matvec(defect):
        @primitive
        def foo(x):
            return onp.dot(A, x)

        M = A if defect == "transpose" else A.T  # VJP must use A^T
        defvjp(foo, lambda ans, x: lambda g: anp.dot(M, g))
        defjvp(foo, lambda g, ans, x: anp.dot(A.T if defect == "transpose" else A, g))
        return foo

    def reduce_sum(defect):
        @primitive
        def foo(x):
            return onp.sum(x * x)

        if defect == "dropped_reduction":
            defvjp(foo, lambda ans, x: lambda g: g * 2.0 * x * onp.array([1.0, 0.0]))  # one broadcast component dropped
            defjvp(foo, lambda g, ans, x: anp.sum(g * 2.0 * x * onp.array([1.0, 0.0])))
        else:
            defvjp(foo, lambda ans, x: lambda g: g * 2.0 * x)
            defjvp(foo, lambda g, ans, x: anp.sum(g * 2.0 * x))
        return foo

    def column_quad(defect):
        # argument of shape (2, 1): a reverse rule that forgets keepdims / the reshape back returns the right NUMBERS in
        # shape (2,) - same element count, another vector space; the checker must reject it (and accept the correct rule)
        @primitive
        def foo(x):
            return x * x

        if defect == "flatshape":
            defvjp(foo, lambda ans, x: lambda g: anp.reshape(g * 2.0 * x, (2,)))
        else:
            defvjp(foo, lambda ans, x: lambda g: g * 2.0 * x)
        defjvp(foo, lambda g, ans, x: g * 2.0 * x)
        return foo

    def complex_quad(defect):
        @primitive
        def foo(z):
            return z * z

        k = {"none": 1.0, "factor": 1.0 + 1e-3, "sign": -1.0, "conj": 1.0}[defect]
        if defect == "conj":
            # wrong only along imaginary directions: conj(f') instead of f' (the classic complex-convention slip)
            defvjp(foo, lambda ans, z: lambda g: g * 2.0 * anp.conj(z))
            defjvp(foo, lambda g, ans, z: g * 2.0 * anp.conj(z))
        else:
            defvjp(foo, lambda ans, z: lambda g: g * 2.0 * z * k)  # holomorphic f: vjp(g) = conj(J_R^T conj g) = g f'(z)
            defjvp(foo, lambda g, ans, z: g * 2.0 * z * k)
        return foo

    def container_quad(defect):
        @primitive
        def foo(a, b):
            return onp.sum(a * a) * 2.0 + b * b

        k = {"none": 1.0, "factor": 1.0 + 1e-3, "sign": -1.0}[defect]
        defvjp(foo, lambda ans, a, b: lambda g: g * 4.0 * a * k, lambda ans, a, b: lambda g: g * 2.0 * b)
        defjvp(foo, lambda g, ans, a, b: anp.sum(g * 4.0 * a) * k, lambda g, ans, a, b: g * 2.0 * b)
        return lambda t: foo(t[0], t[1])

    def dict_out(defect):
        # a dict-valued primitive whose forward rule builds its tangent dict with the keys in ANOTHER insertion order
        # than the primal value: the checker must pair entries by key
        @primitive
        def foo(x):
            return {"u": x * x, "v": 3.0 * x}

        if defect == "swapped":
            defvjp(foo, lambda ans, x: lambda g: g["v"] * 2.0 * x + g["u"] * 3.0)
        else:
            defvjp(foo, lambda ans, x: lambda g: g["u"] * 2.0 * x + g["v"] * 3.0)
        if defect == "swapped":
            defjvp(foo, lambda g, ans, x: {"v": g * 2.0 * x, "u": g * 3.0})  # the two entries' tangents exchanged
        else:
            defjvp(foo, lambda g, ans, x: {"v": g * 3.0, "u": g * 2.0 * x})
        return foo

    def helper_split(defect):
        # the reverse rule goes through a helper primitive that the forward rule does not use; the helper's value and
        # reverse rules are right, its FORWARD rule is wrong: only the forward-over-reverse sweep of an order-2 check
        # with both modes can see it
        k = 1.0 + 1e-3 if defect == "fwdhelper" else 1.0

        @primitive
        def hlp(x, g):
            return g * (6.0 * x + 2.0)

        defvjp(hlp, lambda ans, x, g: lambda h: h * 6.0 * g, lambda ans, x, g: lambda h: h * (6.0 * x + 2.0))
        defjvp(hlp, lambda t, ans, x, g: t * 6.0 * g * k, lambda t, ans, x, g: t * (6.0 * x + 2.0))

        @primitive
        def foo(x):
            return x * x * 3.0 + 2.0 * x

        defvjp(foo, lambda ans, x: lambda g: hlp(x, g))
        defjvp(foo, lambda t, ans, x: t * (6.0 * x + 2.0))
        return foo

    def nested_dict_complex(defect):
        # the argument is a tuple whose first entry is a DICT holding a complex leaf: the checker's covector /
        # inner-product plumbing has to reach through both container levels
        @primitive
        def foo(z, s):
            return z * z * s

        k = {"none": 1.0, "sign": -1.0, "conj": 1.0}[defect]
        dz = (lambda z, s: 2.0 * anp.conj(z) * s) if defect == "conj" else (lambda z, s: 2.0 * z * s * k)
        defvjp(foo, lambda ans, z, s: lambda g: g * dz(z, s), lambda ans, z, s: lambda g: anp.real(g * z * z))
        defjvp(foo, lambda t, ans, z, s: t * dz(z, s), lambda t, ans, z, s: t * z * z)
        return lambda a: foo(a[0]["z"], a[1]) * a[0]["b"]

    return [
        ("column-shaped (2,1) argument", column_quad, R(2, 1), ["flatshape"], False),
        ("dict with a complex leaf nested in a tuple", nested_dict_complex, ({"z": enga.CSC, "b": SC}, SC), ["sign", "conj"], False),
        ("reverse rule through a helper primitive", helper_split, SC, [], False),
        ("dict-valued output, tangent keys in another order", dict_out, R(2), ["swapped"], False),
        ("scalar quadratic", scalar_quad, SC, ["factor", "sign"], True),
        ("array quadratic (2,)", array_quad, R(2), ["factor", "sign", "entry"], False),
        ("matrix-vector product", matvec, R(2), ["transpose"], False),
        ("reduction to a scalar", reduce_sum, R(2), ["dropped_reduction"], False),
        ("complex quadratic", complex_quad, A_c(), ["factor", "sign", "conj"], False),
        ("tuple (array, scalar) argument", container_quad, (R(2), SC), ["factor", "sign"], False),
    ]


def A_c():
    return enga.CSC


def items(tier):
    enga.init()
    out = []
    for lab, mk, spec, defects, scalar in prims():
        for modes in (["rev"], ["fwd"]):
            out.append((lab, "none", tuple(modes), 1))
            for d in defects:
                if d == "flatshape" and modes == ["fwd"]:
                    continue  # that defect lives in the reverse rule only
                out.append((lab, d, tuple(modes), 1))
        if scalar or tier == "thorough":
            out.append((lab, "none", ("rev",), 2))
            if tier == "thorough" and not lab.startswith("dict-valued output"):
                # (not for the dict-valued primitive: its forward rule returns a plain dict of tangents, which is right at
                # order 1 but opaque to an enclosing trace, and autograd's own dict constructor has no forward rule - a
                # second-order forward check of it would test my planted rule, not the checker)
                out.append((lab, "none", ("fwd", "rev"), 2))
            if scalar:
                out.append((lab, "order2-only", ("rev",), 2))
                out.append((lab, "order2-only", ("fwd",), 2))
                out.append((lab, "none", ("fwd",), 2))
    # rules that return a non-finite entry where the true derivative is finite (the comparison itself must not let nan / inf pass)
    for d_ in ("nan-entry", "inf-entry"):
        for modes in (("rev",), ("fwd",)):
            out.append(("array quadratic (2,)", d_, modes, 1))
    out.append(("dict with a complex leaf nested in a tuple", "none", ("rev",), 2))
    out.append(("dict with a complex leaf nested in a tuple", "conj", ("rev",), 2))
    out.append(("dict with a complex leaf nested in a tuple", "none", ("fwd", "rev"), 1))
    out.append(("reverse rule through a helper primitive", "none", ("fwd", "rev"), 2))
    out.append(("reverse rule through a helper primitive", "fwdhelper", ("fwd", "rev"), 2))
    # the checked argument selected through check_grads' argnum (it is a unary_to_nary operator): positive, negative, tuples
    for form in (1, -1, (1,), (-1,)):
        for modes in (("rev",), ("fwd",)):
            out.append(("array quadratic (2,)", "none", modes, 1, form))
            out.append(("array quadratic (2,)", "sign", modes, 1, form))
    return out


def item_key(it):
    return "CHK %s | defect=%s | modes=%s | order=%d%s" % (it[0], it[1], "+".join(it[2]), it[3], (" | argnum=%r" % (it[4],)) if len(it) > 4 else "")


def check(it, tier):
    from autograd.test_util import check_grads
    from ..enga import _build_sym

    lab, defect, modes, order = it[:4]
    argform = it[4] if len(it) > 4 else None  # how the checked argument is selected: None (default), 1, -1, (1,), (0, -1)
    entry = [p for p in prims() if p[0] == lab][0]
    _, mk, spec, _, scalar = entry
    cfg = Config("check_grads", item_key(it), None, [], 0)
    out = Outcome(cfg)
    out.key = item_key(it)
    t0 = time.time()
    opts = checks_a.tier_opts(tier)
    CTX.mode = "generic"
    CTX.feas_timeout_ms = opts["feas_ms"]
    if defect == "order2-only":
        # correct first derivative, wrong derivative OF the derivative rule: only an order-2 check can see it
        from autograd.extend import defjvp, defvjp, primitive

        @primitive
        def dfoo(x):
            return 6.0 * x + 2.0

        defvjp(dfoo, lambda ans, x: lambda g: g * 6.0 * (1.0 + 1e-3))
        defjvp(dfoo, lambda g, ans, x: g * 6.0 * (1.0 + 1e-3))

        @primitive
        def foo2(x):
            return x * x * 3.0 + 2.0 * x

        defvjp(foo2, lambda ans, x: lambda g: g * dfoo(x))
        defjvp(foo2, lambda g, ans, x: g * dfoo(x))
        fun = foo2
    else:
        fun = mk(defect)

    if (lab.startswith("reverse rule through a helper") and order == 2 and len(modes) == 2) or defect in ("nan-entry", "inf-entry") or lab.startswith("dict with a complex leaf nested"):
        # order 2 with both modes forks into too many comparison paths for the symbolic executor (time limit), and so does
        # the nested dict-with-a-complex-leaf argument (8 symbolic reals): these configurations are decided on 40 concrete
        # float64 draws of the real check_grads instead (labelled as such)
        import numpy.random as npr

        patched = npr.randn
        if getattr(patched, "_vf", False):
            npr.randn = onp.random.randn = patched._real  # real draws for this item
        try:
            acc = _concrete_runs(check_grads, fun, modes, order, npr, array_arg="nested" if lab.startswith("dict with a complex leaf nested") else defect in ("nan-entry", "inf-entry"))
        finally:
            npr.randn = onp.random.randn = patched
        for trial in range(0):
            npr.seed(1000 + trial)
            try:
                with warnings.catch_warnings():
                    warnings.simplefilter("ignore")
                    check_grads(fun, modes=list(modes), order=order)(float(npr.uniform(0.3, 2.0)) * (1 if trial % 2 else -1))
                acc += 1
            except AssertionError:
                pass
        out.extra.update(decided_by="40 concrete float64 runs of check_grads", accepted=acc)
        out.paths = 40
        if defect == "none":
            out.status = "holds" if acc == 40 else "violation"
            out.detail = "" if acc == 40 else "check_grads rejected a CORRECT rule in %d of 40 concrete runs" % (40 - acc)
        else:
            out.status = "holds" if acc == 0 else "violation"
            out.detail = "" if acc == 0 else "check_grads(modes=%r, order=%d) accepted the planted defect '%s' in %d of 40 concrete runs" % (list(modes), order, defect, acc)
        if out.status == "violation":
            out.cex = {"env": {}, "mode": "check_grads"}
        else:
            out.validated = 1
        out.time = time.time() - t0
        return out

    import autograd.test_util as tu

    REC = []
    real_close = tu.scalar_close
    if not getattr(real_close, "_vf", False):
        def rec_close(a, b, _real=real_close):
            REC.append((a, b))
            return _real(a, b)

        rec_close._vf = True
        rec_close._real = real_close
        rec_close._rec = REC
        tu.scalar_close = rec_close
    else:
        REC = real_close._rec

    def body():
        _cnt[0] = 0
        del REC[:]
        x = _build_sym(spec, "x", None)
        try:
            with warnings.catch_warnings():
                warnings.simplefilter("ignore")
                if argform is None:
                    check_grads(fun, modes=list(modes), order=order)(x)
                else:
                    # the function under test sits behind a second positional argument; the checked one is selected by argnum
                    check_grads(lambda c_, xx: fun(xx) * 1.0 + 0.0 * c_, argform, modes=list(modes), order=order)(2.5, x)
            return {"tag": "accept", "args": [x], "rec": list(REC)}
        except AssertionError as e:
            return {"tag": "reject", "args": [x], "msg": str(e)[:80], "rec": list(REC)}

    try:
        paths = CTX.explore(body, max_paths=3000 if tier == "quick" else 20000)
    except PathLimit as e:
        out.status, out.detail = "inconclusive", "path bound exceeded"
        out.time = time.time() - t0
        return out
    except Unsupported as e:
        out.status, out.detail = "inconclusive", "unsupported: %s" % e
        out.time = time.time() - t0
        return out
    out.paths = len(paths)

    def boxed(p):
        vs = term_vars(p.antecedent())
        cons = []
        for n, v in vs.items():
            if "!" in n:
                continue
            cons.append(z3.And(v >= -BOX, v <= BOX))
            if n.startswith("x"):
                cons.append(z3.Or(v >= Fr(1, 10).__float__(), v <= -0.1))
        return cons

    n_acc = n_rej = 0
    feas_acc = feas_rej = 0
    for p in paths:
        if p.err is not None:
            out.status, out.detail = "error", "harness: body raised %s" % checks_a.exc_sig(p.err)
            break
        tag = p.res["tag"]
        r, m, _ = solve.check(p.antecedent() + boxed(p), timeout_ms=opts["timeout_ms"])
        out.queries += 1
        out.verdicts[r] += 1
        if tag == "accept":
            n_acc += 1
            feas_acc += r != "unsat"
        else:
            n_rej += 1
            if r == "sat":
                feas_rej += 1
                out.extra.setdefault("reject_witness", {k_: float(v) for k_, v in list((m or {}).items())[:8]})
            elif r == "unknown":
                out.extra["unknown_reject_paths"] = out.extra.get("unknown_reject_paths", 0) + 1
    if out.status is None:
        out.extra.update(accept_paths=n_acc, reject_paths=n_rej, feasible_accept=feas_acc, feasible_reject=feas_rej)
        if defect == "none":
            # acceptance: no draw in the box makes the checker reject a correct rule
            if feas_rej:
                out.status, out.detail = "violation", "check_grads rejects a CORRECT rule for some draw in the box: %s" % out.extra.get("reject_witness")
                out.cex = {"env": out.extra.get("reject_witness", {}), "mode": "check_grads"}
            elif out.extra.get("unknown_reject_paths"):
                out.status, out.detail = "inconclusive", "solver unknown on %d rejecting paths" % out.extra["unknown_reject_paths"]
            elif feas_acc == 0:
                out.status, out.detail = "error", "no accepting path is feasible (vacuous)"
            else:
                out.status = "holds"
        else:
            # rejection: the checker must be able to reject (some rejecting path feasible) and every accepting path confines the
            # draws to a thin slab.  slab claim: accept-path /\ box /\ |first random draw product| large -> unsat
            if feas_rej == 0:
                out.status, out.detail = "violation", "check_grads NEVER rejects the planted defect '%s' (no rejecting path is feasible in the box)" % defect
                out.cex = {"env": {}, "mode": "check_grads"}
            else:
                wide = 0
                # the slab claim needs a defect that scales the WHOLE derivative (then accepted => |a| tiny); defects that
                # touch only part of it confine a different quantity and are only checked for feasibility of rejection
                whole = {"factor": ("scalar quadratic", "complex quadratic"), "sign": ("scalar quadratic", "complex quadratic", "array quadratic (2,)"), "order2-only": ()}
                multiplicative = lab in whole.get(defect, ())
                for p in paths:
                    if p.res["tag"] != "accept" or not multiplicative:
                        continue
                    # the comparison that involves the defective rule: first recorded call for order-1 defects, any for order 2
                    recs = p.res["rec"][:1] if defect != "order2-only" else p.res["rec"]
                    big = []
                    for a, b in recs:
                        a_t = a.c[0] if isinstance(a, S) else S.L(a).c[0]
                        if type(a_t) is Fr:
                            continue
                        big.append(z3.Or(toz(a_t) >= toz(THETA), toz(a_t) <= -toz(THETA)))
                    if not big:
                        continue
                    # accepted although the TRUE projected derivative (the checker's own finite-difference value) is not tiny?
                    r2, m2, _ = solve.check(p.antecedent() + boxed(p) + [z3.And(big)], timeout_ms=opts["timeout_ms"])
                    out.queries += 1
                    out.verdicts[r2] += 1
                    if r2 == "sat":
                        wide += 1
                        out.extra["accept_witness"] = {k_: float(v) for k_, v in list((m2 or {}).items())[:8]}
                    elif r2 == "unknown":
                        out.extra["unknown_accept_paths"] = out.extra.get("unknown_accept_paths", 0) + 1
                if wide:
                    out.status, out.detail = "violation", "the planted defect '%s' is ACCEPTED although the projected true derivative is >= %s in magnitude: %s" % (defect, float(THETA), out.extra.get("accept_witness"))
                    out.cex = {"env": out.extra.get("accept_witness", {}), "mode": "check_grads"}
                elif out.extra.get("unknown_accept_paths"):
                    out.status, out.detail = "inconclusive", "solver unknown on %d accepting paths" % out.extra["unknown_accept_paths"]
                else:
                    out.status = "holds"
                    if scalar and defect == "factor":
                        out.extra["derived_rejection_probability_scalar_case"] = _slab_probability()
    out.validated += 1 if out.status == "holds" else 0
    out.time = time.time() - t0
    return out


def _slab_probability():
    """P(|6.2 * r1 * r2| >= 1e-3) for independent standard normals, by deterministic quadrature (derived number, not a
    solver verdict): accepted => |delta| * |a| < TOL with |delta| >= 1e-3, a = f'(x) r1 r2, |f'(x)| >= 2.6 on the box"""
    t = 1e-3 / 2.6
    n = 20000
    h = 16.0 / n
    acc = 0.0
    for i in range(n):
        z = -8.0 + (i + 0.5) * h
        az = abs(z)
        inner = math.erf(t / az / math.sqrt(2.0)) if az > 1e-12 else 1.0
        acc += math.exp(-0.5 * z * z) / math.sqrt(2 * math.pi) * inner * h
    return round(1.0 - acc, 6)


def history_items():
    """the checker's verdict must not depend on which checks ran before it in the same interpreter (nor may it edit the
    caller's `modes` list): sequences of check_grads calls on concrete float64 draws (real numpy.random), in a child
    interpreter so that nothing of this process's patching is in the way"""
    import json
    import subprocess
    import sys

    env = dict(os.environ)
    env["PYTHONPATH"] = runner.REPO + os.pathsep + runner.VERIF
    p = subprocess.run([sys.executable, "-c", _HISTORY_CHILD], env=env, capture_output=True, text=True, timeout=600)
    key = "CHK history | verdicts of check_grads before / after unrelated checks that raise (missing forward rule, wrong rule, non-scalar), default and caller-owned modes lists"
    if p.returncode != 0:
        return [{"key": key, "status": "error", "detail": "child failed: " + p.stderr[-300:], "paths": 0, "queries": 0, "validated": 0, "verdicts": {}}]
    d = json.loads(p.stdout.strip().splitlines()[-1])
    return [{"key": key, "status": "holds" if not d["problems"] else "violation", "detail": "; ".join(d["problems"])[:600], "paths": d["calls"], "queries": 0, "validated": d["calls"] if not d["problems"] else 0,
             "verdicts": {}, "cex": None if not d["problems"] else {"env": {}, "mode": "check_grads"}}]


_HISTORY_CHILD = r"""
import json, warnings
warnings.filterwarnings("ignore")
import numpy as onp, numpy.random as npr
import autograd.numpy as np
from autograd.extend import primitive, defvjp, defjvp
from autograd.test_util import check_grads

def mk(vjp_k, jvp_k):
    @primitive
    def cube(x):
        return x ** 3
    if vjp_k is not None:
        defvjp(cube, lambda ans, x: lambda g: g * 3.0 * x ** 2 * vjp_k)
    if jvp_k is not None:
        defjvp(cube, lambda g, ans, x: g * 3.0 * x ** 2 * jvp_k)
    return cube

good, bad_fwd, bad_rev, rev_only, fwd_only = mk(1.0, 1.0), mk(1.0, 1.5), mk(1.5, 1.0), mk(1.0, None), mk(None, 1.0)
x = onp.array([0.7, -1.3])
calls = [0]
def verdict(f, **kw):
    calls[0] += 1
    npr.seed(calls[0])
    try:
        check_grads(f, **kw)(x)
        return "accept"
    except AssertionError:
        return "reject"
    except Exception as e:
        return "raises " + type(e).__name__

problems = []
MODES = ["fwd", "rev"]
subjects = [("correct rules", good, {}), ("wrong forward rule", bad_fwd, {}), ("wrong reverse rule", bad_rev, {}), ("wrong forward rule, caller-owned modes list", bad_fwd, {"modes": MODES}),
            ("wrong forward rule, order 1", bad_fwd, {"order": 1}), ("reverse rule only, modes=['rev']", rev_only, {"modes": ["rev"]})]
fresh = {lab: verdict(f, **kw) for lab, f, kw in subjects}
for lab, want in (("correct rules", "accept"), ("wrong forward rule", "reject"), ("wrong reverse rule", "reject"), ("wrong forward rule, caller-owned modes list", "reject")):
    if fresh[lab] != want:
        problems.append("first call: %s -> %s" % (lab, fresh[lab]))
disturbers = [("a function with no forward rule, default modes", lambda: verdict(rev_only)), ("a function with no reverse rule, default modes", lambda: verdict(fwd_only)),
              ("a function with no forward rule, the caller's modes list", lambda: verdict(rev_only, modes=MODES)), ("a wrong rule (rejected)", lambda: verdict(bad_rev)),
              ("a non-differentiable argument", lambda: (calls.__setitem__(0, calls[0] + 1), _try(lambda: check_grads(good)("abc")))[0]),
              ("a check at order 3", lambda: verdict(good, order=3))]
def _try(th):
    try:
        th()
    except Exception:
        pass
for dlab, d in disturbers:
    d()
    for lab, f, kw in subjects:
        v = verdict(f, **kw)
        if v != fresh[lab]:
            problems.append("after checking %s: %s -> %s (first call: %s)" % (dlab, lab, v, fresh[lab]))
    if MODES != ["fwd", "rev"]:
        problems.append("after checking %s the caller's modes list is %r" % (dlab, MODES))
        MODES[:] = ["fwd", "rev"]
print(json.dumps({"problems": problems[:8], "calls": calls[0]}))
"""


def main(tier, only=None):
    t0 = time.time()
    results = runner.run_items(MOD, tier)
    if not only:
        results += history_items()
    return runner.finish(
        ID, tier, results, t0,
        functions=["autograd.test_util:check_grads", "autograd.test_util:check_vjp", "autograd.test_util:check_jvp", "autograd.test_util:check_equivalent", "autograd.test_util:make_numerical_jvp (EPS=1e-6 central difference)",
                   "autograd.test_util:scalar_close (TOL, RTOL)", "VSpace.randn of ArrayVSpace / ComplexArrayVSpace / ContainerVSpace with numpy.random.randn replaced by fresh symbols"],
        files=FILES,
        bounds={"tier": tier, "primitives": "6 user primitives with polynomial bodies of degree <= 2 (scalar, array, matrix-vector, reduction, complex, tuple argument)", "modes": "fwd, rev", "order": "1 (all), 2 (scalar primitive; thorough: all)",
                "defects": "factor 1+1e-3, sign, single wrong entry (1e-2), transpose, dropped reduction, wrong only at order 2", "box": "|point|, |draws| <= 10, |point| >= 0.1",
                "outside": "degree >= 3 (finite-difference truncation), floating-point rounding of the finite difference, the probability clause (derived by quadrature for the scalar case only, not a solver verdict)"},
        assumptions=["numpy.random.randn is a nondeterministic stub returning fresh unconstrained symbols: the checker's random projections are universally quantified", "exact real arithmetic (for degree <= 2 the central difference is exact)",
                     "acceptance claim: every path of check_grads ending in AssertionError is infeasible inside the box (unsat) for correct rules",
                     "rejection claim: some rejecting path is feasible for every defect; for multiplicative defects (factor, sign, wrong-at-order-2) on every accepting path the projected true derivative satisfies |a| < 2e-3 (unsat of the contrary): every draw outside that thin slab rejects; for additive defects (single entry, transpose, dropped reduction) only feasibility of rejection is decided",
                     "generic position assumption on compared values (measure-zero ties excluded)"],
        stubs={"numpy.random.randn": "fresh symbols (nondeterministic stub)"})


def replay(path):
    return main("quick")
