"""C11 — indexing gradients scatter exactly and combine with dense ones in any order (Engine A + B)."""
import os
import time

from .. import checks_a, enga, grid, runner, stubs
from ..ch import run as chrun
from . import gridprop

ID = "C11"
MOD = "vf.props.c11"
FILES = ["autograd/numpy/numpy_vjps.py", "autograd/numpy/numpy_boxes.py", "autograd/core.py", "autograd/numpy/numpy_jvps.py"]


def worker_init(tier):
    enga.init()


def items(tier):
    enga.init()
    out = []
    for c in grid.index_grid(tier):
        out.append(("vjp", c))
        out.append(("jvp", c))
    # second order through indexing of COMPLEX arrays at complex-typed, real-valued points (float64 probe)
    from ..enga import Config, Cx
    import numpy as onp

    W3 = onp.array([1.0, -2.0, 0.5])
    for lab, f in [("sum |z[[0,0,2]]|^2 + sum Re(z)^2", lambda np, z: np.sum(np.abs(z[[0, 0, 2]]) ** 2) + np.sum(np.real(z) ** 2)),
                   ("sum |z[1:]|^2 * w + |z[0]|^2", lambda np, z: np.sum(np.abs(z[1:]) ** 2 * W3[1:]) + np.abs(z[0]) ** 2),
                   ("Re(z[::-1] * z) summed with a boolean mask pick", lambda np, z: np.sum(np.real(z[::-1] * z)) + np.sum(np.abs(z[onp.array([True, False, True])]) ** 2)),
                   ("|z[idx]|^2 gathered twice plus dense |z|^4", lambda np, z: np.sum(np.abs(z[[2, 1, 1]]) ** 2 * W3) + np.sum(np.abs(z) ** 4))]:
        out.append(("second0", Config("getitem", "IDX2 complex, real-valued point: " + lab, f, [Cx(3)], 0, tags=("index", "second"))))
    only = os.environ.get("VF_ONLY")
    if only:
        import re
        out = [it for it in out if re.search(only, item_key(it))]
    return out


def item_key(it):
    return it[0] + " " + it[1].key


def check(it, tier):
    mode, cfg = it
    if mode == "second0":
        o = checks_a.check_second_at_real_valued_points(cfg, tier)
        o.key = item_key(it)
        return o
    o = checks_a.check_vjp(cfg, tier) if mode == "vjp" else checks_a.check_jvp(cfg, tier)
    o.key = item_key(it)
    if o.status == "raises":
        # C11 promises the gradient for every index expression NumPy accepts, in every mix with dense uses: a raise is
        # not an acceptable outcome here (unlike C01).  Confirm on float64 that NumPy evaluates it and autograd raises.
        import random

        env = checks_a._Default({}, random.Random(1))
        try:
            cfg.call(enga.onp_module(), *cfg.float_args(env))
            numpy_ok = True
        except Exception:
            numpy_ok = False
        if numpy_ok:
            try:
                (checks_a.float_vjp if mode == "vjp" else checks_a.float_jvp)(cfg, env)
                raised = None
            except Exception as e:
                raised = "%s: %s" % (type(e).__name__, e)
            if raised:
                o.status = "violation"
                o.detail = "autograd raises (%s) for an indexing program NumPy evaluates; %s" % (raised[:160], o.detail)
                o.cex = {"env": {}, "mode": mode}
    return o


def main(tier, only=None):
    t0 = time.time()
    if only:
        os.environ["VF_ONLY"] = only
    results = runner.run_items(MOD, tier)
    conds = [dict(module="vf.ch.h_c10", func="_fold3", cases=48, what="sparse/dense accumulation fold, 3 contributions"),
             dict(module="vf.ch.h_c10", func="_fold4", cases=384, what="sparse/dense accumulation fold, 4 contributions"),
             dict(module="vf.ch.h_c10", func="_foldb3", cases=48, what="sparse (indexing) / dense accumulation fold under an enclosing trace (grad of grad, hessian): boxed contributions, 3"),
             dict(module="vf.ch.h_c10", func="_foldb4", cases=384, what="boxed fold, 4 contributions", timeout={"quick": 240, "thorough": 900}),
             dict(module="vf.ch.h_c10", func="_fold5", cases=3840, what="sparse/dense accumulation fold, 5 contributions: all four add_outgrads branches x ownership", timeout={"quick": 240, "thorough": 900})]
    if not only:
        # accumulation across float widths (dtypes are invisible to the object-dtype engine): float64 replay evidence
        from . import width_probe

        enga.init()
        results += width_probe.run(runner.SEED)
    ch = chrun.run_conditions(conds, tier) if not only else []
    bad = [r for r in ch if r["verdict"] not in ("confirmed",)]
    for r in bad:
        results.append({"key": "crosshair " + r["key"], "status": "violation" if (r["verdict"] == "counterexample" and r.get("replay_violated")) else "inconclusive",
                        "detail": r["detail"], "paths": 0, "queries": 0, "validated": 0, "verdicts": {}})
    return runner.finish(
        ID, tier, results, t0,
        functions=gridprop.ENGINE_A_FUNCS + ["autograd.numpy.numpy_boxes:ArrayBox.__getitem__", "autograd.numpy.numpy_vjps:untake (SparseObject, onp.add.at)", "autograd.core:add_outgrads sparse branches", "autograd.core:sparse_add",
                                             "JVP 'same' rules for getitem / untake", "CrossHair: h_c10._fold3/4/5 over the real add_outgrads (%d conditions confirmed)" % sum(1 for r in ch if r["verdict"] == "confirmed")],
        files=FILES,
        bounds={"tier": tier, "index grammar": "per axis {int>=0, int<0, :, a:, :b, ::2, ::-1, -2:, 0:0, None, ...} on ranks 0..3 (thorough: 4), plus integer arrays with repeats (1-D, 2-D, broadcast pairs, empty), boolean masks (full, per-axis), Python lists, mixtures with slices/None/Ellipsis; filtered by NumPy validity",
                "programs": "every order of k indexed and m dense uses of one array, 2 <= k+m <= 4", "outside": "ranks > 3 (4), index arrays larger than 3 entries"},
        assumptions=gridprop.ENGINE_A_ASSUME + ["claim: C01 and C02 instances for x[idx] (pure linear-arithmetic queries): the gradient places the cotangent at exactly the selected positions, adding repeats; mixed sparse/dense programs equal the dense sum"],
        stubs=dict(stubs.STUBS), extra_cov={"crosshair_conditions": [{"condition": r["key"], "verdict": r["verdict"]} for r in ch]})


def replay(path):
    import json

    data = json.load(open(path))
    key = data.get("key", "")
    mode, _, ck = key.partition(" ")
    data["key"] = ck
    tmp = path + ".tmp"
    json.dump(data, open(tmp, "w"))
    try:
        return checks_a.replay_file(ID, tmp, [c for m, c in items("thorough") if m == mode])
    finally:
        os.unlink(tmp)
