"""C05 — a gradient lives in the space of its argument (structure: nesting, shape, real/complex kind). Engine A."""
from .. import checks_a, grid
from .gridprop import GridProp

GridProp(
    "C05", "vf.props.c05", lambda tier: grid.real_grid(tier) + grid.complex_grid(tier), checks_a.check_structure,
    files=["autograd/numpy/numpy_vjps.py", "autograd/numpy/numpy_jvps.py", "autograd/core.py", "autograd/differential_operators.py", "autograd/builtins.py",
           "autograd/numpy/linalg.py", "autograd/numpy/fft.py"],
    functions=["autograd.numpy.numpy_vjps:unbroadcast / unbroadcast_f / match_complex inside every reached VJP rule", "autograd.numpy.numpy_jvps:broadcast",
               "autograd.core:make_vjp zero path (vspace(x).zeros())", "every VJP and JVP rule reached by the real and complex grids"],
    bounds={"ranks": "0..3", "dims": "{1,2,3,4}", "kinds": "real / complex in every argument position (complex grid)",
            "outside": "the dtype clause (object arrays hide dtypes); sizes beyond the grid"},
    claims=["on EVERY explored symbolic path: structure(vjp(g)) == structure(argument) and structure(jvp(v)) == structure(output), where structure = container nesting + shape (() vs (1,) distinguished) + real/complex kind; "
            "shape and kind depend on values only through the branches the executor forks on, so this is a for-all-values statement within the grid"],
    selftest=False,
).export(globals())
