"""C05 — a gradient lives in the space of its argument (structure: nesting, shape, real/complex kind). Engine A."""
from .. import checks_a, grid
from .gridprop import GridProp

GridProp(
    "C05", "vf.props.c05", lambda tier: grid.real_grid(tier) + grid.complex_grid(tier) + grid.container_grid(tier), checks_a.check_structure,
    files=["autograd/numpy/numpy_vjps.py", "autograd/numpy/numpy_jvps.py", "autograd/core.py", "autograd/differential_operators.py", "autograd/builtins.py",
           "autograd/numpy/linalg.py", "autograd/numpy/fft.py"],
    functions=["autograd.numpy.numpy_vjps:unbroadcast / unbroadcast_f / match_complex inside every reached VJP rule", "autograd.numpy.numpy_jvps:broadcast",
               "autograd.core:make_vjp zero path (vspace(x).zeros())", "every VJP and JVP rule reached by the real and complex grids"],
    bounds={"ranks": "0..3", "dims": "{1,2,3,4}", "kinds": "real / complex in every argument position (complex grid)",
            "outside": "the dtype clause (object arrays hide dtypes); sizes beyond the grid"},
    claims=["on EVERY explored symbolic path: structure(vjp(g)) == structure(argument) and structure(jvp(v)) == structure(output), where structure = container nesting + shape (() vs (1,) distinguished) + real/complex kind; "
            "shape and kind depend on values only through the branches the executor forks on, so this is a for-all-values statement within the grid"],
    selftest=False,
).export(globals())

_grid_main = main


def main(tier, only=None):
    """the grid check plus Engine D: shape arithmetic of the rule helpers for unbounded dimensions (CrossHair over a
    shape-level model bound into the real helper code)"""
    import os

    os.environ["VF_EXTRA_RESULTS"] = "vf.shp.results"
    os.environ["VF_TIER_CUR"] = tier
    return _grid_main(tier, only=only)


_grid_replay = replay


def replay(path):
    import json

    with open(path) as f:
        data = json.load(f)
    cex = data.get("cex") or {}
    if cex.get("mode") == "crosshair":
        from ..ch import run as chrun

        viol, info = chrun.replay(cex["module"], cex["func"], cex["args"])
        print("replay %s.%s%r: %s" % (cex["module"], cex["func"], tuple(cex["args"] or ()), info))
        if viol:
            print("VIOLATION property=C05 replay=%s" % path)
            return 1
        print("does not reproduce on the current tree")
        return 0
    return _grid_replay(path)
