"""C11 (accumulation of dense and indexed contributions) across float WIDTHS: one float64 array used several times, some
uses going through a float32 cast (whose cotangent arrives as float32) or through float32 constants, some dense, some
indexed with repeats, in every order.  The accumulated gradient must be a float64 array (the argument's space) and equal
the closed form exactly (all constants are dyadic, so float64 sums are exact; a float32 running sum is not: 2^30 + 0.25).
float64 replay-style evidence: dtypes are invisible to the object-dtype symbolic engine."""
import itertools
import warnings


def _res(key, ok, detail=""):
    return {"key": key, "status": "holds" if ok else "violation", "detail": detail, "paths": 1, "queries": 0, "validated": 1 if ok else 0, "verdicts": {},
            "prim": "width", "cex": None if ok else {"mode": "width", "key": key}}


def run(seed=0):
    import numpy as onp
    import autograd.numpy as np
    from autograd import grad, make_vjp

    f32 = onp.float32
    n = 5
    w32 = onp.array([0.5, 1.5, 2.0, 0.25, 3.0], dtype=f32)
    c64 = onp.array([1.0, -2.0, 0.75, 4.0, -0.5])
    idx = onp.array([0, 3, 3, 1])
    d64 = onp.array([2.0, -1.0, 0.5, 8.0])
    BIG = float(2 ** 30)
    uses = {
        "dense float32 (through np.array(x, dtype=float32))": (lambda x: np.sum(np.array(x, dtype=f32) * w32), w32.astype(float)),
        "dense float64": (lambda x: np.sum(c64 * x), c64),
        "indexed float64 with a repeated index": (lambda x: np.sum(d64 * x[idx]), onp.bincount(idx, weights=d64, minlength=n)),
        "indexed, then cast to float32": (lambda x: np.sum(np.array(x[idx], dtype=f32) * w32[:4]), onp.bincount(idx, weights=w32[:4].astype(float), minlength=n)),
        "dense float64 with a large coefficient (+2^30)": (lambda x: np.sum(BIG * x), onp.full(n, BIG)),
        "dense float64 cancelling it (-2^30)": (lambda x: np.sum(-BIG * x), onp.full(n, -BIG)),
        "dense float32 via astype": (lambda x: np.sum(x.astype(f32) * f32(0.25)), onp.full(n, 0.25)),
    }
    names = sorted(uses)
    x0 = onp.array([0.5, -1.25, 2.0, 0.75, -3.0])
    out = []
    for k in (2, 3, 4):
        bad = []
        total = 0
        for order in itertools.permutations(names, k):
            total += 1
            want = sum(uses[nm][1] for nm in order)

            def f(x, order=order):
                tot = uses[order[0]][0](x)
                for nm in order[1:]:
                    tot = tot + uses[nm][0](x)
                return tot

            try:
                with warnings.catch_warnings():
                    warnings.simplefilter("ignore")
                    got = grad(f)(x0)
                    vjp, y = make_vjp(f)(x0)
                    got32 = vjp(f32(1.0))  # a float32 seed (what a float32 loss hands to the backward pass)
                for lab, g_ in (("grad", got), ("make_vjp with a float32 seed", got32)):
                    g_ = onp.asarray(g_)
                    if g_.dtype != onp.float64 or g_.shape != x0.shape or not onp.array_equal(g_, want):
                        bad.append("%s, uses in the order %s: dtype %s, got %r, exact %r" % (lab, " + ".join(order), g_.dtype, g_.tolist(), want.tolist()))
            except Exception as e:
                bad.append("uses in the order %s: raised %s: %s" % (" + ".join(order), type(e).__name__, str(e)[:80]))
        key = "WIDTH mixed float32 / float64 contributions to one float64 array | every order of %d of %d uses (%d programs, grad and a float32-seeded VJP)" % (k, len(names), total)
        out.append(_res(key, not bad, "%d of %d programs wrong, e.g. %s" % (len(bad), total, bad[0][:400]) if bad else ""))
    return out


if __name__ == "__main__":
    for r in run():
        print(r["status"], r["key"], r["detail"][:300])
