"""C01 — reverse-mode derivatives are exact for every way a primitive can be called (Engine A)."""
import os
import time

from .. import checks_a, enga, grid, runner, stubs
from . import gridprop

ID = "C01"
MOD = "vf.props.c01"
ONLY = os.environ.get("VF_ONLY")
FILES = ["autograd/numpy/numpy_vjps.py", "autograd/numpy/linalg.py", "autograd/numpy/fft.py", "autograd/numpy/numpy_boxes.py",
         "autograd/numpy/numpy_wrapper.py", "autograd/numpy/numpy_vspaces.py", "autograd/core.py", "autograd/tracer.py", "autograd/util.py"]


def worker_init(tier):
    enga.init()


def items(tier):
    enga.init()
    its = grid.real_grid(tier) + grid.kink_grid(tier) + gridprop.selftest_configs()
    return gridprop.filter_only(its, ONLY)


def item_key(cfg):
    return cfg.key


def check(cfg, tier):
    if "kink" in cfg.tags:
        return checks_a.check_kink(cfg, tier)
    return checks_a.check_vjp(cfg, tier)


def main(tier, only=None):
    t0 = time.time()
    if only:
        os.environ["VF_ONLY"] = only
        global ONLY
        ONLY = only
    results = runner.run_items(MOD, tier)
    results, st = gridprop.split_selftest(results, ID)
    enga.init()
    if not only:
        from . import pinned_vjp

        results += pinned_vjp.run(runner.SEED)
    from autograd.core import primitive_vjps

    return runner.finish(
        ID, tier, results, t0,
        functions=gridprop.ENGINE_A_FUNCS + ["every VJP rule registered in autograd.core.primitive_vjps that a grid configuration reaches (%d registered)" % len(primitive_vjps),
                                             "autograd.numpy.numpy_vjps: unbroadcast, unbroadcast_f, unbroadcast_einsum, repeat_to_match_shape, match_complex, balanced_eq, grad_chooser, replace_zero, *_adjoint_*, untake",
                                             "autograd.numpy.linalg: det/inv/solve/slogdet/norm VJPs", "autograd.numpy.fft: fft_grad, rfft_grad, irfft_grad, truncate_pad, make_rfft_factors",
                                             "autograd.numpy.numpy_boxes: ArrayBox operator/method table"],
        files=FILES,
        bounds={"tier": tier, "ranks": "0..3 (thorough: some rank 4)", "dims": "{1,2,3,4}", "path_bound_per_configuration": checks_a.tier_opts(tier)["max_paths"],
                "query_timeout_ms": checks_a.tier_opts(tier)["timeout_ms"], "kink_sizes": "<= 4 elements (quick) / 6 (thorough)",
                "outside": "LAPACK-backed primitives without closed-form stub (svd, eig, eigh, pinv, qr, cholesky), FFT lengths not in {1,2,4}, autograd.scipy, sizes/ranks beyond the grid"},
        assumptions=gridprop.ENGINE_A_ASSUME + ["claim per smooth path: forall x,g,d: <conj(vjp(g)),d>_R == <conj(g), f'(x;d)>_R and vjp(g) has the argument's shape",
                                                "kink claim (explicit-tie list only), single-component cotangents g=+-e_k: finite and between the two one-sided directional derivatives"],
        stubs=dict(stubs.STUBS), selftest=st)


def replay(path):
    return checks_a.replay_file(ID, path, items("thorough") + items("quick"))


_grid_main_pp, _grid_replay_pp = main, replay


def main(tier, only=None):
    """the grid check, plus the float64 probe of isolated REGULAR points that generic-position reasoning never visits
    (exact zeros, exponent 0): vf/props/pinned_probe.py"""
    import os

    if not os.environ.get("VF_EXTRA_RESULTS"):
        os.environ["VF_EXTRA_RESULTS"] = "vf.props.pinned_vjp"
    return _grid_main_pp(tier, only=only)


def replay(path):
    import json

    with open(path) as f:
        data = json.load(f)
    cex = data.get("cex") or {}
    if cex.get("mode") == "pinned":
        from .. import enga
        from . import pinned_probe

        enga.init()
        bad = [r for r in pinned_probe.run() if r["key"] == cex["key"] and r["status"] == "violation"]
        for r in bad:
            print("replay %s: %s" % (r["key"], r["detail"]))
        if bad:
            print("VIOLATION property=C01 replay=%s" % path)
            return 1
        print("does not reproduce on the current tree")
        return 0
    return _grid_replay_pp(path)
