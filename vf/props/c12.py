"""C12 — nested containers are differentiated leaf-wise; flatten commutes with grad (Engine B + A)."""
from ..ch.prop import BProp


def conditions(tier):
    H = "vf.ch.h_c12"
    T = {"quick": 180, "thorough": 900}
    return [dict(module=H, func="_ext", cases=4 * 3 * 2 * 6, what="t + consts / consts + t with symbolic lengths <= 3 and symbolic pick index", timeout=T),
            dict(module=H, func="_take", cases=4 * 8 * 2 * 2, what="t[i] for tuples and lists of symbolic length <= 4, positive and negative i, both modes", timeout=T),
            dict(module=H, func="_slice", cases=30, what="t[lo:hi][j] with symbolic bounds", timeout=T),
            dict(module=H, func="_mkseq", cases=4 * 4 * 4 * 2 * 2, what="autograd tuple()/list() constructors with the traced element at a symbolic position, both modes", timeout=T),
            dict(module=H, func="_unpack_iter", cases=2, what="unpacking and iteration of a traced tuple"),
            dict(module=H, func="_dict", cases=15, what="dict access: [], get, items, keys/values, iteration, len, membership"),
            dict(module=H, func="_mkdict", cases=2, what="autograd dict() constructor from a dict and from pairs"),
            dict(module=H, func="_mkdict_perm", cases=4, what="a dict built by autograd's dict constructor is the OUTPUT; the cotangent dict has its entries inserted in the same or in another order: pairing is by key"),
            dict(module=H, func="_ext_planted", expect="counterexample", what="planted off-by-one in grad_sequence_extend_left")]


def extra(tier):
    from . import cont_a
    return cont_a.run(tier)


BProp("C12", conditions,
      functions=["autograd.builtins:container_take", "autograd.builtins:container_untake", "autograd.builtins:sequence_extend_right/left and their rules", "autograd.builtins:make_sequence",
                 "autograd.builtins:_make_dict", "autograd.builtins:SequenceBox", "autograd.builtins:DictBox", "autograd.builtins:tuple/list/dict subclasses", "autograd.builtins:ContainerVSpace and subclasses",
                 "autograd.misc.flatten:flatten / _flatten / _concatenate (Engine A part)"],
      files=["autograd/builtins.py", "autograd/misc/flatten.py", "autograd/numpy/numpy_vspaces.py", "autograd/core.py"],
      bounds={"lengths": "<= 3 / <= 4 (symbolic)", "nesting (Engine A)": "depth <= 3, arity <= 3, dict key sets, empty containers", "outside": "longer containers, deeper nesting"},
      claims=["the gradient of a container operation has the container's structure and is the cotangent at exactly the selected leaf / slice and zero elsewhere; values are propagated unchanged",
              "Engine A: gradient of a polynomial function of nested containers has the same nesting and each leaf equals the oracle; unflatten(flatten(v)) == v, flatten(unflatten(w)) == w, grad(f o unflatten)(flatten v) == flatten(grad f (v))"],
      extra=extra).export(globals())
