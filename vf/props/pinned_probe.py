"""C02 (and C01) at pinned REGULAR points that generic-position reasoning never visits: exact zeros, exponent 0, equal
operands where the function is nevertheless smooth (x**0, x**2 at x = 0, polynomial features of data containing 0.0,
x/x-free identities).  The symbolic engine assumes generic values (smooth-point claims), so these isolated regular
points are probed on float64 against closed forms: both modes must return the finite closed-form derivative or raise."""
import warnings


def _res(key, ok, detail=""):
    return {"key": key, "status": "holds" if ok else "violation", "detail": detail, "paths": 1, "queries": 0, "validated": 1 if ok else 0, "verdicts": {},
            "prim": "pinned", "cex": None if ok else {"mode": "pinned", "key": key}}


def cases():
    import numpy as onp

    x0 = onp.array([0.0, 1.5, -2.0])
    polyfeat = lambda np, x: x[:, None] ** onp.arange(4)
    C = []
    for k in (0, 1, 2, 3, 0.0, 2.0):
        C.append(("np.power(x, %r) with a 0.0 in x" % (k,), lambda np, x, _k=k: np.power(x, _k), x0, lambda x, v, _k=k: v * (_k * x ** (_k - 1) if _k not in (0, 0.0) else 0.0 * x)))
        C.append(("x ** %r with a 0.0 in x" % (k,), lambda np, x, _k=k: x ** _k, x0, lambda x, v, _k=k: v * (_k * x ** (_k - 1) if _k not in (0, 0.0) else 0.0 * x)))
    C.append(("polynomial features x[:,None] ** arange(4) with a 0.0 in x", polyfeat, x0,
              lambda x, v: v[:, None] * onp.stack([0.0 * x, 1.0 + 0.0 * x, 2.0 * x, 3.0 * x ** 2], axis=1)))
    C.append(("np.square / np.multiply at 0", lambda np, x: np.square(x) + np.multiply(x, x), x0, lambda x, v: 4.0 * x * v))
    C.append(("np.sin(x)/1 + x*np.cos(x) at 0", lambda np, x: np.sin(x) + x * np.cos(x), x0, lambda x, v: v * (2.0 * onp.cos(x) - x * onp.sin(x))))
    C.append(("np.tanh, np.arctan, np.expm1, np.log1p at 0", lambda np, x: np.tanh(x) + np.arctan(x) + np.expm1(x) + np.log1p(x * x), x0,
              lambda x, v: v * (1.0 - onp.tanh(x) ** 2 + 1.0 / (1.0 + x * x) + onp.exp(x) + 2.0 * x / (1.0 + x * x))))
    C.append(("np.sum / np.prod-free reductions with zeros: mean, var", lambda np, x: np.mean(x) + np.var(x), x0, lambda x, v: onp.sum(v) / 3.0 + onp.sum(2.0 * (x - onp.mean(x)) * (v - onp.mean(v))) / 3.0))
    C.append(("np.where(x == 0, 1.0, x) * x", lambda np, x: np.where(x == 0, 1.0, x) * x, x0, lambda x, v: v * onp.where(x == 0, 1.0, 2.0 * x)))
    # a removable singularity of the rule's formula at a point where the function itself is smooth: sinc'(0) = 0
    _ds = lambda x: onp.where(x == 0, 0.0, (onp.cos(onp.pi * x) * onp.pi * x - onp.sin(onp.pi * x)) / (onp.pi * onp.where(x == 0, 1.0, x) ** 2))
    C.append(("np.sinc(x) with a 0.0 in x", lambda np, x: np.sinc(x), x0, lambda x, v: v * _ds(x)))
    # regular points far out in the floating-point range, where a mathematically equivalent rearrangement of a rule
    # overflows (exp(x - y) / (1 + exp(x - y)) is inf / inf beyond x - y ~ 709) while the function itself is finite and smooth
    XL, YL = onp.array([0.0, 5.0, 900.0]), onp.array([-800.0, -1000.0, 100.0])
    sig = lambda d: onp.exp(-onp.logaddexp(0.0, -d))  # overflow-free logistic function
    C.append(("np.logaddexp(x, y) with x - y beyond the exp overflow threshold", lambda np, x: np.logaddexp(x, YL), XL, lambda x, v: v * sig(x - YL)))
    C.append(("np.logaddexp(y, x) with y - x beyond the exp overflow threshold", lambda np, x: np.logaddexp(XL, x), YL, lambda x, v: v * sig(x - XL)))
    C.append(("np.logaddexp(y, x) with x - y beyond the threshold (second argument dominant)", lambda np, x: np.logaddexp(YL, x), XL, lambda x, v: v * sig(x - YL)))
    C.append(("np.logaddexp2(x, y) with x - y beyond the exp2 overflow threshold", lambda np, x: np.logaddexp2(x, YL * 2.0), XL * 2.0, lambda x, v: v * sig((x - YL * 2.0) * onp.log(2.0))))
    C.append(("np.logaddexp2(y, x) with x - y beyond the threshold", lambda np, x: np.logaddexp2(YL * 2.0, x), XL * 2.0, lambda x, v: v * sig((x - YL * 2.0) * onp.log(2.0))))
    C.append(("softplus np.logaddexp(0, x) at +-800 and log-sum-exp fold with a -1500 entry", lambda np, x: np.logaddexp(0.0, x) + np.logaddexp(np.logaddexp(x[0], x[1]), x[2]) * onp.array([1.0, 0.0, 0.0]),
              onp.array([800.0, -800.0, -1500.0]), lambda x, v: v * sig(x) + onp.array([1.0, 0.0, 0.0]) * onp.sum(v * onp.exp(x - onp.logaddexp(onp.logaddexp(x[0], x[1]), x[2])))))
    C.append(("np.tanh / np.arctan / np.hypot / np.arctan2 at 1e150-scale arguments", lambda np, x: np.tanh(x * 1e-148) + np.arctan(x) + np.hypot(x, 3e150) * 1e-150, onp.array([4e150, -1e150, 2.5e150]),
              lambda x, v: v * (1e-148 / onp.cosh(onp.clip(x * 1e-148, -300, 300)) ** 2 + 0.0 + x / onp.hypot(x, 3e150) * 1e-150)))
    # constant pieces holding inf / nan joined to the argument: the tangent of those pieces is an exact zero, not 0 * inf
    NFp = onp.array([onp.inf, -onp.inf, onp.nan])
    C.append(("np.concatenate([x, c]) with inf / nan entries in the constant c (finite part of the result)", lambda np, x: np.concatenate([x, NFp])[:3] * 2.0 + np.append(NFp, x)[3:] + np.hstack([x, NFp])[:3], x0, lambda x, v: 4.0 * v))
    C.append(("min / max over an array padded with +-inf sentinels", lambda np, x: np.min(np.concatenate([x, onp.array([onp.inf])])) + np.max(np.concatenate([onp.array([-onp.inf]), x])) + 0.0 * x, x0,
              lambda x, v: (v[onp.argmin(x)] + v[onp.argmax(x)]) + 0.0 * x))
    # a real array made complex by a constructor (the cast itself is the primitive): real cotangent for the real argument
    C.append(("np.real(np.array(x, dtype=complex) * (1+2j)) + np.imag(np.array(x, dtype=complex, ndmin=1) * (1+2j))", lambda np, x: np.real(np.array(x, dtype=complex) * (1.0 + 2.0j)) + np.imag(np.array(x, dtype=complex, ndmin=1) * (1.0 + 2.0j)), x0,
              lambda x, v: 3.0 * v))
    C.append(("np.abs(x.astype(complex) * (1+2j)) ** 2", lambda np, x: np.abs(x.astype(complex) * (1.0 + 2.0j)) ** 2, x0, lambda x, v: 10.0 * x * v))
    # casts to a non-float dtype are piecewise constant (truncation): used as a factor they contribute no derivative
    C.append(("x * x.astype(int) + x * np.array(x, dtype=int) (piecewise-constant factors)", lambda np, x: x * x.astype(int) + x * np.array(x, dtype=int), onp.array([0.5, 2.7, -4.2]),
              lambda x, v: 2.0 * v * onp.trunc(x)))
    # NaN-ignoring selectors: where the OTHER operand is NaN the result is x itself (derivative 1): a regular point
    YN = onp.array([onp.nan, 1.0, onp.nan])
    C.append(("np.fmax(x, y) with NaN entries in y", lambda np, x: np.fmax(x, YN), x0, lambda x, v: v * onp.where(onp.isnan(YN) | (x > YN), 1.0, 0.0)))
    C.append(("np.fmin(y, x) with NaN entries in y", lambda np, x: np.fmin(YN, x), x0, lambda x, v: v * onp.where(onp.isnan(YN) | (x < YN), 1.0, 0.0)))
    C.append(("np.nansum-free: np.where(isnan(y), x, x*y)", lambda np, x: np.where(onp.isnan(YN), x, x * 2.0), x0, lambda x, v: v * onp.where(onp.isnan(YN), 1.0, 2.0)))
    # masked-out branches whose downstream derivative is infinite or NaN at the constant: the derivative there is an exact 0
    xm = onp.array([0.0, 1.5, -2.0])
    C.append(("safe sqrt: np.sqrt(np.where(x > 0, x, 0.0)) with non-positive entries", lambda np, x: np.sqrt(np.where(x > 0, x, 0.0)), xm,
              lambda x, v: v * onp.where(x > 0, 0.5 / onp.sqrt(onp.where(x > 0, x, 1.0)), 0.0), ("vjp",)))
    # (reverse mode only: in forward mode the zero tangent meets sqrt'(0) = inf downstream, 0 * inf = nan is inherent to
    # forward-mode AD without the double-where idiom, not a defect of a rule)
    C.append(("safe log: np.where(x > 0, np.log(np.where(x > 0, x, 1.0)), 0.0)", lambda np, x: np.where(x > 0, np.log(np.where(x > 0, x, 1.0)), 0.0), xm,
              lambda x, v: v * onp.where(x > 0, 1.0 / onp.where(x > 0, x, 1.0), 0.0)))
    C.append(("np.where(x > 0, 0.0, x) ** 0.5-free: 1 / np.where(x == 0, 1.0, x) masked by where", lambda np, x: np.where(x == 0, 0.0, 1.0 / np.where(x == 0, 1.0, x)), xm,
              lambda x, v: v * onp.where(x == 0, 0.0, -1.0 / onp.where(x == 0, 1.0, x) ** 2)))
    return C


def adjoint_points():
    """(label, f, point): forward and reverse mode must pair up, <g, jvp(v)> == <vjp(g), v>, also AT the non-smooth
    points the rules handle explicitly (C04 is stated wherever both modes are defined)"""
    import numpy as onp

    xb = onp.array([0.0, 0.25, 1.0, 0.5, 1.0, 0.0])
    xt = onp.array([1.0, 1.0, 0.5, 1.0])
    return [
        ("np.clip(x, 0, 1) with entries exactly on both bounds", lambda np, x: np.clip(x, 0.0, 1.0), xb),
        ("sin(clip(2x - 0.5, 0, 1)) landing on a bound", lambda np, x: np.sin(np.clip(2.0 * x - 0.5, 0.0, 1.0)), onp.array([0.25, 0.75, 0.5, 0.1])),
        ("np.maximum(x, 0.25) / np.minimum(x, 1.0) at ties", lambda np, x: np.maximum(x, 0.25) + np.minimum(x, 1.0) * 2.0, xb),
        ("np.fmax(x, x[::-1]) at ties", lambda np, x: np.fmax(x, x[::-1]), xt),
        ("np.max / np.min over tied entries", lambda np, x: np.max(x) * 2.0 + np.min(x), xt),
        ("np.amax(x, axis) with ties along the axis", lambda np, x: np.amax(np.reshape(x, (2, 2)), axis=0), xt),
        ("np.abs / np.absolute at 0", lambda np, x: np.abs(x) + np.absolute(x * 2.0), xb),
        ("np.sort with ties", lambda np, x: np.sort(x) * onp.arange(1.0, 5.0), xt),
    ]


def run_linear_extreme(seed=0):
    """C03 / C01 for rules whose Jacobian has entries 0 / +-1 only (cumsum, diff, flips, gathers, pads, reductions ...):
    their VJP is an exact rearrangement / short sum of cotangent entries, so it must stay right when the cotangent spans
    40 orders of magnitude (a rule rewritten as total - running sum is exact in real arithmetic and loses every small
    entry next to a large one).  Reference: J^T g with J read off NumPy's own function and each entry summed exactly."""
    import math
    import numpy as onp
    import autograd.numpy as np
    from autograd import make_vjp

    x0 = onp.array([0.3, -1.2, 2.5, 0.7, -0.4, 1.9])
    fns = [("np.cumsum(x)", lambda np, x: np.cumsum(x)), ("np.cumsum(x.reshape(2,3), axis=1)", lambda np, x: np.cumsum(np.reshape(x, (2, 3)), axis=1)),
           ("np.cumsum(x.reshape(2,3), axis=0)", lambda np, x: np.cumsum(np.reshape(x, (2, 3)), axis=0)), ("np.cumsum(x.reshape(3,2)) axis=None", lambda np, x: np.cumsum(np.reshape(x, (3, 2)))),
           ("np.diff(x)", lambda np, x: np.diff(x)), ("np.diff(x, n=2)", lambda np, x: np.diff(x, n=2)), ("x[::-1] and np.roll", lambda np, x: x[::-1] + np.roll(x, 2)),
           ("gather with repeats x[[0,0,5,2,0]]", lambda np, x: x[onp.array([0, 0, 5, 2, 0])]), ("np.sum(x.reshape(2,3), axis=0)", lambda np, x: np.sum(np.reshape(x, (2, 3)), axis=0)),
           ("np.pad / np.concatenate / np.tile", lambda np, x: np.concatenate([np.pad(x, 1, "constant"), np.tile(x, 2)])), ("np.repeat(x, 3)", lambda np, x: np.repeat(x, 3)),
           ("np.trace / np.diagonal / np.triu of x.reshape(2,3)", lambda np, x: np.concatenate([np.ravel(np.triu(np.reshape(x, (2, 3)))), np.diagonal(np.reshape(x, (2, 3)), 0, -1, -2), np.reshape(np.trace(np.reshape(x, (2, 3))), (1,))]))]
    # (single primitives and concatenations of them only: sums over several graph paths are accumulated in floating
    # point in an order the library is free to choose, 1e20 + 9 - 1e20 is not a claim about any rule)
    scales = [1e20, 1.0, 3e-20, 7.0, 2e-5, 1e10, 0.0, 5e-13, 3.0, 2e20]  # one sign: no cancellation inside any exact sum
    out = []
    for lab, f in fns:
        key = "PINNED extreme-range cotangent | %s: VJP == J^T g with |g| from 3e-20 to 1e20" % lab
        try:
            y0 = onp.asarray(f(onp, x0))
            n_out = y0.size
            J = onp.stack([onp.ravel(f(onp, onp.eye(6)[i])) - onp.ravel(f(onp, onp.zeros(6))) for i in range(6)], axis=1)  # (n_out, 6), f is linear
            g = onp.array([scales[(3 * j + 1) % len(scales)] for j in range(n_out)]).reshape(y0.shape)
            with warnings.catch_warnings():
                warnings.simplefilter("ignore")
                got = onp.ravel(onp.asarray(make_vjp(lambda x: f(np, x))(x0)[0](g), dtype=float))
            gf = onp.ravel(g)
            want = onp.array([math.fsum(J[j, i] * gf[j] for j in range(n_out)) for i in range(6)])
            # tolerance relative to the largest term of each entry's own (short) sum - not to the largest entry of g
            big = [max([abs(J[j, i] * gf[j]) for j in range(n_out)] + [1e-300]) for i in range(6)]
            ok = got.shape == want.shape and all(abs(a - b) <= 1e-12 * m for a, b, m in zip(got, want, big))
            out.append(_res(key, ok, "" if ok else "got %r, exact %r" % (got.tolist(), want.tolist())))
        except Exception as e:
            out.append({"key": key, "status": "raises", "detail": "%s: %s" % (type(e).__name__, str(e)[:100]), "paths": 1, "queries": 0, "validated": 0, "verdicts": {}, "prim": "pinned"})
    return out


def run_adjoint(seed=0):
    import numpy as onp
    import autograd.numpy as np
    from autograd import make_jvp, make_vjp

    out = []
    rs = onp.random.RandomState(seed + 5)
    for lab, f, x0 in adjoint_points():
        key = "PINNED adjoint | %s" % lab
        try:
            with warnings.catch_warnings():
                warnings.simplefilter("ignore")
                bad = None
                for _ in range(3):
                    v = rs.randn(*x0.shape)
                    y, t = make_jvp(lambda x: f(np, x))(x0)(v)
                    g = rs.randn(*onp.shape(y))
                    c = make_vjp(lambda x: f(np, x))(x0)[0](g)
                    a, b = float(onp.sum(g * t)), float(onp.sum(c * v))
                    if not (onp.isfinite(a) and onp.isfinite(b) and abs(a - b) <= 1e-9 * max(1.0, abs(a), abs(b))):
                        bad = "<g, jvp(v)> = %.12g but <vjp(g), v> = %.12g at x = %r" % (a, b, x0.tolist())
                out.append(_res(key, bad is None, bad or ""))
        except Exception as e:
            out.append({"key": key, "status": "raises", "detail": "%s: %s" % (type(e).__name__, str(e)[:100]), "paths": 1, "queries": 0, "validated": 0, "verdicts": {}, "prim": "pinned"})
    return out


def run(seed=0):
    import numpy as onp
    import autograd.numpy as np
    from autograd import make_jvp, make_vjp

    out = []
    v = onp.array([0.7, -1.3, 2.1])
    for case in cases():
        lab, f, x0, dclosed = case[:4]
        want = onp.asarray(dclosed(x0, v), dtype=float)
        for mode in (case[4] if len(case) > 4 else ("jvp", "vjp")):
            key = "PINNED %s | %s" % (mode, lab)
            try:
                with warnings.catch_warnings():
                    warnings.simplefilter("ignore")
                    if mode == "jvp":
                        got = onp.asarray(make_jvp(lambda x: f(np, x))(x0)(v)[1], dtype=float)
                        ok = got.shape == want.shape and bool(onp.all(onp.isfinite(got))) and onp.allclose(got, want, rtol=1e-9, atol=1e-12)
                    else:
                        y = onp.asarray(f(onp, x0), dtype=float)
                        g = onp.cos(onp.arange(y.size, dtype=float)).reshape(y.shape) + 1.5
                        raw = make_vjp(lambda x: f(np, x))(x0)[0](g)
                        if onp.iscomplexobj(raw):
                            out.append(_res(key, False, "the cotangent of a REAL argument came back complex: %r" % (onp.asarray(raw).tolist(),)))
                            continue
                        got = onp.asarray(raw, dtype=float)
                        # <vjp(g), e_i> = <g, J e_i>
                        wantv = onp.array([onp.sum(g * onp.asarray(dclosed(x0, e), dtype=float)) for e in onp.eye(3)])
                        ok = got.shape == x0.shape and bool(onp.all(onp.isfinite(got))) and onp.allclose(got, wantv, rtol=1e-9, atol=1e-12)
                        want_show = wantv
                out.append(_res(key, ok, "" if ok else "got %r, closed form %r (x = %r)" % (got.tolist(), (want if mode == "jvp" else want_show).tolist(), x0.tolist())))
            except Exception as e:
                out.append({"key": key, "status": "raises", "detail": "%s: %s" % (type(e).__name__, str(e)[:100]), "paths": 1, "queries": 0, "validated": 0, "verdicts": {}, "prim": "pinned"})
    return out


if __name__ == "__main__":
    for r in run() + run_adjoint():
        print(r["status"], r["key"], r["detail"][:200])


def run_nested(seed=0):
    """C08 / C07 at pinned values of an OUTER traced scalar that meets an inner traced array in one binary operation
    (x ** p at p == 2, x * p at p == 1, x + p at p == 0, ...): a value-based shortcut taken on a traced operand loses the
    outer variable.  d/dp [ sum_i w_i d/dx_i b(x, p) ] in all four mode combinations, plus base and exponent traced at the
    same level, against closed forms (float64 replay evidence, not a solver verdict: the symbolic engine only reasons
    about generic values)."""
    import numpy as onp
    import autograd.numpy as np
    from autograd import elementwise_grad, grad, make_jvp

    x0 = onp.array([1.5, 0.7, 2.2])
    w = onp.array([1.0, -2.0, 0.5])
    L = onp.log
    dfw = lambda f, at: make_jvp(f)(at)(onp.ones(onp.shape(at)))[1]
    bodies = [
        ("x ** p", lambda x, p: x ** p, lambda p: x0 ** (p - 1) * (1 + p * L(x0)), (2.0, 1.0, 0.0, 3.0, 0.5, -1.0, -2.0)),
        ("np.power(x, p)", lambda x, p: np.power(x, p), lambda p: x0 ** (p - 1) * (1 + p * L(x0)), (2.0, 1.0, 0.0, 3.0, 0.5, -1.0)),
        ("p ** x", lambda x, p: p ** x, lambda p: p ** (x0 - 1) * (x0 * L(p) + 1), (1.0, 2.0, onp.e, 0.5)),
        ("x * p * x", lambda x, p: x * p * x, lambda p: 2 * x0, (1.0, 0.0, -1.0, 2.0)),
        ("p * x * x", lambda x, p: p * x * x, lambda p: 2 * x0, (1.0, 0.0, -1.0, 2.0)),
        ("(x + p) * (p + x)", lambda x, p: (x + p) * (p + x), lambda p: 2 + 0 * x0, (0.0, 1.0, -1.5)),
        ("(x - p) * x", lambda x, p: (x - p) * x, lambda p: -1 + 0 * x0, (0.0, 1.0)),
        ("x * x / p", lambda x, p: x * x / p, lambda p: -2 * x0 / p ** 2, (1.0, -1.0, 2.0)),
        ("p / x", lambda x, p: p / x, lambda p: -1 / x0 ** 2, (1.0, 0.0, 2.0)),
        ("np.sin(x) * p + x ** 2 * p", lambda x, p: np.sin(x) * p + x ** 2 * p, lambda p: onp.cos(x0) + 2 * x0, (1.0, 0.0, 2.0)),
    ]
    combos = [("rev-over-rev", lambda b, p0: grad(lambda p: np.sum(w * elementwise_grad(lambda x: b(x, p))(x0)))(p0)),
              ("rev-over-fwd", lambda b, p0: grad(lambda p: np.sum(w * dfw(lambda x: b(x, p), x0)))(p0)),
              ("fwd-over-rev", lambda b, p0: make_jvp(lambda p: np.sum(w * elementwise_grad(lambda x: b(x, p))(x0)))(p0)(1.0)[1]),
              ("fwd-over-fwd", lambda b, p0: make_jvp(lambda p: np.sum(w * dfw(lambda x: b(x, p), x0)))(p0)(1.0)[1])]
    out = []
    for lab, b, closed, pins in bodies:
        for p0 in pins:
            want = float(onp.sum(w * closed(p0)))
            for cname, op in combos:
                key = "PINNED nested %s | d/dp of d/dx [%s] at the pinned outer value p = %r" % (cname, lab, p0)
                try:
                    with warnings.catch_warnings():
                        warnings.simplefilter("ignore")
                        got = float(op(b, p0))
                    ok = onp.isfinite(got) and abs(got - want) <= 1e-9 * max(1.0, abs(want))
                    out.append(_res(key, ok, "" if ok else "got %r, closed form %r" % (got, want)))
                except Exception as e:
                    out.append({"key": key, "status": "raises", "detail": "%s: %s" % (type(e).__name__, str(e)[:100]), "paths": 1, "queries": 0, "validated": 0, "verdicts": {}, "prim": "pinned"})
    # the same question for EVERY binary ufunc of the rule tables, without closed forms: the inner derivative F(p) =
    # sum_i w_i d/dx_i u(x, p) is also computable with p an ordinary (untraced) constant, so its central difference in p
    # is an independent reference for the traced mixed derivative at the pinned value (rejected where F is not smooth
    # there: differences with h and h/2 disagree)
    ufs = ["add", "subtract", "multiply", "divide", "true_divide", "power", "arctan2", "hypot", "logaddexp", "logaddexp2", "maximum", "minimum", "fmax", "fmin",
           "mod", "remainder", "fmod", "copysign", "float_power", "heaviside", "nextafter", "ldexp"]
    for un in ufs:
        u = getattr(np, un, None)
        if u is None:
            continue
        for side, body in (("u(x, p)", lambda x, p, u=u: u(x, p)), ("u(p, x)", lambda x, p, u=u: u(p, x))):
            for p0 in (0.0, 1.0, 2.0, -1.0, 0.5, 3.0):
                key = "PINNED nested generic | d/dp of d/dx np.%s as %s at the pinned outer value p = %r (reference: central difference in p of the inner derivative)" % (un, side, p0)
                try:
                    with warnings.catch_warnings():
                        warnings.simplefilter("ignore")
                        F = lambda pv: float(onp.sum(w * elementwise_grad(lambda x: body(x, pv))(x0)))
                        fd1 = (F(p0 + 1e-5) - F(p0 - 1e-5)) / 2e-5
                        fd2 = (F(p0 + 5e-6) - F(p0 - 5e-6)) / 1e-5
                        if not (onp.isfinite(fd1) and onp.isfinite(fd2)) or abs(fd1 - fd2) > 1e-4 * max(1.0, abs(fd1)):
                            continue  # not a smooth point of the inner derivative (or not finite): no claim
                        bad = []
                        for cname, op in combos[:3]:
                            got = float(op(body, p0))
                            if not (onp.isfinite(got) and abs(got - fd1) <= 1e-4 * max(1.0, abs(fd1))):
                                bad.append("%s gives %r" % (cname, got))
                    out.append(_res(key, not bad, "" if not bad else "%s; central difference %r" % ("; ".join(bad), fd1)))
                except Exception as e:
                    continue  # no rule / unsupported operand: a loud refusal, not this probe's business
    # second derivative at a point where a rule's formula has a removable singularity (np.sinc at 0): a guard that makes the
    # FIRST derivative finite there must not freeze it (the second derivative of sinc at 0 is -pi^2/3, not 0).  Claimed only
    # when the first derivative comes out finite; a non-finite first derivative is the first-order probe's business.
    xs = onp.array([0.0, 0.5, -1.25])
    s2 = lambda x: onp.where(x == 0, -onp.pi ** 2 / 3.0, ((2.0 - (onp.pi * x) ** 2) * onp.sin(onp.pi * x) - 2.0 * onp.pi * x * onp.cos(onp.pi * x)) / (onp.pi * onp.where(x == 0, 1.0, x) ** 3))
    for cname, op in (("rev-over-rev", lambda: elementwise_grad(elementwise_grad(np.sinc))(xs)),
                      ("fwd-over-rev", lambda: make_jvp(elementwise_grad(np.sinc))(xs)(onp.ones(3))[1]),
                      ("rev-over-fwd", lambda: elementwise_grad(lambda x: dfw(np.sinc, x))(xs)),
                      ("fwd-over-fwd", lambda: make_jvp(lambda x: dfw(np.sinc, x))(xs)(onp.ones(3))[1])):
        key = "PINNED second order %s | np.sinc with a 0.0 in x (claimed where the first derivative is finite)" % cname
        try:
            with warnings.catch_warnings():
                warnings.simplefilter("ignore")
                first = onp.asarray(elementwise_grad(np.sinc)(xs) if "over-rev" in cname else dfw(np.sinc, xs), dtype=float)
                got = onp.asarray(op(), dtype=float)
            m = onp.isfinite(first)
            ok = bool(onp.all(onp.isfinite(got[m]))) and onp.allclose(got[m], s2(xs)[m], rtol=1e-8, atol=1e-10)
            out.append(_res(key, ok, "" if ok else "first derivative %r, second derivative %r, closed form %r" % (first.tolist(), got.tolist(), s2(xs).tolist())))
        except Exception as e:
            out.append({"key": key, "status": "raises", "detail": "%s: %s" % (type(e).__name__, str(e)[:100]), "paths": 1, "queries": 0, "validated": 0, "verdicts": {}, "prim": "pinned"})
    # reductions over TUPLES of axes (the rule tables treat None / int / tuple in separate branches, the two modes
    # separately): phi''(0) for phi(t) = f(x0 + t d) under all four assignments of modes to the two levels, against a
    # central second difference of NumPy's own function
    x3 = onp.cos(onp.arange(24.0)).reshape(2, 3, 4) + 0.3 * onp.arange(24.0).reshape(2, 3, 4) / 7.0
    d3 = onp.sin(onp.arange(24.0) * 1.7).reshape(2, 3, 4)
    w3 = {(0, 2): onp.array([1.0, -2.0, 0.5]), (1, 2): onp.array([1.5, -0.5]), (-1,): onp.ones((2, 3)) * 0.25, (0, 1): onp.array([1.0, 0.5, -1.0, 2.0]), (2, 0): onp.array([1.0, -2.0, 0.5]), (-1, -3): onp.array([1.0, -2.0, 0.5])}
    pre = lambda np, x: np.sin(x) + 0.5 * x * x
    reds = [("std", lambda np, a, ax: np.std(a, axis=ax)), ("var", lambda np, a, ax: np.var(a, axis=ax)), ("std ddof=1", lambda np, a, ax: np.std(a, axis=ax, ddof=1)), ("mean", lambda np, a, ax: np.mean(a, axis=ax)),
            ("sum", lambda np, a, ax: np.sum(a, axis=ax)), ("prod", lambda np, a, ax: np.prod(a, axis=ax)), ("max", lambda np, a, ax: np.max(a, axis=ax)), ("linalg.norm", lambda np, a, ax: np.linalg.norm(a, axis=ax) if len(ax) <= 2 else np.sum(a))]
    dsc = lambda f_: (lambda t0: make_jvp(f_)(t0)(1.0)[1])
    mode_pairs = [("rev-over-rev", lambda ph: grad(grad(ph))(0.0)), ("rev-over-fwd", lambda ph: grad(dsc(ph))(0.0)), ("fwd-over-rev", lambda ph: dsc(grad(ph))(0.0)), ("fwd-over-fwd", lambda ph: dsc(dsc(ph))(0.0))]
    for rn, red in reds:
        for ax, wv in w3.items():
            if rn == "linalg.norm" and len(ax) != 2:
                continue
            fnp = lambda xx, _r=red, _a=ax, _w=wv: float(onp.sum(_w * _r(onp, pre(onp, xx), _a)))
            hh = 1e-4
            ref = (fnp(x3 + hh * d3) - 2.0 * fnp(x3) + fnp(x3 - hh * d3)) / hh ** 2
            phi = lambda t, _r=red, _a=ax, _w=wv: np.sum(_w * _r(np, pre(np, x3 + t * d3), _a))
            for cname, op in mode_pairs:
                key = "PINNED nested %s | phi''(0) through np.%s(., axis=%r) of a (2,3,4) array" % (cname, rn, ax)
                try:
                    with warnings.catch_warnings():
                        warnings.simplefilter("ignore")
                        got = float(op(phi))
                    ok = onp.isfinite(got) and abs(got - ref) <= 2e-5 * max(1.0, abs(ref))
                    out.append(_res(key, ok, "" if ok else "got %r, central second difference of NumPy's function %r" % (got, ref)))
                except Exception as e:
                    out.append({"key": key, "status": "raises", "detail": "%s: %s" % (type(e).__name__, str(e)[:100]), "paths": 1, "queries": 0, "validated": 0, "verdicts": {}, "prim": "pinned"})
    # the generic Hessian-vector product of a container with a COMPLEX leaf, written with the vector space's own inner
    # product (what one writes for arbitrary parameter containers): grad_p <v, grad f(p)> with the traced gradient as the
    # second and as the first argument of inner_prod (the two core rules of VSpace.inner_prod), against each other and
    # against a central difference of the scalar along a third direction
    from autograd.core import vspace as _vspace

    rs_ = onp.random.RandomState(seed + 17)
    cz = lambda: rs_.randn(2) + 1j * rs_.randn(2)
    for lab, pt, vv, uu in (("tuple (complex array, real array)", (cz(), rs_.randn(2)), (cz(), rs_.randn(2)), (cz(), rs_.randn(2))),
                            ("dict {z: complex array, w: real array}", {"z": cz(), "w": rs_.randn(2)}, {"z": cz(), "w": rs_.randn(2)}, {"z": cz(), "w": rs_.randn(2)}),
                            ("bare complex array", cz(), cz(), cz())):
        getz = (lambda q: q[0]) if isinstance(pt, tuple) else ((lambda q: q["z"]) if isinstance(pt, dict) else (lambda q: q))
        getw = (lambda q: q[1]) if isinstance(pt, tuple) else ((lambda q: q["w"]) if isinstance(pt, dict) else (lambda q: onp.array([0.5, -1.5])))
        fcx = lambda q: np.sum(np.abs(getz(q)) ** 2 * getw(q)) + np.sum(np.real(getz(q) * getz(q))) * np.sum(getw(q) ** 2) + np.sum(np.imag(getz(q)) ** 3)
        vs_ = _vspace(pt)
        key = "PINNED second order | Hessian-vector product of a %s through vspace.inner_prod, traced gradient as second / first argument" % lab
        try:
            with warnings.catch_warnings():
                warnings.simplefilter("ignore")
                s1 = lambda q: vs_.inner_prod(vv, grad(fcx)(q))
                s2 = lambda q: vs_.inner_prod(grad(fcx)(q), vv)
                h1, h2 = grad(s1)(pt), grad(s2)(pt)
                step = lambda t: vs_.add(pt, vs_.scalar_mul(uu, t))
                fd = (float(s1(step(1e-6))) - float(s1(step(-1e-6)))) / 2e-6
                d1 = float(vs_.inner_prod(vs_.covector(h1), uu))
                d2 = float(vs_.inner_prod(vs_.covector(h2), uu))
            bad = []
            if abs(d1 - fd) > 1e-5 * max(1.0, abs(fd)):
                bad.append("traced gradient as SECOND argument: <hv, u> = %r, central difference %r" % (d1, fd))
            if abs(d2 - fd) > 1e-5 * max(1.0, abs(fd)):
                bad.append("traced gradient as FIRST argument: <hv, u> = %r, central difference %r" % (d2, fd))
            out.append(_res(key, not bad, "; ".join(bad)))
        except Exception as e:
            out.append({"key": key, "status": "raises", "detail": "%s: %s" % (type(e).__name__, str(e)[:100]), "paths": 1, "queries": 0, "validated": 0, "verdicts": {}, "prim": "pinned"})
    # base and exponent / both operands traced at the SAME level, the scalar one at a pinned value
    a = 0.8
    same = [
        ("(t * a) ** t", lambda t: (t * a) ** t, lambda t: (t * a) ** t * (L(t * a) + 1), (2.0, 1.0, 3.0, 0.5)),
        ("np.sum(x0 * t) ** t", lambda t: np.sum(x0 * t) ** t, lambda t: (onp.sum(x0) * t) ** t * (L(onp.sum(x0) * t) + 1), (2.0, 1.0)),
        ("(t + 1) * t  [t = 0: a factor equal to 1 and one equal to 0]", lambda t: (t + 1.0) * t, lambda t: 2 * t + 1, (0.0, 1.0)),
        ("np.sin(t) / t * t", lambda t: np.sin(t) / t * t, lambda t: onp.cos(t), (1.0, 2.0)),
    ]
    for lab, f, closed, pins in same:
        for t0 in pins:
            want = float(closed(t0))
            for cname, op in (("grad", lambda: grad(f)(t0)), ("make_jvp", lambda: make_jvp(f)(t0)(1.0)[1]),
                              ("second derivative consistency (grad of grad vs jvp of grad)", lambda: float(grad(grad(f))(t0)) - float(make_jvp(grad(f))(t0)(1.0)[1]) + want)):
                key = "PINNED same-level %s | %s at t = %r" % (cname, lab, t0)
                try:
                    with warnings.catch_warnings():
                        warnings.simplefilter("ignore")
                        got = float(op())
                    ok = onp.isfinite(got) and abs(got - want) <= 1e-9 * max(1.0, abs(want))
                    out.append(_res(key, ok, "" if ok else "got %r, closed form %r" % (got, want)))
                except Exception as e:
                    out.append({"key": key, "status": "raises", "detail": "%s: %s" % (type(e).__name__, str(e)[:100]), "paths": 1, "queries": 0, "validated": 0, "verdicts": {}, "prim": "pinned"})
    return out


def run_complex(seed=0):
    """C09 at pinned points of complex-typed inputs: exact zeros, integer exponents, and np.real_if_close, whose OUTPUT KIND
    depends on the data (a complex-typed input with zero imaginary parts gives a real result: locally z -> Re z, so a
    complex tangent v maps to Re v and the cotangent of the complex input is the real g lifted to complex).
    forward: jvp(v) == closed form for a complex tangent; reverse: <g, jvp(e)>_R == <vjp(g), e>_R for e in {1, i} e_k."""
    import numpy as onp
    import autograd.numpy as np
    from autograd import make_jvp, make_vjp

    z0 = onp.array([0.0 + 0.0j, 1.5 + 0.5j, -2.0j])
    zr = onp.array([0.0 + 0.0j, 1.5 + 0.0j, -2.0 + 0.0j])  # complex dtype, every imaginary part exactly zero
    v = onp.array([0.7 + 0.3j, -1.3 - 0.9j, 2.1 + 1.7j])
    c3 = onp.array([2.0, -1.0, 0.5])
    C = []
    for k in (0, 1, 2, 3):
        C.append(("z ** %d with 0j in z" % k, lambda np, z, _k=k: z ** _k, z0, lambda z, t, _k=k: t * (_k * z ** (_k - 1) if _k else 0.0 * z)))
        C.append(("np.power(z, %d) with 0j in z" % k, lambda np, z, _k=k: np.power(z, _k), z0, lambda z, t, _k=k: t * (_k * z ** (_k - 1) if _k else 0.0 * z)))
    # a COMPLEX base differentiated w.r.t. the exponent: d/dw b**w = log(b) b**w with the complex logarithm (arg(b) included;
    # log|b| alone is right for positive real bases only)
    B0 = onp.array([0.5 + 1.5j, -2.0 + 0.5j, 1j])
    W0 = onp.array([0.3 - 0.2j, 1.0 + 0.5j, -0.7 + 0.0j])
    C.append(("b ** w w.r.t. the exponent, complex base b", lambda np, w: B0 ** w, W0, lambda w, t: onp.log(B0) * B0 ** w * t))
    C.append(("np.power(b, w) w.r.t. the exponent, complex base b", lambda np, w: np.power(B0, w), W0, lambda w, t: onp.log(B0) * B0 ** w * t))
    C.append(("np.real(b ** w) + np.abs(np.power(b, w)) ** 2, complex base", lambda np, w: np.real(B0 ** w) + np.abs(np.power(B0, w)) ** 2, W0,
              lambda w, t: onp.real(onp.log(B0) * B0 ** w * t) + 2.0 * onp.real(onp.conj(B0 ** w) * onp.log(B0) * B0 ** w * t)))
    C.append(("z ** w w.r.t. the base, complex exponent", lambda np, z: z ** W0, B0, lambda z, t: W0 * z ** (W0 - 1) * t))
    C.append(("z * z + np.conj(z) * z at 0j", lambda np, z: z * z + np.conj(z) * z, z0, lambda z, t: 2 * z * t + onp.conj(t) * z + onp.conj(z) * t))
    C.append(("np.real_if_close(z) * c on complex-typed z with zero imaginary parts (real result)", lambda np, z: np.real_if_close(z) * c3, zr, lambda z, t: onp.real(t) * c3))
    C.append(("np.sin(np.real_if_close(z)) on complex-typed z with zero imaginary parts", lambda np, z: np.sin(np.real_if_close(z)), zr, lambda z, t: onp.cos(onp.real(z)) * onp.real(t)))
    C.append(("np.real_if_close(z) on z with visible imaginary parts (complex result)", lambda np, z: np.real_if_close(z) * (1.0 + 2.0j), z0 + 0.25j, lambda z, t: t * (1.0 + 2.0j)))
    C.append(("np.real(z) * np.imag(z) + np.abs(z) ** 2 away from 0", lambda np, z: np.real(z) * np.imag(z) + np.abs(z) ** 2, z0 + (1.0 + 1.0j),
              lambda z, t: onp.real(t) * onp.imag(z) + onp.real(z) * onp.imag(t) + 2.0 * onp.real(onp.conj(z) * t)))
    out = []
    rin = lambda a, b: float(onp.sum(onp.real(onp.conj(a) * b)))
    for lab, f, x0, closed in C:
        key = "PINNED complex jvp | %s" % lab
        try:
            with warnings.catch_warnings():
                warnings.simplefilter("ignore")
                got = onp.asarray(make_jvp(lambda z: f(np, z))(x0)(v)[1])
                want = onp.asarray(closed(x0, v))
                y = onp.asarray(f(onp, x0))
            ok = got.shape == want.shape and bool(onp.all(onp.isfinite(got))) and onp.allclose(got, want, rtol=1e-9, atol=1e-12) and (onp.iscomplexobj(got) == onp.iscomplexobj(y))
            out.append(_res(key, ok, "" if ok else "got %r (kind of the result: %s), closed form %r" % (got.tolist(), y.dtype, want.tolist())))
        except Exception as e:
            out.append({"key": key, "status": "raises", "detail": "%s: %s" % (type(e).__name__, str(e)[:100]), "paths": 1, "queries": 0, "validated": 0, "verdicts": {}, "prim": "pinned"})
        key = "PINNED complex vjp | %s" % lab
        try:
            with warnings.catch_warnings():
                warnings.simplefilter("ignore")
                y = onp.asarray(f(onp, x0))
                g = (onp.cos(onp.arange(3.0)) + 1.5) * ((1.0 - 0.5j) if onp.iscomplexobj(y) else 1.0)
                r = onp.asarray(make_vjp(lambda z: f(np, z))(x0)[0](g))
                bad = []
                for k in range(3):
                    for unit in (1.0, 1.0j):
                        e = onp.zeros(3, dtype=complex)
                        e[k] = unit
                        # autograd's convention: <conj(vjp(g)), e>_R == <conj(g), J_R e>_R
                        lhs, rhs = rin(onp.conj(r), e), rin(onp.conj(g), onp.asarray(closed(x0, e)))
                        if not (onp.isfinite(lhs) and abs(lhs - rhs) <= 1e-9 * max(1.0, abs(rhs))):
                            bad.append((k, unit, lhs, rhs))
            ok = not bad and r.shape == x0.shape and onp.iscomplexobj(r)
            out.append(_res(key, ok, "" if ok else "cotangent %r; mismatching (entry, direction, got, want): %r" % (r.tolist(), bad[:3])))
        except Exception as e:
            out.append({"key": key, "status": "raises", "detail": "%s: %s" % (type(e).__name__, str(e)[:100]), "paths": 1, "queries": 0, "validated": 0, "verdicts": {}, "prim": "pinned"})
    return out
