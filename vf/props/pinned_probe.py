"""C02 (and C01) at pinned REGULAR points that generic-position reasoning never visits: exact zeros, exponent 0, equal
operands where the function is nevertheless smooth (x**0, x**2 at x = 0, polynomial features of data containing 0.0,
x/x-free identities).  The symbolic engine assumes generic values (smooth-point claims), so these isolated regular
points are probed on float64 against closed forms: both modes must return the finite closed-form derivative or raise."""
import warnings


def _res(key, ok, detail=""):
    return {"key": key, "status": "holds" if ok else "violation", "detail": detail, "paths": 1, "queries": 0, "validated": 1 if ok else 0, "verdicts": {},
            "prim": "pinned", "cex": None if ok else {"mode": "pinned", "key": key}}


def cases():
    import numpy as onp

    x0 = onp.array([0.0, 1.5, -2.0])
    polyfeat = lambda np, x: x[:, None] ** onp.arange(4)
    C = []
    for k in (0, 1, 2, 3, 0.0, 2.0):
        C.append(("np.power(x, %r) with a 0.0 in x" % (k,), lambda np, x, _k=k: np.power(x, _k), x0, lambda x, v, _k=k: v * (_k * x ** (_k - 1) if _k not in (0, 0.0) else 0.0 * x)))
        C.append(("x ** %r with a 0.0 in x" % (k,), lambda np, x, _k=k: x ** _k, x0, lambda x, v, _k=k: v * (_k * x ** (_k - 1) if _k not in (0, 0.0) else 0.0 * x)))
    C.append(("polynomial features x[:,None] ** arange(4) with a 0.0 in x", polyfeat, x0,
              lambda x, v: v[:, None] * onp.stack([0.0 * x, 1.0 + 0.0 * x, 2.0 * x, 3.0 * x ** 2], axis=1)))
    C.append(("np.square / np.multiply at 0", lambda np, x: np.square(x) + np.multiply(x, x), x0, lambda x, v: 4.0 * x * v))
    C.append(("np.sin(x)/1 + x*np.cos(x) at 0", lambda np, x: np.sin(x) + x * np.cos(x), x0, lambda x, v: v * (2.0 * onp.cos(x) - x * onp.sin(x))))
    C.append(("np.tanh, np.arctan, np.expm1, np.log1p at 0", lambda np, x: np.tanh(x) + np.arctan(x) + np.expm1(x) + np.log1p(x * x), x0,
              lambda x, v: v * (1.0 - onp.tanh(x) ** 2 + 1.0 / (1.0 + x * x) + onp.exp(x) + 2.0 * x / (1.0 + x * x))))
    C.append(("np.sum / np.prod-free reductions with zeros: mean, var", lambda np, x: np.mean(x) + np.var(x), x0, lambda x, v: onp.sum(v) / 3.0 + onp.sum(2.0 * (x - onp.mean(x)) * (v - onp.mean(v))) / 3.0))
    C.append(("np.where(x == 0, 1.0, x) * x", lambda np, x: np.where(x == 0, 1.0, x) * x, x0, lambda x, v: v * onp.where(x == 0, 1.0, 2.0 * x)))
    # NaN-ignoring selectors: where the OTHER operand is NaN the result is x itself (derivative 1): a regular point
    YN = onp.array([onp.nan, 1.0, onp.nan])
    C.append(("np.fmax(x, y) with NaN entries in y", lambda np, x: np.fmax(x, YN), x0, lambda x, v: v * onp.where(onp.isnan(YN) | (x > YN), 1.0, 0.0)))
    C.append(("np.fmin(y, x) with NaN entries in y", lambda np, x: np.fmin(YN, x), x0, lambda x, v: v * onp.where(onp.isnan(YN) | (x < YN), 1.0, 0.0)))
    C.append(("np.nansum-free: np.where(isnan(y), x, x*y)", lambda np, x: np.where(onp.isnan(YN), x, x * 2.0), x0, lambda x, v: v * onp.where(onp.isnan(YN), 1.0, 2.0)))
    # masked-out branches whose downstream derivative is infinite or NaN at the constant: the derivative there is an exact 0
    xm = onp.array([0.0, 1.5, -2.0])
    C.append(("safe sqrt: np.sqrt(np.where(x > 0, x, 0.0)) with non-positive entries", lambda np, x: np.sqrt(np.where(x > 0, x, 0.0)), xm,
              lambda x, v: v * onp.where(x > 0, 0.5 / onp.sqrt(onp.where(x > 0, x, 1.0)), 0.0), ("vjp",)))
    # (reverse mode only: in forward mode the zero tangent meets sqrt'(0) = inf downstream, 0 * inf = nan is inherent to
    # forward-mode AD without the double-where idiom, not a defect of a rule)
    C.append(("safe log: np.where(x > 0, np.log(np.where(x > 0, x, 1.0)), 0.0)", lambda np, x: np.where(x > 0, np.log(np.where(x > 0, x, 1.0)), 0.0), xm,
              lambda x, v: v * onp.where(x > 0, 1.0 / onp.where(x > 0, x, 1.0), 0.0)))
    C.append(("np.where(x > 0, 0.0, x) ** 0.5-free: 1 / np.where(x == 0, 1.0, x) masked by where", lambda np, x: np.where(x == 0, 0.0, 1.0 / np.where(x == 0, 1.0, x)), xm,
              lambda x, v: v * onp.where(x == 0, 0.0, -1.0 / onp.where(x == 0, 1.0, x) ** 2)))
    return C


def adjoint_points():
    """(label, f, point): forward and reverse mode must pair up, <g, jvp(v)> == <vjp(g), v>, also AT the non-smooth
    points the rules handle explicitly (C04 is stated wherever both modes are defined)"""
    import numpy as onp

    xb = onp.array([0.0, 0.25, 1.0, 0.5, 1.0, 0.0])
    xt = onp.array([1.0, 1.0, 0.5, 1.0])
    return [
        ("np.clip(x, 0, 1) with entries exactly on both bounds", lambda np, x: np.clip(x, 0.0, 1.0), xb),
        ("sin(clip(2x - 0.5, 0, 1)) landing on a bound", lambda np, x: np.sin(np.clip(2.0 * x - 0.5, 0.0, 1.0)), onp.array([0.25, 0.75, 0.5, 0.1])),
        ("np.maximum(x, 0.25) / np.minimum(x, 1.0) at ties", lambda np, x: np.maximum(x, 0.25) + np.minimum(x, 1.0) * 2.0, xb),
        ("np.fmax(x, x[::-1]) at ties", lambda np, x: np.fmax(x, x[::-1]), xt),
        ("np.max / np.min over tied entries", lambda np, x: np.max(x) * 2.0 + np.min(x), xt),
        ("np.amax(x, axis) with ties along the axis", lambda np, x: np.amax(np.reshape(x, (2, 2)), axis=0), xt),
        ("np.abs / np.absolute at 0", lambda np, x: np.abs(x) + np.absolute(x * 2.0), xb),
        ("np.sort with ties", lambda np, x: np.sort(x) * onp.arange(1.0, 5.0), xt),
    ]


def run_adjoint(seed=0):
    import numpy as onp
    import autograd.numpy as np
    from autograd import make_jvp, make_vjp

    out = []
    rs = onp.random.RandomState(seed + 5)
    for lab, f, x0 in adjoint_points():
        key = "PINNED adjoint | %s" % lab
        try:
            with warnings.catch_warnings():
                warnings.simplefilter("ignore")
                bad = None
                for _ in range(3):
                    v = rs.randn(*x0.shape)
                    y, t = make_jvp(lambda x: f(np, x))(x0)(v)
                    g = rs.randn(*onp.shape(y))
                    c = make_vjp(lambda x: f(np, x))(x0)[0](g)
                    a, b = float(onp.sum(g * t)), float(onp.sum(c * v))
                    if not (onp.isfinite(a) and onp.isfinite(b) and abs(a - b) <= 1e-9 * max(1.0, abs(a), abs(b))):
                        bad = "<g, jvp(v)> = %.12g but <vjp(g), v> = %.12g at x = %r" % (a, b, x0.tolist())
                out.append(_res(key, bad is None, bad or ""))
        except Exception as e:
            out.append({"key": key, "status": "raises", "detail": "%s: %s" % (type(e).__name__, str(e)[:100]), "paths": 1, "queries": 0, "validated": 0, "verdicts": {}, "prim": "pinned"})
    return out


def run(seed=0):
    import numpy as onp
    import autograd.numpy as np
    from autograd import make_jvp, make_vjp

    out = []
    v = onp.array([0.7, -1.3, 2.1])
    for case in cases():
        lab, f, x0, dclosed = case[:4]
        want = onp.asarray(dclosed(x0, v), dtype=float)
        for mode in (case[4] if len(case) > 4 else ("jvp", "vjp")):
            key = "PINNED %s | %s" % (mode, lab)
            try:
                with warnings.catch_warnings():
                    warnings.simplefilter("ignore")
                    if mode == "jvp":
                        got = onp.asarray(make_jvp(lambda x: f(np, x))(x0)(v)[1], dtype=float)
                        ok = got.shape == want.shape and bool(onp.all(onp.isfinite(got))) and onp.allclose(got, want, rtol=1e-9, atol=1e-12)
                    else:
                        y = onp.asarray(f(onp, x0), dtype=float)
                        g = onp.cos(onp.arange(y.size, dtype=float)).reshape(y.shape) + 1.5
                        got = onp.asarray(make_vjp(lambda x: f(np, x))(x0)[0](g), dtype=float)
                        # <vjp(g), e_i> = <g, J e_i>
                        wantv = onp.array([onp.sum(g * onp.asarray(dclosed(x0, e), dtype=float)) for e in onp.eye(3)])
                        ok = got.shape == x0.shape and bool(onp.all(onp.isfinite(got))) and onp.allclose(got, wantv, rtol=1e-9, atol=1e-12)
                        want_show = wantv
                out.append(_res(key, ok, "" if ok else "got %r, closed form %r (x = %r)" % (got.tolist(), (want if mode == "jvp" else want_show).tolist(), x0.tolist())))
            except Exception as e:
                out.append({"key": key, "status": "raises", "detail": "%s: %s" % (type(e).__name__, str(e)[:100]), "paths": 1, "queries": 0, "validated": 0, "verdicts": {}, "prim": "pinned"})
    return out


if __name__ == "__main__":
    for r in run() + run_adjoint():
        print(r["status"], r["key"], r["detail"][:200])
