"""C02 (and C01) at pinned REGULAR points that generic-position reasoning never visits: exact zeros, exponent 0, equal
operands where the function is nevertheless smooth (x**0, x**2 at x = 0, polynomial features of data containing 0.0,
x/x-free identities).  The symbolic engine assumes generic values (smooth-point claims), so these isolated regular
points are probed on float64 against closed forms: both modes must return the finite closed-form derivative or raise."""
import warnings


def _res(key, ok, detail=""):
    return {"key": key, "status": "holds" if ok else "violation", "detail": detail, "paths": 1, "queries": 0, "validated": 1 if ok else 0, "verdicts": {},
            "prim": "pinned", "cex": None if ok else {"mode": "pinned", "key": key}}


def cases():
    import numpy as onp

    x0 = onp.array([0.0, 1.5, -2.0])
    polyfeat = lambda np, x: x[:, None] ** onp.arange(4)
    C = []
    for k in (0, 1, 2, 3, 0.0, 2.0):
        C.append(("np.power(x, %r) with a 0.0 in x" % (k,), lambda np, x, _k=k: np.power(x, _k), x0, lambda x, v, _k=k: v * (_k * x ** (_k - 1) if _k not in (0, 0.0) else 0.0 * x)))
        C.append(("x ** %r with a 0.0 in x" % (k,), lambda np, x, _k=k: x ** _k, x0, lambda x, v, _k=k: v * (_k * x ** (_k - 1) if _k not in (0, 0.0) else 0.0 * x)))
    C.append(("polynomial features x[:,None] ** arange(4) with a 0.0 in x", polyfeat, x0,
              lambda x, v: v[:, None] * onp.stack([0.0 * x, 1.0 + 0.0 * x, 2.0 * x, 3.0 * x ** 2], axis=1)))
    C.append(("np.square / np.multiply at 0", lambda np, x: np.square(x) + np.multiply(x, x), x0, lambda x, v: 4.0 * x * v))
    C.append(("np.sin(x)/1 + x*np.cos(x) at 0", lambda np, x: np.sin(x) + x * np.cos(x), x0, lambda x, v: v * (2.0 * onp.cos(x) - x * onp.sin(x))))
    C.append(("np.tanh, np.arctan, np.expm1, np.log1p at 0", lambda np, x: np.tanh(x) + np.arctan(x) + np.expm1(x) + np.log1p(x * x), x0,
              lambda x, v: v * (1.0 - onp.tanh(x) ** 2 + 1.0 / (1.0 + x * x) + onp.exp(x) + 2.0 * x / (1.0 + x * x))))
    C.append(("np.sum / np.prod-free reductions with zeros: mean, var", lambda np, x: np.mean(x) + np.var(x), x0, lambda x, v: onp.sum(v) / 3.0 + onp.sum(2.0 * (x - onp.mean(x)) * (v - onp.mean(v))) / 3.0))
    C.append(("np.where(x == 0, 1.0, x) * x", lambda np, x: np.where(x == 0, 1.0, x) * x, x0, lambda x, v: v * onp.where(x == 0, 1.0, 2.0 * x)))
    return C


def run(seed=0):
    import numpy as onp
    import autograd.numpy as np
    from autograd import make_jvp, make_vjp

    out = []
    v = onp.array([0.7, -1.3, 2.1])
    for lab, f, x0, dclosed in cases():
        want = onp.asarray(dclosed(x0, v), dtype=float)
        for mode in ("jvp", "vjp"):
            key = "PINNED %s | %s" % (mode, lab)
            try:
                with warnings.catch_warnings():
                    warnings.simplefilter("ignore")
                    if mode == "jvp":
                        got = onp.asarray(make_jvp(lambda x: f(np, x))(x0)(v)[1], dtype=float)
                        ok = got.shape == want.shape and bool(onp.all(onp.isfinite(got))) and onp.allclose(got, want, rtol=1e-9, atol=1e-12)
                    else:
                        y = onp.asarray(f(onp, x0), dtype=float)
                        g = onp.cos(onp.arange(y.size, dtype=float)).reshape(y.shape) + 1.5
                        got = onp.asarray(make_vjp(lambda x: f(np, x))(x0)[0](g), dtype=float)
                        # <vjp(g), e_i> = <g, J e_i>
                        wantv = onp.array([onp.sum(g * onp.asarray(dclosed(x0, e), dtype=float)) for e in onp.eye(3)])
                        ok = got.shape == x0.shape and bool(onp.all(onp.isfinite(got))) and onp.allclose(got, wantv, rtol=1e-9, atol=1e-12)
                        want_show = wantv
                out.append(_res(key, ok, "" if ok else "got %r, closed form %r (x = %r)" % (got.tolist(), (want if mode == "jvp" else want_show).tolist(), x0.tolist())))
            except Exception as e:
                out.append({"key": key, "status": "raises", "detail": "%s: %s" % (type(e).__name__, str(e)[:100]), "paths": 1, "queries": 0, "validated": 0, "verdicts": {}, "prim": "pinned"})
    return out


if __name__ == "__main__":
    for r in run():
        print(r["status"], r["key"], r["detail"][:200])
