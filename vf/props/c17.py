"""C17 — user-defined primitives obey the extension contract; checkpoint is transparent (Engine B + A)."""
from ..ch.prop import BProp


def conditions(tier):
    H = "vf.ch.h_ext"
    T = {"quick": 240, "thorough": 900}
    return [dict(module=H, func="_contract1", cases=4, what="arity 1, four registration APIs (fast path L==1)"),
            dict(module=H, func="_contract2", cases=4 * 3 * 3, what="arity 2: APIs x None-mask x differentiated subset (fast path L==2)", timeout=T),
            dict(module=H, func="_contract3", cases=4 * 7 * 7, what="arity 3: APIs x None-mask x differentiated subset (generic path), keyword argument passed through", timeout=T),
            dict(module=H, func="_contract5", cases=4 * 4 * 31, what="arity 5: APIs x None-mask x every non-empty differentiated subset", timeout=T),
            dict(module=H, func="_contract_reach", expect="counterexample", what="reachability twin"),
            dict(module=H, func="_jvpapi3", cases=4 * 7 * 2, what="forward-mode APIs: defjvp callables / 'same' / None, defjvp_argnum, def_linear", timeout=T),
            dict(module=H, func="_linear_container3", cases=3 * 7 * 2, what="tuple- / list-valued primitive registered with def_linear / 'same' / defjvp_argnum, several arguments differentiated at once: leaf-wise sum in the output's vector space", timeout=T),
            dict(module=H, func="_same_argnums3", cases=7 * 7, what="defjvp(p, 'same', ..., argnums=subset): the shorthand substitutes the tangent at the ARGUMENT number it is registered for, unregistered positions raise", timeout=T),
            dict(module=H, func="_kw_levels", cases=8, what="positional argument traced by the inner of two nested traces, KEYWORD argument by the outer one (both modes at both levels): the keyword value reaches raw function and rule unchanged, its dependence survives", timeout=T),
            dict(module=H, func="_levels", cases=8, what="arguments assigned to the inner or the outer of two nested traces, both modes, symbolic trace counter"),
            dict(module=H, func="_missing1", cases=6, what="missing rule raises, arity 1"),
            dict(module=H, func="_missing2", cases=3 * 4 * 3 * 2, what="missing rule raises / None gives zero, arity 2", timeout=T),
            dict(module=H, func="_missing3", cases=3 * 8 * 7 * 2, what="missing rule raises / None gives zero, arity 3", timeout=T)]


def extra(tier):
    from . import progs_a
    return progs_a.run("C17", tier)


BProp("C17", conditions,
      functions=["autograd.core:defvjp (L==1, L==2, generic paths; translate_vjp(None))", "autograd.core:defvjp_argnum", "autograd.core:defvjp_argnums", "autograd.core:defjvp / translate_jvp ('same', None)",
                 "autograd.core:defjvp_argnum", "autograd.core:def_linear", "autograd.tracer:primitive.f_wrapped (argvals unboxed at this level only, kwargs, argnums, parents)",
                 "autograd.differential_operators:checkpoint (Engine A part)"],
      files=["autograd/core.py", "autograd/tracer.py", "autograd/extend.py", "autograd/differential_operators.py"],
      bounds={"arity": "1, 2, 3, 5", "differentiated positions": "every non-empty subset", "registration APIs": "defvjp / defvjp(argnums=) / defvjp_argnum / defvjp_argnums ; defjvp / 'same' / None / defjvp_argnum / def_linear",
              "trace levels": "2", "checkpoint": "program grid, derivative orders 1 and 2", "outside": "arity 4 and > 5, more than 2 trace levels for one primitive call"},
      claims=["each registered rule is invoked exactly once with the primitive's output, the original (unboxed) argument values and the keyword arguments; its result reaches exactly that argument's gradient; None positions contribute zero; a missing rule raises",
              "checkpoint(f) has the value and the reverse-mode derivatives of order 1 and 2 of f (solver equality on symbolic arrays)"],
      extra=extra).export(globals())
