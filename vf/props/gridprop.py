"""Shared driver for properties decided by Engine A over a configuration grid."""
import json
import os
import re
import time

from .. import enga, runner, stubs
from ..enga import Config, R, SC

ENGINE_A_FUNCS = ["autograd.tracer:primitive.f_wrapped", "autograd.tracer:trace", "autograd.tracer:find_top_boxed_args", "autograd.tracer:new_box",
                  "autograd.core:make_vjp", "autograd.core:backward_pass", "autograd.core:VJPNode.__init__", "autograd.core:defvjp.vjp_argnums",
                  "autograd.core:defvjp_argnum.vjp_argnums", "autograd.core:add_outgrads", "autograd.core:vspace", "autograd.util:toposort"]
ENGINE_A_ASSUME = [
    "values are exact reals (object-dtype arrays of symbolic scalars): floating-point rounding, overflow and dtype preservation are outside the claim",
    "shapes, axes and keyword arguments are concrete per configuration (enumerated grid); array entries, cotangents, tangents and directions are symbolic",
    "generic position: values compared by the code that are not forced equal are assumed different (smooth-point claims); domain assumptions: denominators != 0, log/root/power arguments > 0",
    "transcendental element functions are abstracted to fresh constants with ground axioms (sound for unsat); their oracle derivatives come from a textbook table",
    "NumPy functions without an object-dtype path are replaced by the stubs listed under coverage.stubs, validated on every configuration against the float64 run",
    "oracle = NumPy's own primal executed on dual numbers; trusted: NumPy's object-dtype kernels agree with its float kernels (checked per configuration by concretisation)",
]


def selftest_configs():
    """vacuity guard: wrong rules planted through the PUBLIC extension API must be reported as violations"""
    from autograd.extend import primitive, defvjp, defjvp
    import autograd.numpy as anp
    import numpy as onp

    @primitive
    def st_scale(x):
        return 3.0 * x * x

    defvjp(st_scale, lambda ans, x: lambda g: g * 6.0 * x * (1.0 + 1e-3))
    defjvp(st_scale, lambda g, ans, x: g * 6.0 * x * (1.0 - 1e-3))

    @primitive
    def st_mat(x):
        return onp.dot(x, onp.array([[1.0, 2.0], [3.0, 4.0]]))

    defvjp(st_mat, lambda ans, x: lambda g: anp.dot(g, onp.array([[1.0, 2.0], [3.0, 4.0]])))  # missing transpose
    defjvp(st_mat, lambda g, ans, x: anp.dot(g, onp.array([[1.0, 2.0], [3.0, 4.0]])))  # correct

    @primitive
    def st_ok(x):
        return 3.0 * x * x

    defvjp(st_ok, lambda ans, x: lambda g: g * 6.0 * x)
    defjvp(st_ok, lambda g, ans, x: g * 6.0 * x)

    def call(p):
        return lambda np, x: p(x)

    return [
        Config("SELFTEST", "planted VJP/JVP factor 1+-1e-3 [expect violation]", call(st_scale), [R(2)], 0, tags=("selftest", "expect_violation")),
        Config("SELFTEST", "planted missing transpose in the VJP only [expect violation; C02: expect holds]", call(st_mat), [R(2, 2)], 0, tags=("selftest", "expect_violation")),
        Config("SELFTEST", "correct user primitive [expect holds]", call(st_ok), [R(2)], 0, tags=("selftest", "expect_holds")),
    ]


def split_selftest(results, pid=None):
    st = [r for r in results if r["key"].startswith("SELFTEST")]
    rest = [r for r in results if not r["key"].startswith("SELFTEST")]
    ok = True
    rep = []
    for r in st:
        want = "violation" if "expect violation" in r["key"] else "holds"
        if pid and ("%s: expect holds" % pid) in r["key"]:
            want = "holds"
        good = r["status"] == want
        ok = ok and good
        rep.append({"case": r["key"], "expected": want, "got": r["status"]})
    return rest, {"ok": ok, "cases": rep}


def filter_only(items, only):
    if not only:
        return items
    rx = re.compile(only)
    return [c for c in items if rx.search(c.key) or c.key.startswith("SELFTEST")]


class GridProp:
    """boilerplate for a property decided by Engine A over a grid of configurations"""

    def __init__(self, pid, modname, items_fn, check_fn, files, functions, bounds, claims, replay_mode="vjp", selftest=True):
        self.ID = pid
        self.MOD = modname
        self.items_fn = items_fn
        self.check_fn = check_fn
        self.files = files
        self.functions = functions
        self.bounds = bounds
        self.claims = claims
        self.selftest = selftest

    def worker_init(self, tier):
        enga.init()

    def items(self, tier):
        enga.init()
        its = list(self.items_fn(tier))
        if self.selftest:
            its += selftest_configs()
        return filter_only(its, os.environ.get("VF_ONLY"))

    def item_key(self, cfg):
        return cfg.key

    def check(self, cfg, tier):
        return self.check_fn(cfg, tier)

    def main(self, tier, only=None):
        from .. import checks_a

        t0 = time.time()
        if only:
            os.environ["VF_ONLY"] = only
        results = runner.run_items(self.MOD, tier)
        extra_mod = os.environ.pop("VF_EXTRA_RESULTS", None)
        if extra_mod and not only:
            import importlib

            enga.init()
            for em in extra_mod.split(","):
                results += importlib.import_module(em).run(runner.SEED)
        st = None
        if self.selftest:
            results, st = split_selftest(results, self.ID)
        b = dict(self.bounds)
        b.update({"tier": tier, "path_bound_per_configuration": checks_a.tier_opts(tier)["max_paths"], "query_timeout_ms": checks_a.tier_opts(tier)["timeout_ms"]})
        return runner.finish(self.ID, tier, results, t0, functions=ENGINE_A_FUNCS + self.functions, files=self.files, bounds=b,
                             assumptions=ENGINE_A_ASSUME + self.claims, stubs=dict(stubs.STUBS), selftest=st)

    def replay(self, path):
        from .. import checks_a

        return checks_a.replay_file(self.ID, path, self.items("thorough") + self.items("quick"))

    def export(self, g):
        for n in ("ID", "MOD", "worker_init", "items", "item_key", "check", "main", "replay"):
            g[n] = getattr(self, n)
