"""reverse-mode half of the pinned-point probe (C01)"""
from . import pinned_probe


def run(seed=0):
    return [r for r in pinned_probe.run(seed) if r["key"].startswith("PINNED vjp")] + pinned_probe.run_linear_extreme(seed)
