"""C10 harnesses (CrossHair): the ownership protocol of core.add_outgrads / sparse_add / VSpace.mut_add, and reuse of
VJP functions.  Contributions are symbolically sparse or dense and may ALIAS one another (the same object handed to
several parents, exactly what rules such as `lambda g: g` do)."""
import autograd.core as core
from autograd.core import SparseObject, add_outgrads
from vf.ch.qtypes import MUT_LOG, Q, QVSpace, defvjp, make_vjp, primitive

SP_LOG = []


def mk_sparse(val):
    def mut_add(A):
        SP_LOG.append(id(A))
        A.v = A.v + val  # in-place scatter-add into the buffer it is given
        return A

    return SparseObject(QVSpace(None), mut_add)


def fold(vals, sparse, alias):
    """fold add_outgrads over len(vals) contributions; alias[i] = j < i reuses the OBJECT of contribution j (if both
    dense), else a fresh object"""
    del MUT_LOG[:]
    del SP_LOG[:]
    n = len(vals)
    objs = []
    for i in range(n):
        if sparse[i]:
            objs.append(mk_sparse(vals[i]))
        else:
            j = alias[i]
            if 0 <= j < i and not sparse[j]:
                objs.append(objs[j])
            else:
                objs.append(Q(vals[i]))
    dense_ids = {id(o) for i, o in enumerate(objs) if not sparse[i]}
    before = [(o.v if not sparse[i] else None) for i, o in enumerate(objs)]
    acc = None
    for o in objs:
        acc = add_outgrads(acc, o)
    res = acc[0]
    total = 0
    for i in range(n):
        total = total + (vals[i] if sparse[i] else objs[i].v)
    # 1. no in-place write ever targets a contribution object (memory the fold does not own)
    for t in MUT_LOG + SP_LOG:
        if t in dense_ids:
            return False
    # 2. contributions are unchanged
    for i in range(n):
        if not sparse[i] and objs[i].v != before[i]:
            return False
    # 3. the accumulated value is the sum
    val = res.v if isinstance(res, Q) else None
    return val == total


def _fold3(v0: int, v1: int, v2: int, s0: bool, s1: bool, s2: bool, a1: int, a2: int) -> bool:
    """
    pre: -1 <= a1 <= 0 and -1 <= a2 <= 1
    post: _
    """
    # (a purely sparse sequence accumulates into a fresh zeros buffer; the result is still a Q)
    return fold([v0, v1, v2], [s0, s1, s2], [-1, a1, a2])


def _fold4(v0: int, v1: int, v2: int, v3: int, s0: bool, s1: bool, s2: bool, s3: bool, a1: int, a2: int, a3: int) -> bool:
    """
    pre: -1 <= a1 <= 0 and -1 <= a2 <= 1 and -1 <= a3 <= 2
    post: _
    """
    return fold([v0, v1, v2, v3], [s0, s1, s2, s3], [-1, a1, a2, a3])


def _fold5(v0: int, v1: int, v2: int, v3: int, v4: int, s0: bool, s1: bool, s2: bool, s3: bool, s4: bool, a1: int, a2: int, a3: int, a4: int) -> bool:
    """
    pre: -1 <= a1 <= 0 and -1 <= a2 <= 1 and -1 <= a3 <= 2 and -1 <= a4 <= 3
    post: _
    """
    return fold([v0, v1, v2, v3, v4], [s0, s1, s2, s3, s4], [-1, a1, a2, a3, a4])


def _fold_reach(v0: int, v1: int, s0: bool, s1: bool) -> bool:
    """
    post: False
    """
    return fold([v0, v1, 3], [s0, s1, False], [-1, 0, 1])


# ---- the same fold while an OUTER trace is active: contributions are boxes (higher-order differentiation) ------


@primitive
def _shift(u, w):
    return Q(u.v + w.v)


defvjp(_shift, lambda ans, u, w: lambda g: g, lambda ans, u, w: lambda g: g)


def fold_boxed(vals, sparse, alias):
    """the accumulation fold executed inside an enclosing make_vjp trace, so every dense contribution is a Box of
    that trace (this is what the backward pass of an inner grad sees under an outer grad / hessian).  The
    ownership protocol must hold for the VALUES inside the boxes: sparse_add / mut_add are traced primitives that
    unbox their arguments and scatter in place into whatever buffer they were handed."""
    del MUT_LOG[:]
    del SP_LOG[:]
    n = len(vals)
    verdict = []

    def f(x):
        objs = []
        for i in range(n):
            if sparse[i]:
                objs.append(mk_sparse(vals[i]))
            else:
                j = alias[i]
                if 0 <= j < i and not sparse[j]:
                    objs.append(objs[j])
                else:
                    objs.append(_shift(x, Q(vals[i])))  # box of the outer trace with value x0 + vals[i], x0 = 0
        inner = [None if sparse[i] else getattr(o, "_value", o) for i, o in enumerate(objs)]
        dense_ids = {id(v) for v in inner if v is not None}
        before = [None if v is None else v.v for v in inner]
        acc = None
        for o in objs:
            acc = add_outgrads(acc, o)
        res = acc[0]
        total = 0
        for i in range(n):
            total = total + (vals[i] if sparse[i] else before[i])
        ok = True
        for t in MUT_LOG + SP_LOG:
            if t in dense_ids:
                ok = False
        for i in range(n):
            if inner[i] is not None and inner[i].v != before[i]:
                ok = False
        rv = getattr(res, "_value", res)
        if not (isinstance(rv, Q) and rv.v == total):
            ok = False
        verdict.append(ok)
        return res

    make_vjp(f, Q(0))
    return len(verdict) == 1 and verdict[0]


def _foldb3(v0: int, v1: int, v2: int, s0: bool, s1: bool, s2: bool, a1: int, a2: int) -> bool:
    """
    pre: -1 <= a1 <= 0 and -1 <= a2 <= 1
    post: _
    """
    return fold_boxed([v0, v1, v2], [s0, s1, s2], [-1, a1, a2])


def _foldb4(v0: int, v1: int, v2: int, v3: int, s0: bool, s1: bool, s2: bool, s3: bool, a1: int, a2: int, a3: int) -> bool:
    """
    pre: -1 <= a1 <= 0 and -1 <= a2 <= 1 and -1 <= a3 <= 2
    post: _
    """
    return fold_boxed([v0, v1, v2, v3], [s0, s1, s2, s3], [-1, a1, a2, a3])


def _foldb_reach(v0: int, v1: int, s0: bool, s1: bool) -> bool:
    """
    post: False
    """
    return fold_boxed([v0, v1, 3], [s0, s1, False], [-1, 0, 1])


# ---- whole pipeline with aliasing rules, VJP function called repeatedly --------------------------------------


@primitive
def padd(u, w):
    return Q(u.v + w.v)


defvjp(padd, lambda ans, u, w: lambda g: g, lambda ans, u, w: lambda g: g)  # returns the incoming cotangent OBJECT (like anp.add)


def alias_run(sel, x0, g0, g1, n, order):
    def f(x):
        vals = [x]
        for k in range(n):
            vals.append(padd(vals[sel[2 * k]], vals[sel[2 * k + 1]]))
        return vals[n]

    d = [1]
    for k in range(n):
        d.append(d[sel[2 * k]] + d[sel[2 * k + 1]])
    vjp, y = make_vjp(f, Q(x0))
    ga, gb = Q(g0), Q(g1)
    seq = [ga, gb, ga] if order == 0 else ([gb, ga, ga] if order == 1 else [ga, ga, gb])
    outs = []
    for g in seq:
        r = vjp(g)
        outs.append((g, r, r.v))
        if ga.v != g0 or gb.v != g1:
            return False  # a cotangent passed by the caller was modified
    for g, r, rv in outs:
        want = (g0 if g is ga else g1) * d[n]
        if rv != want or r.v != want:  # r.v: results returned earlier must stay unchanged by later calls
            return False
    return True


def _alias3(a1: int, b1: int, a2: int, b2: int, x0: int, g0: int, g1: int, order: int) -> bool:
    """
    pre: 0 <= a1 <= 1 and 0 <= b1 <= 1 and 0 <= a2 <= 2 and 0 <= b2 <= 2 and 0 <= order <= 2
    post: _
    """
    return alias_run([0, 0, a1, b1, a2, b2], x0, g0, g1, 3, order)


def _alias3_planted(a1: int, b1: int, a2: int, b2: int, x0: int, g0: int, g1: int) -> bool:
    """
    pre: 0 <= a1 <= 1 and 0 <= b1 <= 1 and 0 <= a2 <= 2 and 0 <= b2 <= 2
    post: _
    """
    # self-test: an ownership bug planted at run time (second contribution accumulated in place into the first,
    # un-owned, one) must be found by this harness
    real = core.add_outgrads

    def buggy(prev_g_flagged, g):
        if prev_g_flagged and not prev_g_flagged[1] and type(g) is Q:
            return core.vspace(g).mut_add(prev_g_flagged[0], g), True
        return real(prev_g_flagged, g)

    core.add_outgrads = buggy
    try:
        return alias_run([0, 0, a1, b1, a2, b2], x0, g0, g1, 3, 0)
    finally:
        core.add_outgrads = real


# ---- container-valued cotangents (TupleVSpace over Q leaves): the same fold, dense contributions only ----------


def fold_tuples(vals, alias):
    """vals: list of (a, b); every contribution is the tuple (Q(a), Q(b)); alias[i] = j < i reuses tuple object j"""
    del MUT_LOG[:]
    n = len(vals)
    objs = []
    for i in range(n):
        j = alias[i]
        objs.append(objs[j] if 0 <= j < i else (Q(vals[i][0]), Q(vals[i][1])))
    leaf_ids = {id(q) for t in objs for q in t}
    before = [(t[0].v, t[1].v) for t in objs]
    acc = None
    for o in objs:
        acc = add_outgrads(acc, o)
    res = acc[0]
    for t_ in MUT_LOG:
        if t_ in leaf_ids:
            return False  # a leaf of a contribution was accumulated into in place
    for i in range(n):
        if (objs[i][0].v, objs[i][1].v) != before[i]:
            return False
    if not (isinstance(res, tuple) and len(res) == 2):
        return False  # the sum of tuples of length 2 is a tuple of length 2 (element-wise), not a concatenation
    return res[0].v == sum(objs[i][0].v for i in range(n)) and res[1].v == sum(objs[i][1].v for i in range(n))


def _foldt3(a0: int, b0: int, a1: int, b1: int, a2: int, b2: int, l1: int, l2: int) -> bool:
    """
    pre: -1 <= l1 <= 0 and -1 <= l2 <= 1
    post: _
    """
    return fold_tuples([(a0, b0), (a1, b1), (a2, b2)], [-1, l1, l2])


def _foldt4(a0: int, b0: int, a1: int, b1: int, a2: int, b2: int, a3: int, b3: int, l1: int, l2: int, l3: int) -> bool:
    """
    pre: -1 <= l1 <= 0 and -1 <= l2 <= 1 and -1 <= l3 <= 2
    post: _
    """
    return fold_tuples([(a0, b0), (a1, b1), (a2, b2), (a3, b3)], [-1, l1, l2, l3])
