"""Engine B runner: one `crosshair check` process per condition, verdict parsing, reachability twins, replay."""
import ast
import importlib
import json
import os
import re
import subprocess
import sys
import time
from concurrent.futures import ThreadPoolExecutor

VERIF = os.path.dirname(os.path.dirname(os.path.dirname(os.path.abspath(__file__))))
REPO = os.environ.get("VF_REPO") or "/repo"


def crosshair(target, cond_timeout, path_timeout=None):
    env = dict(os.environ)
    env["PYTHONPATH"] = VERIF + os.pathsep + REPO
    env["PYTHONDONTWRITEBYTECODE"] = "1"
    cmd = [sys.executable, "-m", "crosshair", "check", "--report_all", "--per_condition_timeout", str(cond_timeout)]
    if path_timeout:
        cmd += ["--per_path_timeout", str(path_timeout)]
    cmd.append(target)
    t0 = time.time()
    try:
        p = subprocess.run(cmd, capture_output=True, text=True, timeout=cond_timeout * 3 + 120, cwd=VERIF, env=env)
        out = p.stdout + p.stderr
    except subprocess.TimeoutExpired as e:
        out = "TIMEOUT (hard)"
    return out, time.time() - t0


def classify(out):
    """-> (verdict, detail).  verdict: confirmed | counterexample | not_confirmed | unreachable | error"""
    if "Confirmed over all paths" in out:
        return "confirmed", ""
    m = re.search(r"error: (false when calling .*|.* when calling .*)", out)
    if m:
        return "counterexample", m.group(1).strip()
    if "Unable to meet precondition" in out:
        return "unreachable", out.strip()[-300:]
    if "Not confirmed" in out:
        return "not_confirmed", out.strip()[-300:]
    return "error", out.strip()[-600:]


def parse_call(detail):
    """'false when calling _f(a=1, b=[1,2])'  ->  ('_f', {...}) using ast literal evaluation"""
    d = detail.strip()
    d = re.sub(r"\s*\(which returns.*$", "", d)
    m = re.search(r"when calling (\w+)\((.*)\)$", d)
    if not m:
        return None, None
    name, args = m.group(1), m.group(2)
    try:
        call = ast.parse("f(%s)" % args, mode="eval").body
        kw = {k.arg: ast.literal_eval(k.value) for k in call.keywords}
        pos = [ast.literal_eval(a) for a in call.args]
        return name, (pos, kw)
    except Exception:
        return name, None


def replay(modname, fname, args):
    """re-execute the harness function concretely in a fresh interpreter against the real code.
    returns True if the property is violated (function returns False or raises)"""
    pos, kw = args
    code = ("import sys, json\nsys.path[:0]=[%r,%r]\nimport importlib\nm=importlib.import_module(%r)\n"
            "try:\n r=getattr(m,%r)(*%r, **%r)\n print('REPLAY', 'ok' if r is True or r is None else 'violated:%%r' %% (r,))\n"
            "except Exception as e:\n print('REPLAY', 'violated: raised %%s: %%s' %% (type(e).__name__, e))\n") % (VERIF, REPO, modname, fname, pos, kw)
    p = subprocess.run([sys.executable, "-c", code], capture_output=True, text=True, timeout=300, cwd=VERIF)
    line = [l for l in p.stdout.splitlines() if l.startswith("REPLAY")]
    if not line:
        return None, (p.stdout + p.stderr)[-300:]
    return ("violated" in line[0]), line[0]


def run_conditions(conds, tier, nproc=16):
    """conds: list of dict(module, func, twin(optional), timeout, what).  returns list of result dicts"""
    def one(c):
        T = c.get("timeout", {"quick": 60, "thorough": 600})
        T = T[tier] if isinstance(T, dict) else T
        target = "%s.%s" % (c["module"], c["func"])
        out, dt = crosshair(target, T, c.get("path_timeout"))
        verdict, detail = classify(out)
        r = dict(c, key=target, verdict=verdict, detail=detail, time=dt, cpu_budget=T)
        if verdict == "counterexample":
            name, args = parse_call(detail)
            if args is None:
                r["replay"] = "unparsable"
            else:
                viol, info = replay(c["module"], c["func"], args)
                r["replay"] = info
                r["replay_violated"] = viol
                r["cex_args"] = args
        if c.get("twin"):
            out2, dt2 = crosshair("%s.%s" % (c["module"], c["twin"]), min(T, 60))
            v2, d2 = classify(out2)
            r["twin_verdict"] = v2
            r["time"] += dt2
        return r

    with ThreadPoolExecutor(max_workers=nproc) as ex:
        return list(ex.map(one, conds))
