"""C03 harnesses (CrossHair): util.toposort on all multi-edge DAGs, and the whole make_vjp / make_jvp pipeline on
programs with symbolic wiring.  Generated once by hand-run generator; the code under test is imported from /repo."""
from autograd.util import toposort

from vf.ch.qtypes import Q, make_jvp, make_vjp, primitive, defvjp, defjvp, qpos


def _mk(ms, n):
    # ms: multiplicities for pairs (i, j), j < i, row-major; node i lists j as parent m times (multi-edges)
    P = [[] for _ in range(n)]
    k = 0
    for i in range(n):
        for j in range(i):
            m = ms[k]
            k += 1
            if m >= 1:
                P[i].append(j)
            if m >= 2:
                P[i].append(j)
    return P


def _check_topo(P, n):
    end = n - 1
    order = list(toposort(end, lambda k: P[k]))
    reach = set()
    st = [end]
    while st:
        k = st.pop()
        if k not in reach:
            reach.add(k)
            st.extend(P[k])
    if sorted(order) != sorted(reach):  # a permutation of exactly the reachable nodes (no duplicates, no dead nodes)
        return False
    pos = {k: i for i, k in enumerate(order)}
    return all(pos[p] > pos[k] for k in reach for p in P[k])  # every node precedes all of its parents


def _topo4_00(m21: int, m30: int, m31: int, m32: int) -> bool:
    """
    pre: 0 <= m21 <= 2 and 0 <= m30 <= 2 and 0 <= m31 <= 2 and 0 <= m32 <= 2
    post: _
    """
    return _check_topo(_mk([0, 0, m21, m30, m31, m32], 4), 4)

def _topo4_01(m21: int, m30: int, m31: int, m32: int) -> bool:
    """
    pre: 0 <= m21 <= 2 and 0 <= m30 <= 2 and 0 <= m31 <= 2 and 0 <= m32 <= 2
    post: _
    """
    return _check_topo(_mk([0, 1, m21, m30, m31, m32], 4), 4)

def _topo4_02(m21: int, m30: int, m31: int, m32: int) -> bool:
    """
    pre: 0 <= m21 <= 2 and 0 <= m30 <= 2 and 0 <= m31 <= 2 and 0 <= m32 <= 2
    post: _
    """
    return _check_topo(_mk([0, 2, m21, m30, m31, m32], 4), 4)

def _topo4_10(m21: int, m30: int, m31: int, m32: int) -> bool:
    """
    pre: 0 <= m21 <= 2 and 0 <= m30 <= 2 and 0 <= m31 <= 2 and 0 <= m32 <= 2
    post: _
    """
    return _check_topo(_mk([1, 0, m21, m30, m31, m32], 4), 4)

def _topo4_11(m21: int, m30: int, m31: int, m32: int) -> bool:
    """
    pre: 0 <= m21 <= 2 and 0 <= m30 <= 2 and 0 <= m31 <= 2 and 0 <= m32 <= 2
    post: _
    """
    return _check_topo(_mk([1, 1, m21, m30, m31, m32], 4), 4)

def _topo4_12(m21: int, m30: int, m31: int, m32: int) -> bool:
    """
    pre: 0 <= m21 <= 2 and 0 <= m30 <= 2 and 0 <= m31 <= 2 and 0 <= m32 <= 2
    post: _
    """
    return _check_topo(_mk([1, 2, m21, m30, m31, m32], 4), 4)

def _topo4_20(m21: int, m30: int, m31: int, m32: int) -> bool:
    """
    pre: 0 <= m21 <= 2 and 0 <= m30 <= 2 and 0 <= m31 <= 2 and 0 <= m32 <= 2
    post: _
    """
    return _check_topo(_mk([2, 0, m21, m30, m31, m32], 4), 4)

def _topo4_21(m21: int, m30: int, m31: int, m32: int) -> bool:
    """
    pre: 0 <= m21 <= 2 and 0 <= m30 <= 2 and 0 <= m31 <= 2 and 0 <= m32 <= 2
    post: _
    """
    return _check_topo(_mk([2, 1, m21, m30, m31, m32], 4), 4)

def _topo4_22(m21: int, m30: int, m31: int, m32: int) -> bool:
    """
    pre: 0 <= m21 <= 2 and 0 <= m30 <= 2 and 0 <= m31 <= 2 and 0 <= m32 <= 2
    post: _
    """
    return _check_topo(_mk([2, 2, m21, m30, m31, m32], 4), 4)

def _topo4_reach(m21: int, m30: int, m31: int, m32: int) -> bool:
    """
    pre: 0 <= m21 <= 2 and 0 <= m30 <= 2 and 0 <= m31 <= 2 and 0 <= m32 <= 2
    post: False
    """
    return _check_topo(_mk([1, 2, m21, m30, m31, m32], 4), 4)

def _topo5_0000(m31: int, m32: int, m40: int, m41: int, m42: int, m43: int) -> bool:
    """
    pre: 0 <= m31 <= 2 and 0 <= m32 <= 2 and 0 <= m40 <= 2 and 0 <= m41 <= 2 and 0 <= m42 <= 2 and 0 <= m43 <= 2
    post: _
    """
    return _check_topo(_mk([0, 0, 0, 0, m31, m32, m40, m41, m42, m43], 5), 5)

def _topo5_0001(m31: int, m32: int, m40: int, m41: int, m42: int, m43: int) -> bool:
    """
    pre: 0 <= m31 <= 2 and 0 <= m32 <= 2 and 0 <= m40 <= 2 and 0 <= m41 <= 2 and 0 <= m42 <= 2 and 0 <= m43 <= 2
    post: _
    """
    return _check_topo(_mk([0, 0, 0, 1, m31, m32, m40, m41, m42, m43], 5), 5)

def _topo5_0002(m31: int, m32: int, m40: int, m41: int, m42: int, m43: int) -> bool:
    """
    pre: 0 <= m31 <= 2 and 0 <= m32 <= 2 and 0 <= m40 <= 2 and 0 <= m41 <= 2 and 0 <= m42 <= 2 and 0 <= m43 <= 2
    post: _
    """
    return _check_topo(_mk([0, 0, 0, 2, m31, m32, m40, m41, m42, m43], 5), 5)

def _topo5_0010(m31: int, m32: int, m40: int, m41: int, m42: int, m43: int) -> bool:
    """
    pre: 0 <= m31 <= 2 and 0 <= m32 <= 2 and 0 <= m40 <= 2 and 0 <= m41 <= 2 and 0 <= m42 <= 2 and 0 <= m43 <= 2
    post: _
    """
    return _check_topo(_mk([0, 0, 1, 0, m31, m32, m40, m41, m42, m43], 5), 5)

def _topo5_0011(m31: int, m32: int, m40: int, m41: int, m42: int, m43: int) -> bool:
    """
    pre: 0 <= m31 <= 2 and 0 <= m32 <= 2 and 0 <= m40 <= 2 and 0 <= m41 <= 2 and 0 <= m42 <= 2 and 0 <= m43 <= 2
    post: _
    """
    return _check_topo(_mk([0, 0, 1, 1, m31, m32, m40, m41, m42, m43], 5), 5)

def _topo5_0012(m31: int, m32: int, m40: int, m41: int, m42: int, m43: int) -> bool:
    """
    pre: 0 <= m31 <= 2 and 0 <= m32 <= 2 and 0 <= m40 <= 2 and 0 <= m41 <= 2 and 0 <= m42 <= 2 and 0 <= m43 <= 2
    post: _
    """
    return _check_topo(_mk([0, 0, 1, 2, m31, m32, m40, m41, m42, m43], 5), 5)

def _topo5_0020(m31: int, m32: int, m40: int, m41: int, m42: int, m43: int) -> bool:
    """
    pre: 0 <= m31 <= 2 and 0 <= m32 <= 2 and 0 <= m40 <= 2 and 0 <= m41 <= 2 and 0 <= m42 <= 2 and 0 <= m43 <= 2
    post: _
    """
    return _check_topo(_mk([0, 0, 2, 0, m31, m32, m40, m41, m42, m43], 5), 5)

def _topo5_0021(m31: int, m32: int, m40: int, m41: int, m42: int, m43: int) -> bool:
    """
    pre: 0 <= m31 <= 2 and 0 <= m32 <= 2 and 0 <= m40 <= 2 and 0 <= m41 <= 2 and 0 <= m42 <= 2 and 0 <= m43 <= 2
    post: _
    """
    return _check_topo(_mk([0, 0, 2, 1, m31, m32, m40, m41, m42, m43], 5), 5)

def _topo5_0022(m31: int, m32: int, m40: int, m41: int, m42: int, m43: int) -> bool:
    """
    pre: 0 <= m31 <= 2 and 0 <= m32 <= 2 and 0 <= m40 <= 2 and 0 <= m41 <= 2 and 0 <= m42 <= 2 and 0 <= m43 <= 2
    post: _
    """
    return _check_topo(_mk([0, 0, 2, 2, m31, m32, m40, m41, m42, m43], 5), 5)

def _topo5_0100(m31: int, m32: int, m40: int, m41: int, m42: int, m43: int) -> bool:
    """
    pre: 0 <= m31 <= 2 and 0 <= m32 <= 2 and 0 <= m40 <= 2 and 0 <= m41 <= 2 and 0 <= m42 <= 2 and 0 <= m43 <= 2
    post: _
    """
    return _check_topo(_mk([0, 1, 0, 0, m31, m32, m40, m41, m42, m43], 5), 5)

def _topo5_0101(m31: int, m32: int, m40: int, m41: int, m42: int, m43: int) -> bool:
    """
    pre: 0 <= m31 <= 2 and 0 <= m32 <= 2 and 0 <= m40 <= 2 and 0 <= m41 <= 2 and 0 <= m42 <= 2 and 0 <= m43 <= 2
    post: _
    """
    return _check_topo(_mk([0, 1, 0, 1, m31, m32, m40, m41, m42, m43], 5), 5)

def _topo5_0102(m31: int, m32: int, m40: int, m41: int, m42: int, m43: int) -> bool:
    """
    pre: 0 <= m31 <= 2 and 0 <= m32 <= 2 and 0 <= m40 <= 2 and 0 <= m41 <= 2 and 0 <= m42 <= 2 and 0 <= m43 <= 2
    post: _
    """
    return _check_topo(_mk([0, 1, 0, 2, m31, m32, m40, m41, m42, m43], 5), 5)

def _topo5_0110(m31: int, m32: int, m40: int, m41: int, m42: int, m43: int) -> bool:
    """
    pre: 0 <= m31 <= 2 and 0 <= m32 <= 2 and 0 <= m40 <= 2 and 0 <= m41 <= 2 and 0 <= m42 <= 2 and 0 <= m43 <= 2
    post: _
    """
    return _check_topo(_mk([0, 1, 1, 0, m31, m32, m40, m41, m42, m43], 5), 5)

def _topo5_0111(m31: int, m32: int, m40: int, m41: int, m42: int, m43: int) -> bool:
    """
    pre: 0 <= m31 <= 2 and 0 <= m32 <= 2 and 0 <= m40 <= 2 and 0 <= m41 <= 2 and 0 <= m42 <= 2 and 0 <= m43 <= 2
    post: _
    """
    return _check_topo(_mk([0, 1, 1, 1, m31, m32, m40, m41, m42, m43], 5), 5)

def _topo5_0112(m31: int, m32: int, m40: int, m41: int, m42: int, m43: int) -> bool:
    """
    pre: 0 <= m31 <= 2 and 0 <= m32 <= 2 and 0 <= m40 <= 2 and 0 <= m41 <= 2 and 0 <= m42 <= 2 and 0 <= m43 <= 2
    post: _
    """
    return _check_topo(_mk([0, 1, 1, 2, m31, m32, m40, m41, m42, m43], 5), 5)

def _topo5_0120(m31: int, m32: int, m40: int, m41: int, m42: int, m43: int) -> bool:
    """
    pre: 0 <= m31 <= 2 and 0 <= m32 <= 2 and 0 <= m40 <= 2 and 0 <= m41 <= 2 and 0 <= m42 <= 2 and 0 <= m43 <= 2
    post: _
    """
    return _check_topo(_mk([0, 1, 2, 0, m31, m32, m40, m41, m42, m43], 5), 5)

def _topo5_0121(m31: int, m32: int, m40: int, m41: int, m42: int, m43: int) -> bool:
    """
    pre: 0 <= m31 <= 2 and 0 <= m32 <= 2 and 0 <= m40 <= 2 and 0 <= m41 <= 2 and 0 <= m42 <= 2 and 0 <= m43 <= 2
    post: _
    """
    return _check_topo(_mk([0, 1, 2, 1, m31, m32, m40, m41, m42, m43], 5), 5)

def _topo5_0122(m31: int, m32: int, m40: int, m41: int, m42: int, m43: int) -> bool:
    """
    pre: 0 <= m31 <= 2 and 0 <= m32 <= 2 and 0 <= m40 <= 2 and 0 <= m41 <= 2 and 0 <= m42 <= 2 and 0 <= m43 <= 2
    post: _
    """
    return _check_topo(_mk([0, 1, 2, 2, m31, m32, m40, m41, m42, m43], 5), 5)

def _topo5_0200(m31: int, m32: int, m40: int, m41: int, m42: int, m43: int) -> bool:
    """
    pre: 0 <= m31 <= 2 and 0 <= m32 <= 2 and 0 <= m40 <= 2 and 0 <= m41 <= 2 and 0 <= m42 <= 2 and 0 <= m43 <= 2
    post: _
    """
    return _check_topo(_mk([0, 2, 0, 0, m31, m32, m40, m41, m42, m43], 5), 5)

def _topo5_0201(m31: int, m32: int, m40: int, m41: int, m42: int, m43: int) -> bool:
    """
    pre: 0 <= m31 <= 2 and 0 <= m32 <= 2 and 0 <= m40 <= 2 and 0 <= m41 <= 2 and 0 <= m42 <= 2 and 0 <= m43 <= 2
    post: _
    """
    return _check_topo(_mk([0, 2, 0, 1, m31, m32, m40, m41, m42, m43], 5), 5)

def _topo5_0202(m31: int, m32: int, m40: int, m41: int, m42: int, m43: int) -> bool:
    """
    pre: 0 <= m31 <= 2 and 0 <= m32 <= 2 and 0 <= m40 <= 2 and 0 <= m41 <= 2 and 0 <= m42 <= 2 and 0 <= m43 <= 2
    post: _
    """
    return _check_topo(_mk([0, 2, 0, 2, m31, m32, m40, m41, m42, m43], 5), 5)

def _topo5_0210(m31: int, m32: int, m40: int, m41: int, m42: int, m43: int) -> bool:
    """
    pre: 0 <= m31 <= 2 and 0 <= m32 <= 2 and 0 <= m40 <= 2 and 0 <= m41 <= 2 and 0 <= m42 <= 2 and 0 <= m43 <= 2
    post: _
    """
    return _check_topo(_mk([0, 2, 1, 0, m31, m32, m40, m41, m42, m43], 5), 5)

def _topo5_0211(m31: int, m32: int, m40: int, m41: int, m42: int, m43: int) -> bool:
    """
    pre: 0 <= m31 <= 2 and 0 <= m32 <= 2 and 0 <= m40 <= 2 and 0 <= m41 <= 2 and 0 <= m42 <= 2 and 0 <= m43 <= 2
    post: _
    """
    return _check_topo(_mk([0, 2, 1, 1, m31, m32, m40, m41, m42, m43], 5), 5)

def _topo5_0212(m31: int, m32: int, m40: int, m41: int, m42: int, m43: int) -> bool:
    """
    pre: 0 <= m31 <= 2 and 0 <= m32 <= 2 and 0 <= m40 <= 2 and 0 <= m41 <= 2 and 0 <= m42 <= 2 and 0 <= m43 <= 2
    post: _
    """
    return _check_topo(_mk([0, 2, 1, 2, m31, m32, m40, m41, m42, m43], 5), 5)

def _topo5_0220(m31: int, m32: int, m40: int, m41: int, m42: int, m43: int) -> bool:
    """
    pre: 0 <= m31 <= 2 and 0 <= m32 <= 2 and 0 <= m40 <= 2 and 0 <= m41 <= 2 and 0 <= m42 <= 2 and 0 <= m43 <= 2
    post: _
    """
    return _check_topo(_mk([0, 2, 2, 0, m31, m32, m40, m41, m42, m43], 5), 5)

def _topo5_0221(m31: int, m32: int, m40: int, m41: int, m42: int, m43: int) -> bool:
    """
    pre: 0 <= m31 <= 2 and 0 <= m32 <= 2 and 0 <= m40 <= 2 and 0 <= m41 <= 2 and 0 <= m42 <= 2 and 0 <= m43 <= 2
    post: _
    """
    return _check_topo(_mk([0, 2, 2, 1, m31, m32, m40, m41, m42, m43], 5), 5)

def _topo5_0222(m31: int, m32: int, m40: int, m41: int, m42: int, m43: int) -> bool:
    """
    pre: 0 <= m31 <= 2 and 0 <= m32 <= 2 and 0 <= m40 <= 2 and 0 <= m41 <= 2 and 0 <= m42 <= 2 and 0 <= m43 <= 2
    post: _
    """
    return _check_topo(_mk([0, 2, 2, 2, m31, m32, m40, m41, m42, m43], 5), 5)

def _topo5_1000(m31: int, m32: int, m40: int, m41: int, m42: int, m43: int) -> bool:
    """
    pre: 0 <= m31 <= 2 and 0 <= m32 <= 2 and 0 <= m40 <= 2 and 0 <= m41 <= 2 and 0 <= m42 <= 2 and 0 <= m43 <= 2
    post: _
    """
    return _check_topo(_mk([1, 0, 0, 0, m31, m32, m40, m41, m42, m43], 5), 5)

def _topo5_1001(m31: int, m32: int, m40: int, m41: int, m42: int, m43: int) -> bool:
    """
    pre: 0 <= m31 <= 2 and 0 <= m32 <= 2 and 0 <= m40 <= 2 and 0 <= m41 <= 2 and 0 <= m42 <= 2 and 0 <= m43 <= 2
    post: _
    """
    return _check_topo(_mk([1, 0, 0, 1, m31, m32, m40, m41, m42, m43], 5), 5)

def _topo5_1002(m31: int, m32: int, m40: int, m41: int, m42: int, m43: int) -> bool:
    """
    pre: 0 <= m31 <= 2 and 0 <= m32 <= 2 and 0 <= m40 <= 2 and 0 <= m41 <= 2 and 0 <= m42 <= 2 and 0 <= m43 <= 2
    post: _
    """
    return _check_topo(_mk([1, 0, 0, 2, m31, m32, m40, m41, m42, m43], 5), 5)

def _topo5_1010(m31: int, m32: int, m40: int, m41: int, m42: int, m43: int) -> bool:
    """
    pre: 0 <= m31 <= 2 and 0 <= m32 <= 2 and 0 <= m40 <= 2 and 0 <= m41 <= 2 and 0 <= m42 <= 2 and 0 <= m43 <= 2
    post: _
    """
    return _check_topo(_mk([1, 0, 1, 0, m31, m32, m40, m41, m42, m43], 5), 5)

def _topo5_1011(m31: int, m32: int, m40: int, m41: int, m42: int, m43: int) -> bool:
    """
    pre: 0 <= m31 <= 2 and 0 <= m32 <= 2 and 0 <= m40 <= 2 and 0 <= m41 <= 2 and 0 <= m42 <= 2 and 0 <= m43 <= 2
    post: _
    """
    return _check_topo(_mk([1, 0, 1, 1, m31, m32, m40, m41, m42, m43], 5), 5)

def _topo5_1012(m31: int, m32: int, m40: int, m41: int, m42: int, m43: int) -> bool:
    """
    pre: 0 <= m31 <= 2 and 0 <= m32 <= 2 and 0 <= m40 <= 2 and 0 <= m41 <= 2 and 0 <= m42 <= 2 and 0 <= m43 <= 2
    post: _
    """
    return _check_topo(_mk([1, 0, 1, 2, m31, m32, m40, m41, m42, m43], 5), 5)

def _topo5_1020(m31: int, m32: int, m40: int, m41: int, m42: int, m43: int) -> bool:
    """
    pre: 0 <= m31 <= 2 and 0 <= m32 <= 2 and 0 <= m40 <= 2 and 0 <= m41 <= 2 and 0 <= m42 <= 2 and 0 <= m43 <= 2
    post: _
    """
    return _check_topo(_mk([1, 0, 2, 0, m31, m32, m40, m41, m42, m43], 5), 5)

def _topo5_1021(m31: int, m32: int, m40: int, m41: int, m42: int, m43: int) -> bool:
    """
    pre: 0 <= m31 <= 2 and 0 <= m32 <= 2 and 0 <= m40 <= 2 and 0 <= m41 <= 2 and 0 <= m42 <= 2 and 0 <= m43 <= 2
    post: _
    """
    return _check_topo(_mk([1, 0, 2, 1, m31, m32, m40, m41, m42, m43], 5), 5)

def _topo5_1022(m31: int, m32: int, m40: int, m41: int, m42: int, m43: int) -> bool:
    """
    pre: 0 <= m31 <= 2 and 0 <= m32 <= 2 and 0 <= m40 <= 2 and 0 <= m41 <= 2 and 0 <= m42 <= 2 and 0 <= m43 <= 2
    post: _
    """
    return _check_topo(_mk([1, 0, 2, 2, m31, m32, m40, m41, m42, m43], 5), 5)

def _topo5_1100(m31: int, m32: int, m40: int, m41: int, m42: int, m43: int) -> bool:
    """
    pre: 0 <= m31 <= 2 and 0 <= m32 <= 2 and 0 <= m40 <= 2 and 0 <= m41 <= 2 and 0 <= m42 <= 2 and 0 <= m43 <= 2
    post: _
    """
    return _check_topo(_mk([1, 1, 0, 0, m31, m32, m40, m41, m42, m43], 5), 5)

def _topo5_1101(m31: int, m32: int, m40: int, m41: int, m42: int, m43: int) -> bool:
    """
    pre: 0 <= m31 <= 2 and 0 <= m32 <= 2 and 0 <= m40 <= 2 and 0 <= m41 <= 2 and 0 <= m42 <= 2 and 0 <= m43 <= 2
    post: _
    """
    return _check_topo(_mk([1, 1, 0, 1, m31, m32, m40, m41, m42, m43], 5), 5)

def _topo5_1102(m31: int, m32: int, m40: int, m41: int, m42: int, m43: int) -> bool:
    """
    pre: 0 <= m31 <= 2 and 0 <= m32 <= 2 and 0 <= m40 <= 2 and 0 <= m41 <= 2 and 0 <= m42 <= 2 and 0 <= m43 <= 2
    post: _
    """
    return _check_topo(_mk([1, 1, 0, 2, m31, m32, m40, m41, m42, m43], 5), 5)

def _topo5_1110(m31: int, m32: int, m40: int, m41: int, m42: int, m43: int) -> bool:
    """
    pre: 0 <= m31 <= 2 and 0 <= m32 <= 2 and 0 <= m40 <= 2 and 0 <= m41 <= 2 and 0 <= m42 <= 2 and 0 <= m43 <= 2
    post: _
    """
    return _check_topo(_mk([1, 1, 1, 0, m31, m32, m40, m41, m42, m43], 5), 5)

def _topo5_1111(m31: int, m32: int, m40: int, m41: int, m42: int, m43: int) -> bool:
    """
    pre: 0 <= m31 <= 2 and 0 <= m32 <= 2 and 0 <= m40 <= 2 and 0 <= m41 <= 2 and 0 <= m42 <= 2 and 0 <= m43 <= 2
    post: _
    """
    return _check_topo(_mk([1, 1, 1, 1, m31, m32, m40, m41, m42, m43], 5), 5)

def _topo5_1112(m31: int, m32: int, m40: int, m41: int, m42: int, m43: int) -> bool:
    """
    pre: 0 <= m31 <= 2 and 0 <= m32 <= 2 and 0 <= m40 <= 2 and 0 <= m41 <= 2 and 0 <= m42 <= 2 and 0 <= m43 <= 2
    post: _
    """
    return _check_topo(_mk([1, 1, 1, 2, m31, m32, m40, m41, m42, m43], 5), 5)

def _topo5_1120(m31: int, m32: int, m40: int, m41: int, m42: int, m43: int) -> bool:
    """
    pre: 0 <= m31 <= 2 and 0 <= m32 <= 2 and 0 <= m40 <= 2 and 0 <= m41 <= 2 and 0 <= m42 <= 2 and 0 <= m43 <= 2
    post: _
    """
    return _check_topo(_mk([1, 1, 2, 0, m31, m32, m40, m41, m42, m43], 5), 5)

def _topo5_1121(m31: int, m32: int, m40: int, m41: int, m42: int, m43: int) -> bool:
    """
    pre: 0 <= m31 <= 2 and 0 <= m32 <= 2 and 0 <= m40 <= 2 and 0 <= m41 <= 2 and 0 <= m42 <= 2 and 0 <= m43 <= 2
    post: _
    """
    return _check_topo(_mk([1, 1, 2, 1, m31, m32, m40, m41, m42, m43], 5), 5)

def _topo5_1122(m31: int, m32: int, m40: int, m41: int, m42: int, m43: int) -> bool:
    """
    pre: 0 <= m31 <= 2 and 0 <= m32 <= 2 and 0 <= m40 <= 2 and 0 <= m41 <= 2 and 0 <= m42 <= 2 and 0 <= m43 <= 2
    post: _
    """
    return _check_topo(_mk([1, 1, 2, 2, m31, m32, m40, m41, m42, m43], 5), 5)

def _topo5_1200(m31: int, m32: int, m40: int, m41: int, m42: int, m43: int) -> bool:
    """
    pre: 0 <= m31 <= 2 and 0 <= m32 <= 2 and 0 <= m40 <= 2 and 0 <= m41 <= 2 and 0 <= m42 <= 2 and 0 <= m43 <= 2
    post: _
    """
    return _check_topo(_mk([1, 2, 0, 0, m31, m32, m40, m41, m42, m43], 5), 5)

def _topo5_1201(m31: int, m32: int, m40: int, m41: int, m42: int, m43: int) -> bool:
    """
    pre: 0 <= m31 <= 2 and 0 <= m32 <= 2 and 0 <= m40 <= 2 and 0 <= m41 <= 2 and 0 <= m42 <= 2 and 0 <= m43 <= 2
    post: _
    """
    return _check_topo(_mk([1, 2, 0, 1, m31, m32, m40, m41, m42, m43], 5), 5)

def _topo5_1202(m31: int, m32: int, m40: int, m41: int, m42: int, m43: int) -> bool:
    """
    pre: 0 <= m31 <= 2 and 0 <= m32 <= 2 and 0 <= m40 <= 2 and 0 <= m41 <= 2 and 0 <= m42 <= 2 and 0 <= m43 <= 2
    post: _
    """
    return _check_topo(_mk([1, 2, 0, 2, m31, m32, m40, m41, m42, m43], 5), 5)

def _topo5_1210(m31: int, m32: int, m40: int, m41: int, m42: int, m43: int) -> bool:
    """
    pre: 0 <= m31 <= 2 and 0 <= m32 <= 2 and 0 <= m40 <= 2 and 0 <= m41 <= 2 and 0 <= m42 <= 2 and 0 <= m43 <= 2
    post: _
    """
    return _check_topo(_mk([1, 2, 1, 0, m31, m32, m40, m41, m42, m43], 5), 5)

def _topo5_1211(m31: int, m32: int, m40: int, m41: int, m42: int, m43: int) -> bool:
    """
    pre: 0 <= m31 <= 2 and 0 <= m32 <= 2 and 0 <= m40 <= 2 and 0 <= m41 <= 2 and 0 <= m42 <= 2 and 0 <= m43 <= 2
    post: _
    """
    return _check_topo(_mk([1, 2, 1, 1, m31, m32, m40, m41, m42, m43], 5), 5)

def _topo5_1212(m31: int, m32: int, m40: int, m41: int, m42: int, m43: int) -> bool:
    """
    pre: 0 <= m31 <= 2 and 0 <= m32 <= 2 and 0 <= m40 <= 2 and 0 <= m41 <= 2 and 0 <= m42 <= 2 and 0 <= m43 <= 2
    post: _
    """
    return _check_topo(_mk([1, 2, 1, 2, m31, m32, m40, m41, m42, m43], 5), 5)

def _topo5_1220(m31: int, m32: int, m40: int, m41: int, m42: int, m43: int) -> bool:
    """
    pre: 0 <= m31 <= 2 and 0 <= m32 <= 2 and 0 <= m40 <= 2 and 0 <= m41 <= 2 and 0 <= m42 <= 2 and 0 <= m43 <= 2
    post: _
    """
    return _check_topo(_mk([1, 2, 2, 0, m31, m32, m40, m41, m42, m43], 5), 5)

def _topo5_1221(m31: int, m32: int, m40: int, m41: int, m42: int, m43: int) -> bool:
    """
    pre: 0 <= m31 <= 2 and 0 <= m32 <= 2 and 0 <= m40 <= 2 and 0 <= m41 <= 2 and 0 <= m42 <= 2 and 0 <= m43 <= 2
    post: _
    """
    return _check_topo(_mk([1, 2, 2, 1, m31, m32, m40, m41, m42, m43], 5), 5)

def _topo5_1222(m31: int, m32: int, m40: int, m41: int, m42: int, m43: int) -> bool:
    """
    pre: 0 <= m31 <= 2 and 0 <= m32 <= 2 and 0 <= m40 <= 2 and 0 <= m41 <= 2 and 0 <= m42 <= 2 and 0 <= m43 <= 2
    post: _
    """
    return _check_topo(_mk([1, 2, 2, 2, m31, m32, m40, m41, m42, m43], 5), 5)

def _topo5_2000(m31: int, m32: int, m40: int, m41: int, m42: int, m43: int) -> bool:
    """
    pre: 0 <= m31 <= 2 and 0 <= m32 <= 2 and 0 <= m40 <= 2 and 0 <= m41 <= 2 and 0 <= m42 <= 2 and 0 <= m43 <= 2
    post: _
    """
    return _check_topo(_mk([2, 0, 0, 0, m31, m32, m40, m41, m42, m43], 5), 5)

def _topo5_2001(m31: int, m32: int, m40: int, m41: int, m42: int, m43: int) -> bool:
    """
    pre: 0 <= m31 <= 2 and 0 <= m32 <= 2 and 0 <= m40 <= 2 and 0 <= m41 <= 2 and 0 <= m42 <= 2 and 0 <= m43 <= 2
    post: _
    """
    return _check_topo(_mk([2, 0, 0, 1, m31, m32, m40, m41, m42, m43], 5), 5)

def _topo5_2002(m31: int, m32: int, m40: int, m41: int, m42: int, m43: int) -> bool:
    """
    pre: 0 <= m31 <= 2 and 0 <= m32 <= 2 and 0 <= m40 <= 2 and 0 <= m41 <= 2 and 0 <= m42 <= 2 and 0 <= m43 <= 2
    post: _
    """
    return _check_topo(_mk([2, 0, 0, 2, m31, m32, m40, m41, m42, m43], 5), 5)

def _topo5_2010(m31: int, m32: int, m40: int, m41: int, m42: int, m43: int) -> bool:
    """
    pre: 0 <= m31 <= 2 and 0 <= m32 <= 2 and 0 <= m40 <= 2 and 0 <= m41 <= 2 and 0 <= m42 <= 2 and 0 <= m43 <= 2
    post: _
    """
    return _check_topo(_mk([2, 0, 1, 0, m31, m32, m40, m41, m42, m43], 5), 5)

def _topo5_2011(m31: int, m32: int, m40: int, m41: int, m42: int, m43: int) -> bool:
    """
    pre: 0 <= m31 <= 2 and 0 <= m32 <= 2 and 0 <= m40 <= 2 and 0 <= m41 <= 2 and 0 <= m42 <= 2 and 0 <= m43 <= 2
    post: _
    """
    return _check_topo(_mk([2, 0, 1, 1, m31, m32, m40, m41, m42, m43], 5), 5)

def _topo5_2012(m31: int, m32: int, m40: int, m41: int, m42: int, m43: int) -> bool:
    """
    pre: 0 <= m31 <= 2 and 0 <= m32 <= 2 and 0 <= m40 <= 2 and 0 <= m41 <= 2 and 0 <= m42 <= 2 and 0 <= m43 <= 2
    post: _
    """
    return _check_topo(_mk([2, 0, 1, 2, m31, m32, m40, m41, m42, m43], 5), 5)

def _topo5_2020(m31: int, m32: int, m40: int, m41: int, m42: int, m43: int) -> bool:
    """
    pre: 0 <= m31 <= 2 and 0 <= m32 <= 2 and 0 <= m40 <= 2 and 0 <= m41 <= 2 and 0 <= m42 <= 2 and 0 <= m43 <= 2
    post: _
    """
    return _check_topo(_mk([2, 0, 2, 0, m31, m32, m40, m41, m42, m43], 5), 5)

def _topo5_2021(m31: int, m32: int, m40: int, m41: int, m42: int, m43: int) -> bool:
    """
    pre: 0 <= m31 <= 2 and 0 <= m32 <= 2 and 0 <= m40 <= 2 and 0 <= m41 <= 2 and 0 <= m42 <= 2 and 0 <= m43 <= 2
    post: _
    """
    return _check_topo(_mk([2, 0, 2, 1, m31, m32, m40, m41, m42, m43], 5), 5)

def _topo5_2022(m31: int, m32: int, m40: int, m41: int, m42: int, m43: int) -> bool:
    """
    pre: 0 <= m31 <= 2 and 0 <= m32 <= 2 and 0 <= m40 <= 2 and 0 <= m41 <= 2 and 0 <= m42 <= 2 and 0 <= m43 <= 2
    post: _
    """
    return _check_topo(_mk([2, 0, 2, 2, m31, m32, m40, m41, m42, m43], 5), 5)

def _topo5_2100(m31: int, m32: int, m40: int, m41: int, m42: int, m43: int) -> bool:
    """
    pre: 0 <= m31 <= 2 and 0 <= m32 <= 2 and 0 <= m40 <= 2 and 0 <= m41 <= 2 and 0 <= m42 <= 2 and 0 <= m43 <= 2
    post: _
    """
    return _check_topo(_mk([2, 1, 0, 0, m31, m32, m40, m41, m42, m43], 5), 5)

def _topo5_2101(m31: int, m32: int, m40: int, m41: int, m42: int, m43: int) -> bool:
    """
    pre: 0 <= m31 <= 2 and 0 <= m32 <= 2 and 0 <= m40 <= 2 and 0 <= m41 <= 2 and 0 <= m42 <= 2 and 0 <= m43 <= 2
    post: _
    """
    return _check_topo(_mk([2, 1, 0, 1, m31, m32, m40, m41, m42, m43], 5), 5)

def _topo5_2102(m31: int, m32: int, m40: int, m41: int, m42: int, m43: int) -> bool:
    """
    pre: 0 <= m31 <= 2 and 0 <= m32 <= 2 and 0 <= m40 <= 2 and 0 <= m41 <= 2 and 0 <= m42 <= 2 and 0 <= m43 <= 2
    post: _
    """
    return _check_topo(_mk([2, 1, 0, 2, m31, m32, m40, m41, m42, m43], 5), 5)

def _topo5_2110(m31: int, m32: int, m40: int, m41: int, m42: int, m43: int) -> bool:
    """
    pre: 0 <= m31 <= 2 and 0 <= m32 <= 2 and 0 <= m40 <= 2 and 0 <= m41 <= 2 and 0 <= m42 <= 2 and 0 <= m43 <= 2
    post: _
    """
    return _check_topo(_mk([2, 1, 1, 0, m31, m32, m40, m41, m42, m43], 5), 5)

def _topo5_2111(m31: int, m32: int, m40: int, m41: int, m42: int, m43: int) -> bool:
    """
    pre: 0 <= m31 <= 2 and 0 <= m32 <= 2 and 0 <= m40 <= 2 and 0 <= m41 <= 2 and 0 <= m42 <= 2 and 0 <= m43 <= 2
    post: _
    """
    return _check_topo(_mk([2, 1, 1, 1, m31, m32, m40, m41, m42, m43], 5), 5)

def _topo5_2112(m31: int, m32: int, m40: int, m41: int, m42: int, m43: int) -> bool:
    """
    pre: 0 <= m31 <= 2 and 0 <= m32 <= 2 and 0 <= m40 <= 2 and 0 <= m41 <= 2 and 0 <= m42 <= 2 and 0 <= m43 <= 2
    post: _
    """
    return _check_topo(_mk([2, 1, 1, 2, m31, m32, m40, m41, m42, m43], 5), 5)

def _topo5_2120(m31: int, m32: int, m40: int, m41: int, m42: int, m43: int) -> bool:
    """
    pre: 0 <= m31 <= 2 and 0 <= m32 <= 2 and 0 <= m40 <= 2 and 0 <= m41 <= 2 and 0 <= m42 <= 2 and 0 <= m43 <= 2
    post: _
    """
    return _check_topo(_mk([2, 1, 2, 0, m31, m32, m40, m41, m42, m43], 5), 5)

def _topo5_2121(m31: int, m32: int, m40: int, m41: int, m42: int, m43: int) -> bool:
    """
    pre: 0 <= m31 <= 2 and 0 <= m32 <= 2 and 0 <= m40 <= 2 and 0 <= m41 <= 2 and 0 <= m42 <= 2 and 0 <= m43 <= 2
    post: _
    """
    return _check_topo(_mk([2, 1, 2, 1, m31, m32, m40, m41, m42, m43], 5), 5)

def _topo5_2122(m31: int, m32: int, m40: int, m41: int, m42: int, m43: int) -> bool:
    """
    pre: 0 <= m31 <= 2 and 0 <= m32 <= 2 and 0 <= m40 <= 2 and 0 <= m41 <= 2 and 0 <= m42 <= 2 and 0 <= m43 <= 2
    post: _
    """
    return _check_topo(_mk([2, 1, 2, 2, m31, m32, m40, m41, m42, m43], 5), 5)

def _topo5_2200(m31: int, m32: int, m40: int, m41: int, m42: int, m43: int) -> bool:
    """
    pre: 0 <= m31 <= 2 and 0 <= m32 <= 2 and 0 <= m40 <= 2 and 0 <= m41 <= 2 and 0 <= m42 <= 2 and 0 <= m43 <= 2
    post: _
    """
    return _check_topo(_mk([2, 2, 0, 0, m31, m32, m40, m41, m42, m43], 5), 5)

def _topo5_2201(m31: int, m32: int, m40: int, m41: int, m42: int, m43: int) -> bool:
    """
    pre: 0 <= m31 <= 2 and 0 <= m32 <= 2 and 0 <= m40 <= 2 and 0 <= m41 <= 2 and 0 <= m42 <= 2 and 0 <= m43 <= 2
    post: _
    """
    return _check_topo(_mk([2, 2, 0, 1, m31, m32, m40, m41, m42, m43], 5), 5)

def _topo5_2202(m31: int, m32: int, m40: int, m41: int, m42: int, m43: int) -> bool:
    """
    pre: 0 <= m31 <= 2 and 0 <= m32 <= 2 and 0 <= m40 <= 2 and 0 <= m41 <= 2 and 0 <= m42 <= 2 and 0 <= m43 <= 2
    post: _
    """
    return _check_topo(_mk([2, 2, 0, 2, m31, m32, m40, m41, m42, m43], 5), 5)

def _topo5_2210(m31: int, m32: int, m40: int, m41: int, m42: int, m43: int) -> bool:
    """
    pre: 0 <= m31 <= 2 and 0 <= m32 <= 2 and 0 <= m40 <= 2 and 0 <= m41 <= 2 and 0 <= m42 <= 2 and 0 <= m43 <= 2
    post: _
    """
    return _check_topo(_mk([2, 2, 1, 0, m31, m32, m40, m41, m42, m43], 5), 5)

def _topo5_2211(m31: int, m32: int, m40: int, m41: int, m42: int, m43: int) -> bool:
    """
    pre: 0 <= m31 <= 2 and 0 <= m32 <= 2 and 0 <= m40 <= 2 and 0 <= m41 <= 2 and 0 <= m42 <= 2 and 0 <= m43 <= 2
    post: _
    """
    return _check_topo(_mk([2, 2, 1, 1, m31, m32, m40, m41, m42, m43], 5), 5)

def _topo5_2212(m31: int, m32: int, m40: int, m41: int, m42: int, m43: int) -> bool:
    """
    pre: 0 <= m31 <= 2 and 0 <= m32 <= 2 and 0 <= m40 <= 2 and 0 <= m41 <= 2 and 0 <= m42 <= 2 and 0 <= m43 <= 2
    post: _
    """
    return _check_topo(_mk([2, 2, 1, 2, m31, m32, m40, m41, m42, m43], 5), 5)

def _topo5_2220(m31: int, m32: int, m40: int, m41: int, m42: int, m43: int) -> bool:
    """
    pre: 0 <= m31 <= 2 and 0 <= m32 <= 2 and 0 <= m40 <= 2 and 0 <= m41 <= 2 and 0 <= m42 <= 2 and 0 <= m43 <= 2
    post: _
    """
    return _check_topo(_mk([2, 2, 2, 0, m31, m32, m40, m41, m42, m43], 5), 5)

def _topo5_2221(m31: int, m32: int, m40: int, m41: int, m42: int, m43: int) -> bool:
    """
    pre: 0 <= m31 <= 2 and 0 <= m32 <= 2 and 0 <= m40 <= 2 and 0 <= m41 <= 2 and 0 <= m42 <= 2 and 0 <= m43 <= 2
    post: _
    """
    return _check_topo(_mk([2, 2, 2, 1, m31, m32, m40, m41, m42, m43], 5), 5)

def _topo5_2222(m31: int, m32: int, m40: int, m41: int, m42: int, m43: int) -> bool:
    """
    pre: 0 <= m31 <= 2 and 0 <= m32 <= 2 and 0 <= m40 <= 2 and 0 <= m41 <= 2 and 0 <= m42 <= 2 and 0 <= m43 <= 2
    post: _
    """
    return _check_topo(_mk([2, 2, 2, 2, m31, m32, m40, m41, m42, m43], 5), 5)
