"""C03 harness (CrossHair): the whole reverse / forward pipeline (tracer.primitive, trace, VJPNode/JVPNode,
backward_pass, toposort, add_outgrads / sum_outgrads) on programs with SYMBOLIC wiring: v0 = x,
v_k = p_k(v_a, v_b) with a, b < k symbolic (diamonds, fan-out, the same value twice, dead nodes), linear rules with
symbolic integer coefficients, optional value-dependent control flow.  Reference: forward recurrence of dv_k/dx and a
reverse accumulation of adjoints in plain integers."""
from vf.ch.qtypes import Q, make_jvp, make_vjp, primitive, defvjp, defjvp, qpos

LOG = []


def mkprim(k, c, d):
    @primitive
    def p(u, w):
        return Q(c * u.v + d * w.v)

    def v0(ans, u, w):
        def vjp(g):
            LOG.append((k, 0, g.v))
            return Q(c * g.v)
        return vjp

    def v1(ans, u, w):
        def vjp(g):
            LOG.append((k, 1, g.v))
            return Q(d * g.v)
        return vjp

    defvjp(p, v0, v1)
    defjvp(p, lambda g, ans, u, w: Q(c * g.v), lambda g, ans, u, w: Q(d * g.v))
    return p


def run(sel, coef, x0, g0, n, mode, cf_t=None):
    """sel[2k], sel[2k+1]: operand indices of op k; coef[2k], coef[2k+1]: its coefficients.
    cf_t: if not None, ops 1.. swap their operands when the traced input value > cf_t (value-dependent Python control flow)."""
    prims = [mkprim(k, coef[2 * k], coef[2 * k + 1]) for k in range(n)]
    wiring = []

    def f(x):
        vals = [x]
        for k in range(n):
            a, b = sel[2 * k], sel[2 * k + 1]
            if cf_t is not None and k >= 1 and qpos(vals[0], cf_t):
                a, b = b, a
            wiring.append((a, b))
            vals.append(prims[k](vals[a], vals[b]))
        return vals[n]

    if mode == 0:
        del LOG[:]
        del wiring[:]
        vjp, y = make_vjp(f, Q(x0))
        w = list(wiring)
        got = vjp(Q(g0)).v
        # reference: forward recurrence of d v_k / d x over the EXECUTED wiring
        d = [1]
        for k in range(n):
            d.append(coef[2 * k] * d[w[k][0]] + coef[2 * k + 1] * d[w[k][1]])
        # reference adjoints and liveness
        adj = [0] * (n + 1)
        live = [False] * (n + 1)
        adj[n] = g0
        live[n] = True
        for k in range(n - 1, -1, -1):
            if live[k + 1]:
                a, b = w[k]
                adj[a] = adj[a] + coef[2 * k] * adj[k + 1]
                adj[b] = adj[b] + coef[2 * k + 1] * adj[k + 1]
                live[a] = True
                live[b] = True
        for k in range(n):
            calls0 = [e for e in LOG if e[0] == k and e[1] == 0]
            calls1 = [e for e in LOG if e[0] == k and e[1] == 1]
            exp = 1 if live[k + 1] else 0
            if len(calls0) != exp or len(calls1) != exp:
                return False  # each executed op differentiated exactly once per argument; dead ops never
            if exp and (calls0[0][2] != adj[k + 1] or calls1[0][2] != adj[k + 1]):
                return False  # the rule ran only after ALL consumers had contributed to its cotangent
        return got == g0 * d[n] and got == adj[0]
    else:
        del wiring[:]
        y, t = make_jvp(f, Q(x0))(Q(g0))
        w = list(wiring)
        d = [1]
        for k in range(n):
            d.append(coef[2 * k] * d[w[k][0]] + coef[2 * k + 1] * d[w[k][1]])
        return t.v == g0 * d[n]


def _g3_rev_0(a1: int, b1: int, b2: int, c0: int, d0: int, c1: int, d1: int, c2: int, d2: int, x0: int, g0: int) -> bool:
    """
    pre: 0 <= a1 <= 1 and 0 <= b1 <= 1 and 0 <= b2 <= 2
    post: _
    """
    return run([0, 0, a1, b1, 0, b2], [c0, d0, c1, d1, c2, d2], x0, g0, 3, 0)


def _g3_rev_1(a1: int, b1: int, b2: int, c0: int, d0: int, c1: int, d1: int, c2: int, d2: int, x0: int, g0: int) -> bool:
    """
    pre: 0 <= a1 <= 1 and 0 <= b1 <= 1 and 0 <= b2 <= 2
    post: _
    """
    return run([0, 0, a1, b1, 1, b2], [c0, d0, c1, d1, c2, d2], x0, g0, 3, 0)


def _g3_rev_2(a1: int, b1: int, b2: int, c0: int, d0: int, c1: int, d1: int, c2: int, d2: int, x0: int, g0: int) -> bool:
    """
    pre: 0 <= a1 <= 1 and 0 <= b1 <= 1 and 0 <= b2 <= 2
    post: _
    """
    return run([0, 0, a1, b1, 2, b2], [c0, d0, c1, d1, c2, d2], x0, g0, 3, 0)


def _g3_fwd(a1: int, b1: int, a2: int, b2: int, c0: int, d0: int, c1: int, d1: int, c2: int, d2: int, x0: int, g0: int) -> bool:
    """
    pre: 0 <= a1 <= 1 and 0 <= b1 <= 1 and 0 <= a2 <= 2 and 0 <= b2 <= 2
    post: _
    """
    return run([0, 0, a1, b1, a2, b2], [c0, d0, c1, d1, c2, d2], x0, g0, 3, 1)


def _g3_cf_rev(a1: int, b1: int, a2: int, b2: int, c0: int, d0: int, c1: int, d1: int, c2: int, d2: int, x0: int, g0: int, t: int) -> bool:
    """
    pre: 0 <= a1 <= 1 and 0 <= b1 <= 1 and 0 <= a2 <= 2 and 0 <= b2 <= 2
    post: _
    """
    return run([0, 0, a1, b1, a2, b2], [c0, d0, c1, d1, c2, d2], x0, g0, 3, 0, cf_t=t)


def _g3_cf_fwd(a1: int, b1: int, a2: int, b2: int, c0: int, d0: int, c1: int, d1: int, c2: int, d2: int, x0: int, g0: int, t: int) -> bool:
    """
    pre: 0 <= a1 <= 1 and 0 <= b1 <= 1 and 0 <= a2 <= 2 and 0 <= b2 <= 2
    post: _
    """
    return run([0, 0, a1, b1, a2, b2], [c0, d0, c1, d1, c2, d2], x0, g0, 3, 1, cf_t=t)


def _g3_reach(a1: int, b1: int, a2: int, b2: int, c0: int, x0: int, g0: int) -> bool:
    """
    pre: 0 <= a1 <= 1 and 0 <= b1 <= 1 and 0 <= a2 <= 2 and 0 <= b2 <= 2
    post: False
    """
    return run([0, 0, a1, b1, a2, b2], [c0, 1, 2, 3, 4, 5], x0, g0, 3, 0)


def _g4_rev_00(a1: int, b1: int, a2: int, b2: int, c0: int, d0: int, c1: int, d1: int, c2: int, d2: int, c3: int, d3: int, x0: int, g0: int) -> bool:
    """
    pre: 0 <= a1 <= 1 and 0 <= b1 <= 1 and 0 <= a2 <= 2 and 0 <= b2 <= 2
    post: _
    """
    return run([0, 0, a1, b1, a2, b2, 0, 0], [c0, d0, c1, d1, c2, d2, c3, d3], x0, g0, 4, 0)


def _g4_rev_01(a1: int, b1: int, a2: int, b2: int, c0: int, d0: int, c1: int, d1: int, c2: int, d2: int, c3: int, d3: int, x0: int, g0: int) -> bool:
    """
    pre: 0 <= a1 <= 1 and 0 <= b1 <= 1 and 0 <= a2 <= 2 and 0 <= b2 <= 2
    post: _
    """
    return run([0, 0, a1, b1, a2, b2, 0, 1], [c0, d0, c1, d1, c2, d2, c3, d3], x0, g0, 4, 0)


def _g4_rev_02(a1: int, b1: int, a2: int, b2: int, c0: int, d0: int, c1: int, d1: int, c2: int, d2: int, c3: int, d3: int, x0: int, g0: int) -> bool:
    """
    pre: 0 <= a1 <= 1 and 0 <= b1 <= 1 and 0 <= a2 <= 2 and 0 <= b2 <= 2
    post: _
    """
    return run([0, 0, a1, b1, a2, b2, 0, 2], [c0, d0, c1, d1, c2, d2, c3, d3], x0, g0, 4, 0)


def _g4_rev_03(a1: int, b1: int, a2: int, b2: int, c0: int, d0: int, c1: int, d1: int, c2: int, d2: int, c3: int, d3: int, x0: int, g0: int) -> bool:
    """
    pre: 0 <= a1 <= 1 and 0 <= b1 <= 1 and 0 <= a2 <= 2 and 0 <= b2 <= 2
    post: _
    """
    return run([0, 0, a1, b1, a2, b2, 0, 3], [c0, d0, c1, d1, c2, d2, c3, d3], x0, g0, 4, 0)


def _g4_rev_10(a1: int, b1: int, a2: int, b2: int, c0: int, d0: int, c1: int, d1: int, c2: int, d2: int, c3: int, d3: int, x0: int, g0: int) -> bool:
    """
    pre: 0 <= a1 <= 1 and 0 <= b1 <= 1 and 0 <= a2 <= 2 and 0 <= b2 <= 2
    post: _
    """
    return run([0, 0, a1, b1, a2, b2, 1, 0], [c0, d0, c1, d1, c2, d2, c3, d3], x0, g0, 4, 0)


def _g4_rev_11(a1: int, b1: int, a2: int, b2: int, c0: int, d0: int, c1: int, d1: int, c2: int, d2: int, c3: int, d3: int, x0: int, g0: int) -> bool:
    """
    pre: 0 <= a1 <= 1 and 0 <= b1 <= 1 and 0 <= a2 <= 2 and 0 <= b2 <= 2
    post: _
    """
    return run([0, 0, a1, b1, a2, b2, 1, 1], [c0, d0, c1, d1, c2, d2, c3, d3], x0, g0, 4, 0)


def _g4_rev_12(a1: int, b1: int, a2: int, b2: int, c0: int, d0: int, c1: int, d1: int, c2: int, d2: int, c3: int, d3: int, x0: int, g0: int) -> bool:
    """
    pre: 0 <= a1 <= 1 and 0 <= b1 <= 1 and 0 <= a2 <= 2 and 0 <= b2 <= 2
    post: _
    """
    return run([0, 0, a1, b1, a2, b2, 1, 2], [c0, d0, c1, d1, c2, d2, c3, d3], x0, g0, 4, 0)


def _g4_rev_13(a1: int, b1: int, a2: int, b2: int, c0: int, d0: int, c1: int, d1: int, c2: int, d2: int, c3: int, d3: int, x0: int, g0: int) -> bool:
    """
    pre: 0 <= a1 <= 1 and 0 <= b1 <= 1 and 0 <= a2 <= 2 and 0 <= b2 <= 2
    post: _
    """
    return run([0, 0, a1, b1, a2, b2, 1, 3], [c0, d0, c1, d1, c2, d2, c3, d3], x0, g0, 4, 0)


def _g4_rev_20(a1: int, b1: int, a2: int, b2: int, c0: int, d0: int, c1: int, d1: int, c2: int, d2: int, c3: int, d3: int, x0: int, g0: int) -> bool:
    """
    pre: 0 <= a1 <= 1 and 0 <= b1 <= 1 and 0 <= a2 <= 2 and 0 <= b2 <= 2
    post: _
    """
    return run([0, 0, a1, b1, a2, b2, 2, 0], [c0, d0, c1, d1, c2, d2, c3, d3], x0, g0, 4, 0)


def _g4_rev_21(a1: int, b1: int, a2: int, b2: int, c0: int, d0: int, c1: int, d1: int, c2: int, d2: int, c3: int, d3: int, x0: int, g0: int) -> bool:
    """
    pre: 0 <= a1 <= 1 and 0 <= b1 <= 1 and 0 <= a2 <= 2 and 0 <= b2 <= 2
    post: _
    """
    return run([0, 0, a1, b1, a2, b2, 2, 1], [c0, d0, c1, d1, c2, d2, c3, d3], x0, g0, 4, 0)


def _g4_rev_22(a1: int, b1: int, a2: int, b2: int, c0: int, d0: int, c1: int, d1: int, c2: int, d2: int, c3: int, d3: int, x0: int, g0: int) -> bool:
    """
    pre: 0 <= a1 <= 1 and 0 <= b1 <= 1 and 0 <= a2 <= 2 and 0 <= b2 <= 2
    post: _
    """
    return run([0, 0, a1, b1, a2, b2, 2, 2], [c0, d0, c1, d1, c2, d2, c3, d3], x0, g0, 4, 0)


def _g4_rev_23(a1: int, b1: int, a2: int, b2: int, c0: int, d0: int, c1: int, d1: int, c2: int, d2: int, c3: int, d3: int, x0: int, g0: int) -> bool:
    """
    pre: 0 <= a1 <= 1 and 0 <= b1 <= 1 and 0 <= a2 <= 2 and 0 <= b2 <= 2
    post: _
    """
    return run([0, 0, a1, b1, a2, b2, 2, 3], [c0, d0, c1, d1, c2, d2, c3, d3], x0, g0, 4, 0)


def _g4_rev_30(a1: int, b1: int, a2: int, b2: int, c0: int, d0: int, c1: int, d1: int, c2: int, d2: int, c3: int, d3: int, x0: int, g0: int) -> bool:
    """
    pre: 0 <= a1 <= 1 and 0 <= b1 <= 1 and 0 <= a2 <= 2 and 0 <= b2 <= 2
    post: _
    """
    return run([0, 0, a1, b1, a2, b2, 3, 0], [c0, d0, c1, d1, c2, d2, c3, d3], x0, g0, 4, 0)


def _g4_rev_31(a1: int, b1: int, a2: int, b2: int, c0: int, d0: int, c1: int, d1: int, c2: int, d2: int, c3: int, d3: int, x0: int, g0: int) -> bool:
    """
    pre: 0 <= a1 <= 1 and 0 <= b1 <= 1 and 0 <= a2 <= 2 and 0 <= b2 <= 2
    post: _
    """
    return run([0, 0, a1, b1, a2, b2, 3, 1], [c0, d0, c1, d1, c2, d2, c3, d3], x0, g0, 4, 0)


def _g4_rev_32(a1: int, b1: int, a2: int, b2: int, c0: int, d0: int, c1: int, d1: int, c2: int, d2: int, c3: int, d3: int, x0: int, g0: int) -> bool:
    """
    pre: 0 <= a1 <= 1 and 0 <= b1 <= 1 and 0 <= a2 <= 2 and 0 <= b2 <= 2
    post: _
    """
    return run([0, 0, a1, b1, a2, b2, 3, 2], [c0, d0, c1, d1, c2, d2, c3, d3], x0, g0, 4, 0)


def _g4_rev_33(a1: int, b1: int, a2: int, b2: int, c0: int, d0: int, c1: int, d1: int, c2: int, d2: int, c3: int, d3: int, x0: int, g0: int) -> bool:
    """
    pre: 0 <= a1 <= 1 and 0 <= b1 <= 1 and 0 <= a2 <= 2 and 0 <= b2 <= 2
    post: _
    """
    return run([0, 0, a1, b1, a2, b2, 3, 3], [c0, d0, c1, d1, c2, d2, c3, d3], x0, g0, 4, 0)
