"""C12 harnesses (CrossHair): container operations of autograd.builtins with SYMBOLIC lengths, indices, slice bounds
and positions: SequenceBox indexing / slicing / + / reflected +, make_sequence (autograd tuple/list constructors),
DictBox access methods, iteration and unpacking; leaves are Q values."""
from typing import List

import autograd.builtins as ab
from vf.ch.qtypes import Q, defjvp, defvjp, make_jvp, make_vjp, primitive


@primitive
def scale(a, c):
    return Q(a.v * c)


defvjp(scale, lambda ans, a, c: lambda g: Q(g.v * c))
defjvp(scale, lambda g, ans, a, c: Q(g.v * c))


def _grad_is(got, m, idx, val, kind=tuple):
    if not (isinstance(got, kind) and len(got) == m):
        return False
    for i in range(m):
        if got[i].v != (val if i == idx else 0):
            return False
    return True


def _ext(xs: List[int], ys: List[int], pick: int, left: bool, c: int, g0: int) -> bool:
    """
    pre: len(xs) <= 3 and 1 <= len(ys) <= 3
    pre: 0 <= pick < len(xs) + len(ys)
    post: _
    """
    return ext_body(xs, ys, pick, left, c, g0)


def ext_body(xs, ys, pick, left, c, g0):
    # NOTE: helpers called from a contract-bearing harness must not carry contracts themselves: CrossHair assumes a
    # callee's postcondition and silently drops the paths on which it fails.
    n, m = len(xs), len(ys)
    consts = tuple(Q(v) for v in xs)

    def f(t):  # traced tuple concatenated with a constant tuple on either side
        z = (consts + t) if left else (t + consts)  # SequenceBox.__radd__ / __add__
        return scale(z[pick], c)

    arg = tuple(Q(v) for v in ys)
    vjp, val = make_vjp(f, arg)
    got = vjp(Q(g0))
    idx = pick - n if left else pick
    want_val = (xs + ys)[pick] * c if left else (ys + xs)[pick] * c
    return val.v == want_val and _grad_is(got, m, idx if 0 <= idx < m else -1, g0 * c)


def _take(ys: List[int], i: int, as_list: bool, c: int, g0: int, fwd: bool) -> bool:
    """
    pre: 1 <= len(ys) <= 4
    pre: -len(ys) <= i < len(ys)
    post: _
    """
    m = len(ys)
    f = lambda t: scale(t[i], c)  # container_take with positive or negative index
    arg = [Q(v) for v in ys] if as_list else tuple(Q(v) for v in ys)
    if fwd:
        v = [Q(k + 1) for k in range(m)] if as_list else tuple(Q(k + 1) for k in range(m))
        val, tan = make_jvp(f, arg)(v)
        return val.v == ys[i] * c and tan.v == ((i % m) + 1) * c
    vjp, val = make_vjp(f, arg)
    got = vjp(Q(g0))
    return val.v == ys[i] * c and _grad_is(got, m, i % m, g0 * c, list if as_list else tuple)


def _slice(ys: List[int], lo: int, hi: int, j: int, c: int, g0: int) -> bool:
    """
    pre: 1 <= len(ys) <= 4
    pre: 0 <= lo < hi <= len(ys) and 0 <= j < hi - lo
    post: _
    """
    m = len(ys)
    f = lambda t: scale(t[lo:hi][j], c)  # slice branch of container_take / container_untake, then an index
    arg = tuple(Q(v) for v in ys)
    vjp, val = make_vjp(f, arg)
    got = vjp(Q(g0))
    return val.v == ys[lo + j] * c and _grad_is(got, m, lo + j, g0 * c)


def _mkseq(ys: List[int], pos: int, pick: int, as_list: bool, c: int, g0: int, fwd: bool) -> bool:
    """
    pre: len(ys) <= 3
    pre: 0 <= pos <= len(ys) and 0 <= pick <= len(ys)
    post: _
    """
    # autograd's tuple()/list() constructors (make_sequence): the traced element sits at position `pos`
    consts = [Q(v) for v in ys]

    def f(a):
        items = consts[:pos] + [a] + consts[pos:]
        s = ab.list(items) if as_list else ab.tuple(items)
        return scale(s[pick], c)

    if fwd:
        val, tan = make_jvp(f, Q(7))(Q(g0))
        return tan.v == (g0 * c if pick == pos else 0)
    vjp, val = make_vjp(f, Q(7))
    got = vjp(Q(g0))
    return got.v == (g0 * c if pick == pos else 0)


def _unpack_iter(a0: int, a1: int, a2: int, c0: int, c1: int, c2: int, g0: int, use_iter: bool) -> bool:
    """
    post: _
    """
    def f(t):
        if use_iter:
            acc = None
            k = 0
            for e in t:  # iteration over a SequenceBox (__getitem__ until IndexError)
                term = scale(e, [c0, c1, c2][k])
                acc = term if acc is None else padd(acc, term)
                k += 1
            return acc
        u, v, w = t  # unpacking
        return padd(padd(scale(u, c0), scale(v, c1)), scale(w, c2))

    arg = (Q(a0), Q(a1), Q(a2))
    vjp, val = make_vjp(f, arg)
    got = vjp(Q(g0))
    if val.v != a0 * c0 + a1 * c1 + a2 * c2 or len(got) != 3:
        return False
    return got[0].v == g0 * c0 and got[1].v == g0 * c1 and got[2].v == g0 * c2


@primitive
def padd(u, w):
    return Q(u.v + w.v)


defvjp(padd, lambda ans, u, w: lambda g: g, lambda ans, u, w: lambda g: g)
defjvp(padd, lambda g, ans, u, w: g, lambda g, ans, u, w: g)


def _dict(a: int, b: int, c: int, which: int, how: int, k: int, g0: int) -> bool:
    """
    pre: 0 <= which <= 2 and 0 <= how <= 4
    post: _
    """
    keys = ["p", "q", "r"]
    key = keys[which]

    def f(d):
        if how == 0:
            e = d[key]
        elif how == 1:
            e = d.get(key)
        elif how == 2:
            e = dict(d.items())[key]
        elif how == 3:
            e = dict(zip(d.keys(), d.values()))[key]
        else:
            e = [d[kk] for kk in d if kk == key][0]  # iteration over keys + membership
        if len(d) != 3 or (key in d) is not True or ("zz" in d) is not False or d.get("zz", 5) != 5:
            return None
        return scale(e, k)

    arg = {"p": Q(a), "q": Q(b), "r": Q(c)}
    vjp, val = make_vjp(f, arg)
    got = vjp(Q(g0))
    if not isinstance(got, dict) or sorted(got.keys()) != keys:
        return False
    for kk in keys:
        if got[kk].v != (g0 * k if kk == key else 0):
            return False
    return val.v == [a, b, c][which] * k


def _mkdict(a: int, b: int, which: int, k: int, g0: int) -> bool:
    """
    pre: 0 <= which <= 1
    post: _
    """
    # autograd's dict constructor (_make_dict) with traced values
    def f(x):
        d = ab.dict({"u": scale(x, 2), "v": scale(x, 3)}) if which == 0 else ab.dict([("u", scale(x, 2)), ("v", scale(x, 3))])
        return padd(scale(d["u"], k), d["v"])

    vjp, val = make_vjp(f, Q(a))
    return vjp(Q(g0)).v == g0 * (2 * k + 3) and val.v == a * (2 * k + 3)


def _mkdict_perm(a: int, k: int, g0: int, g1: int, perm: bool, as_pairs: bool) -> bool:
    """
    post: _
    """
    # the function RETURNS a dict built by autograd's dict constructor; the caller's cotangent is an equal dict whose
    # entries were inserted in another order: entries are paired by KEY, never by position
    def f(x):
        if as_pairs:
            return ab.dict([("u", scale(x, 2)), ("v", scale(x, k))])
        return ab.dict({"u": scale(x, 2), "v": scale(x, k)})

    vjp, val = make_vjp(f, Q(a))
    g = {"v": Q(g1), "u": Q(g0)} if perm else {"u": Q(g0), "v": Q(g1)}
    return vjp(g).v == 2 * g0 + k * g1 and val["u"].v == 2 * a and val["v"].v == k * a


def _ext_planted(xs: List[int], ys: List[int], pick: int, c: int, g0: int) -> bool:
    """
    pre: 1 <= len(xs) <= 2 and 1 <= len(ys) <= 2
    pre: 0 <= pick < len(xs) + len(ys)
    post: _
    """
    # self-test: an off-by-one planted in the offset arithmetic of the reflected concatenation rule must be found
    import autograd.core as core

    real = core.primitive_vjps[ab.sequence_extend_left]

    def buggy_maker(argnum, ans, args, kwargs):
        seq, elts = args[0], args[1:]
        return lambda g: g[len(elts) + 1:] + g[:1] if argnum == 0 else g[argnum - 1]

    core.defvjp_argnum(ab.sequence_extend_left, buggy_maker)
    try:
        return ext_body(xs, ys, pick, True, c, g0)
    except Exception:
        return False
    finally:
        core.primitive_vjps[ab.sequence_extend_left] = real
