"""Pure-Python value type registered with autograd through the public extension API, so that CrossHair can
execute the REAL tracing core (tracer.py, core.py, util.py, wrap_util.py, builtins.py) end to end without ever
crossing a C boundary.  Q holds a Python int (symbolic under CrossHair)."""
import warnings

warnings.filterwarnings("ignore")

from autograd.core import make_jvp, make_vjp  # noqa: E402
from autograd.extend import Box, VSpace, defjvp, defvjp, primitive, notrace_primitive  # noqa: E402


class Q:
    __slots__ = ("v",)

    def __init__(self, v):
        self.v = v

    def __add__(self, o):
        return Q(self.v + o.v)

    def __iadd__(self, o):
        MUT_LOG.append(id(self))
        self.v = self.v + o.v
        return self

    def __mul__(self, a):
        return Q(self.v * (a.v if isinstance(a, Q) else a))

    def __eq__(self, o):
        return isinstance(o, Q) and self.v == o.v

    def __hash__(self):
        return id(self)

    def __repr__(self):
        return "Q(%r)" % (self.v,)


MUT_LOG = []  # ids of objects that were targets of an in-place accumulation


class QBox(Box):
    __slots__ = []

    def __mul__(self, o):
        return qmul(self, o)

    def __rmul__(self, o):
        return qmul(o, self)

    def __add__(self, o):
        return qadd(self, o)

    def __radd__(self, o):
        return qadd(o, self)


QBox.register(Q)


class QVSpace(VSpace):
    def __init__(self, value):
        pass

    def zeros(self):
        return Q(0)

    def ones(self):
        return Q(1)

    def standard_basis(self):
        yield Q(1)

    def _inner_prod(self, x, y):
        return x.v * y.v

    def _scalar_mul(self, x, a):
        return Q(x.v * a)

    def __eq__(self, o):
        return type(o) is QVSpace

    @property
    def size(self):
        return 1


QVSpace.register(Q)


@primitive
def qmul(a, b):
    return Q(a.v * b.v)


defvjp(qmul, lambda ans, a, b: lambda g: qmul(g, b), lambda ans, a, b: lambda g: qmul(a, g))
defjvp(qmul, lambda g, ans, a, b: qmul(g, b), lambda g, ans, a, b: qmul(a, g))


@primitive
def qadd(a, b):
    return Q(a.v + b.v)


defvjp(qadd, lambda ans, a, b: lambda g: g, lambda ans, a, b: lambda g: g)
defjvp(qadd, lambda g, ans, a, b: g, lambda g, ans, a, b: g)


@notrace_primitive
def qpos(a, t):
    """value-dependent control flow: a plain bool from a (possibly traced) value"""
    return a.v > t


def D(f, x, fwd):
    """first derivative of a Q -> Q function in the chosen mode, through the public operators"""
    if fwd:
        return make_jvp(f, x)(Q(1))[1]
    vjp, y = make_vjp(f, x)
    return vjp(Q(1))


def _patch_crosshair_constructor_hook():
    """CrossHair re-implements `cls(*a)` as __new__ + __init__ and decides whether to run __init__ with
    isinstance(obj, cls).  autograd.builtins.tuple/list/dict override __instancecheck__ (a Box holding a list IS a
    `list` for autograd's isinstance), so CrossHair would call __init__ on the Box returned by __new__, which Python's
    own type.__call__ (a C-level exact type check) never does.  Restore Python's semantics."""
    try:
        import crosshair.enforce as ce
        from crosshair.tracers import NoTracing, ResumedTracing
    except Exception:
        return

    def manual_constructor(typ):
        def manually_construct(*a, **kw):
            obj = ce.WithEnforcement(typ.__new__)(typ, *a, **kw)
            with NoTracing():
                real_instance = typ in type(obj).__mro__
            if real_instance:
                ce.WithEnforcement(obj.__init__)(*a, **kw)
            return obj

        return manually_construct

    ce.manual_constructor = manual_constructor


_patch_crosshair_constructor_hook()
