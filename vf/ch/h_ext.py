"""C15-B / C16-B / C17 harnesses (CrossHair): the extension contract (defvjp with None entries and argnums=,
defvjp_argnum, defvjp_argnums, defjvp with 'same'/None, defjvp_argnum, def_linear), dispatch on differentiated
positions incl. two trace levels and keyword arguments, missing rules raise, unary_to_nary argnum handling."""
import autograd.core as core
import autograd.tracer as tr
from autograd.core import def_linear, defjvp_argnum, defvjp_argnum, defvjp_argnums
from autograd.wrap_util import unary_to_nary
from vf.ch.qtypes import D, Q, QBox, QVSpace, defjvp, defvjp, make_jvp, make_vjp, primitive, qmul

CALLS = []


def mk(n, coefs, api, none_mask, kwc):
    """primitive of arity n: p(a_0..a_{n-1}; kw=k) = sum coefs[i]*a_i + kw ; rule i multiplies by coefs[i] and logs
    (i, ans value, original argument values, kw).  api selects the registration API.  none_mask[i]: position i is
    registered as non-differentiable (None)."""
    @primitive
    def p(*args, **kw):
        return Q(sum(coefs[i] * args[i].v for i in range(n)) + kw.get("kw", 0))

    def rule(i):
        def maker(ans, *args, **kw):
            vals = tuple(a.v if isinstance(a, Q) else "BOX" for a in args)

            def vjp(g):
                CALLS.append((i, ans.v, vals, kw.get("kw", 0)))
                return Q(coefs[i] * g.v)

            return vjp

        return maker

    makers = [None if none_mask[i] else rule(i) for i in range(n)]
    if api == 0:
        defvjp(p, *makers)
    elif api == 1:  # argnums= with only the differentiable positions listed (the others have NO rule: see missing_rule)
        idx = [i for i in range(n) if not none_mask[i]]
        defvjp(p, *[makers[i] for i in idx], argnums=idx)
    elif api == 2:
        def maker_argnum(argnum, ans, args, kw):
            if none_mask[argnum]:
                return lambda g: QVSpace(None).zeros()
            return rule(argnum)(ans, *args, **kw)

        defvjp_argnum(p, maker_argnum)
    else:
        def maker_argnums(argnums, ans, args, kw):
            vs = [(lambda g: QVSpace(None).zeros()) if none_mask[a] else rule(a)(ans, *args, **kw) for a in argnums]
            return lambda g: [v(g) for v in vs]

        defvjp_argnums(p, maker_argnums)
    return p


def contract(n, coefs, api, none_mask, diff, vals, g0, kwc):
    """differentiate p w.r.t. the positions in `diff` simultaneously (the same traced x is passed there)"""
    del CALLS[:]
    p = mk(n, coefs, api, none_mask, kwc)
    consts = [Q(v) for v in vals]
    x0 = vals[0]

    def f(x):
        args = [x if diff[i] else consts[i] for i in range(n)]
        return p(*args, kw=kwc)

    vjp, y = make_vjp(f, Q(x0))
    argv = tuple(x0 if diff[i] else vals[i] for i in range(n))
    yv = sum(coefs[i] * argv[i] for i in range(n)) + kwc
    if y.v != yv:
        return False
    # two backward evaluations of the same trace (what jacobian / hessian do): in EACH of them every rule is
    # invoked exactly once and the result is the full sum
    for gv in (g0, g0 + 1):
        del CALLS[:]
        got = vjp(Q(gv)).v
        want = 0
        for i in range(n):
            if diff[i] and not none_mask[i]:
                want = want + coefs[i] * gv
                hits = [c for c in CALLS if c[0] == i]
                # invoked exactly once, with the primitive's output, the ORIGINAL (unboxed) argument values and the kwargs
                if len(hits) != 1 or hits[0][1] != yv or hits[0][2] != argv or hits[0][3] != kwc:
                    return False
            else:
                if any(c[0] == i for c in CALLS):
                    return False
        if got != want:
            return False
    return True


def _contract3(c0: int, c1: int, c2: int, api: int, n0: bool, n1: bool, n2: bool, d0: bool, d1: bool, d2: bool, v0: int, v1: int, v2: int, g0: int, kwc: int) -> bool:
    """
    pre: 0 <= api <= 3 and (d0 or d1 or d2)
    pre: not (n0 and n1 and n2)
    pre: api != 1 or not ((n0 and d0) or (n1 and d1) or (n2 and d2))
    post: _
    """
    return contract(3, [c0, c1, c2], api, [n0, n1, n2], [d0, d1, d2], [v0, v1, v2], g0, kwc)


def _contract1(c0: int, api: int, v0: int, g0: int, kwc: int) -> bool:
    """
    pre: 0 <= api <= 3
    post: _
    """
    return contract(1, [c0], api, [False], [True], [v0], g0, kwc)


def _contract2(c0: int, c1: int, api: int, n0: bool, n1: bool, d0: bool, d1: bool, v0: int, v1: int, g0: int, kwc: int) -> bool:
    """
    pre: 0 <= api <= 3 and (d0 or d1) and not (n0 and n1)
    pre: api != 1 or not ((n0 and d0) or (n1 and d1))
    post: _
    """
    return contract(2, [c0, c1], api, [n0, n1], [d0, d1], [v0, v1], g0, kwc)


def _contract5(c0: int, c1: int, c2: int, c3: int, c4: int, api: int, n1: bool, n3: bool, d0: bool, d1: bool, d2: bool, d3: bool, d4: bool, v0: int, g0: int) -> bool:
    """
    pre: 0 <= api <= 3 and (d0 or d1 or d2 or d3 or d4)
    pre: api != 1 or not ((n1 and d1) or (n3 and d3))
    post: _
    """
    return contract(5, [c0, c1, c2, c3, c4], api, [False, n1, False, n3, False], [d0, d1, d2, d3, d4], [v0, 2, 3, 4, 5], g0, 0)


def _contract_reach(c0: int, c1: int, api: int, v0: int) -> bool:
    """
    pre: 0 <= api <= 3
    post: False
    """
    return contract(2, [c0, c1], api, [False, False], [True, True], [v0, 1], 1, 0)


def missing_rule(n, api, reg, diff, fwd):
    """api 0: rules registered only for the positions in `reg` (argnums=): a differentiated position without a rule
    must RAISE.  api 1: every position registered, the ones not in `reg` as None: they get a zero, nothing raises.
    api 2: nothing registered at all: always raises."""
    @primitive
    def p(*args):
        return Q(sum(a.v for a in args))

    idx = [i for i in range(n) if reg[i]]
    if fwd:
        rule = lambda g, ans, *a: g
        if api == 0:
            defjvp(p, *[rule for _ in idx], argnums=idx)
        elif api == 1:
            defjvp(p, *[(rule if reg[i] else None) for i in range(n)])
    else:
        rule = lambda ans, *a: lambda g: g
        if api == 0:
            defvjp(p, *[rule for _ in idx], argnums=idx)
        elif api == 1:
            defvjp(p, *[(rule if reg[i] else None) for i in range(n)])
    consts = [Q(i) for i in range(n)]

    def f(x):
        return p(*[x if diff[i] else consts[i] for i in range(n)])

    need = {i for i in range(n) if diff[i]}
    must_raise = (api == 2) or (api == 0 and not need <= set(idx))
    try:
        r = D(f, Q(3), fwd)
    except (NotImplementedError, KeyError):
        return must_raise
    except Exception:
        return False
    if must_raise:
        return False  # silently returned a derivative although a rule is missing
    return r.v == len(need & set(idx))


def _missing3(api: int, r0: bool, r1: bool, r2: bool, d0: bool, d1: bool, d2: bool, fwd: bool) -> bool:
    """
    pre: 0 <= api <= 2 and (d0 or d1 or d2)
    post: _
    """
    return missing_rule(3, api, [r0, r1, r2], [d0, d1, d2], fwd)


def _missing1(api: int, r0: bool, fwd: bool) -> bool:
    """
    pre: 0 <= api <= 2
    post: _
    """
    return missing_rule(1, api, [r0], [True], fwd)


def _missing2(api: int, r0: bool, r1: bool, d0: bool, d1: bool, fwd: bool) -> bool:
    """
    pre: 0 <= api <= 2 and (d0 or d1)
    post: _
    """
    return missing_rule(2, api, [r0, r1], [d0, d1], fwd)


class NotDiff:
    pass


def _newbox_unregistered(k: int) -> bool:
    """
    pre: 0 <= k <= 3
    post: _
    """
    vals = [NotDiff(), "s", 3, None]
    try:
        make_vjp(lambda x: x, vals[k])
    except TypeError:
        return True
    except Exception:
        return False
    return False


def jvp_api(n, coefs, api, diff, vals, t0, none1):
    """forward-mode registration APIs: 0 defjvp(callables) 1 defjvp('same') [linear prim] 2 defjvp_argnum 3 def_linear;
    position 1 optionally registered as None (zero tangent)"""
    @primitive
    def p(*args):
        return Q(sum(coefs[i] * args[i].v for i in range(n)))

    if api == 0:
        defjvp(p, *[(None if (none1 and i == 1) else (lambda g, ans, *a, _i=i: Q(coefs[_i] * g.v))) for i in range(n)])
    elif api == 1:
        defjvp(p, *[(None if (none1 and i == 1) else "same") for i in range(n)])
    elif api == 2:
        defjvp_argnum(p, lambda argnum, g, ans, args, kw: Q(coefs[argnum] * g.v))
    else:
        def_linear(p)
    consts = [Q(v) for v in vals]

    def f(x):
        return p(*[x if diff[i] else consts[i] for i in range(n)])

    y, t = make_jvp(f, Q(vals[0]))(Q(t0))
    want = 0
    for i in range(n):
        if diff[i] and not (none1 and i == 1 and api in (0, 1)):
            if api in (1, 3):
                # 'same' / def_linear: p(.., g at position i, ..) with the OTHER arguments at their primal values
                others = sum(coefs[j] * (vals[0] if diff[j] else vals[j]) for j in range(n) if j != i)
                want = want + coefs[i] * t0 + others
            else:
                want = want + coefs[i] * t0
    return t.v == want


def _jvpapi3(c0: int, c1: int, c2: int, api: int, d0: bool, d1: bool, d2: bool, v0: int, v1: int, v2: int, t0: int, none1: bool) -> bool:
    """
    pre: 0 <= api <= 3 and (d0 or d1 or d2)
    post: _
    """
    return jvp_api(3, [c0, c1, c2], api, [d0, d1, d2], [v0, v1, v2], t0, none1)


def linear_container(coefs, api, diff, vals, t0, as_list):
    """a primitive whose VALUE is a tuple / list (two leaves), registered with def_linear / 'same' / defjvp_argnum, with
    several arguments differentiated at once: the tangent is the leaf-wise SUM of the per-argument terms, in the
    output's vector space"""
    n = len(coefs)
    mk = list if as_list else tuple

    @primitive
    def p(*args):
        return mk([Q(sum(coefs[i] * args[i].v for i in range(n))), Q(sum((i + 2) * coefs[i] * args[i].v for i in range(n)))])

    if api == 0:
        def_linear(p)
    elif api == 1:
        defjvp(p, *["same" for _ in range(n)])
    else:
        defjvp_argnum(p, lambda argnum, g, ans, args, kw: mk([Q(coefs[argnum] * g.v), Q((argnum + 2) * coefs[argnum] * g.v)]))
    consts = [Q(v) for v in vals]

    def f(x):
        return p(*[x if diff[i] else consts[i] for i in range(n)])

    y, t = make_jvp(f, Q(vals[0]))(Q(t0))
    if not isinstance(t, mk) or len(t) != 2:
        return False
    want0 = want1 = 0
    for i in range(n):
        if diff[i]:
            if api in (0, 1):
                o0 = sum(coefs[j] * (vals[0] if diff[j] else vals[j]) for j in range(n) if j != i)
                o1 = sum((j + 2) * coefs[j] * (vals[0] if diff[j] else vals[j]) for j in range(n) if j != i)
                want0, want1 = want0 + coefs[i] * t0 + o0, want1 + (i + 2) * coefs[i] * t0 + o1
            else:
                want0, want1 = want0 + coefs[i] * t0, want1 + (i + 2) * coefs[i] * t0
    return t[0].v == want0 and t[1].v == want1


def _linear_container3(c0: int, c1: int, c2: int, api: int, d0: bool, d1: bool, d2: bool, v0: int, v1: int, v2: int, t0: int, as_list: bool) -> bool:
    """
    pre: 0 <= api <= 2 and (d0 or d1 or d2)
    post: _
    """
    return linear_container([c0, c1, c2], api, [d0, d1, d2], [v0, v1, v2], t0, as_list)


def same_argnums(coefs, reg, diff, vals, t0):
    """defjvp(p, "same", ..., argnums=<the positions in reg>): the 'same' shorthand registered for a SUBSET of the
    positions (entry index != argument number).  Differentiating a registered position re-applies p with the tangent
    substituted at THAT position; an unregistered position raises."""
    n = len(coefs)

    @primitive
    def p(*args):
        return Q(sum(coefs[i] * args[i].v for i in range(n)))

    idx = [i for i in range(n) if reg[i]]
    defjvp(p, *["same" for _ in idx], argnums=tuple(idx))
    consts = [Q(v) for v in vals]

    def f(x):
        return p(*[x if diff[i] else consts[i] for i in range(n)])

    must_raise = any(diff[i] and not reg[i] for i in range(n))
    try:
        y, t = make_jvp(f, Q(vals[0]))(Q(t0))
    except Exception:
        return must_raise
    if must_raise:
        return False
    want = 0
    for i in range(n):
        if diff[i]:
            others = sum(coefs[j] * (vals[0] if diff[j] else vals[j]) for j in range(n) if j != i)
            want = want + coefs[i] * t0 + others
    return t.v == want


def _same_argnums3(c0: int, c1: int, c2: int, r0: bool, r1: bool, r2: bool, d0: bool, d1: bool, d2: bool, v0: int, v1: int, v2: int, t0: int) -> bool:
    """
    pre: (r0 or r1 or r2) and (d0 or d1 or d2)
    post: _
    """
    return same_argnums([c0, c1, c2], [r0, r1, r2], [d0, d1, d2], [v0, v1, v2], t0)


def two_levels(c0, c1, inner0, x0, y0, m_o, m_i):
    """p(a, b) = c0*a*b ... arguments assigned to the inner or the outer of two nested traces: d/dy [ d/dx p ]"""
    def outer(y):
        def inner(x):
            a = x if inner0 else y
            b = y if inner0 else x
            return qmul(qmul(a, b), Q(c0))

        r = D(inner, Q(x0), m_i)  # d/dx (c0 * x * y) = c0 * y
        return qmul(r, Q(c1))

    return D(outer, Q(y0), m_o).v == c0 * c1


def _levels(c0: int, c1: int, inner0: bool, x0: int, y0: int, m_o: bool, m_i: bool, k: int) -> bool:
    """
    pre: -1 <= k
    post: _
    """
    tr.trace_stack.top = k
    try:
        return two_levels(c0, c1, inner0, x0, y0, m_o, m_i)
    finally:
        tr.trace_stack.top = -1


@primitive
def kwscale(a, scale=None, shift=None):
    # a user primitive whose raw function is itself built from traceable operations: a KEYWORD value that belongs to an
    # enclosing trace keeps its dependence through the inner call
    r = qmul(a, scale)
    return r if shift is None else padd2(r, shift)


@primitive
def padd2(u, w):
    return Q(u.v + w.v)


defvjp(padd2, lambda ans, u, w: lambda g: g, lambda ans, u, w: lambda g: g)
defjvp(padd2, lambda g, ans, u, w: g, lambda g, ans, u, w: g)
defvjp(kwscale, lambda ans, a, scale=None, shift=None: lambda g: qmul(g, scale))
defjvp(kwscale, lambda g, ans, a, scale=None, shift=None: qmul(g, scale))


def kw_levels(c1, x0, s0, m_o, m_i, with_shift):
    """d/ds [ c1 * d/dx kwscale(x, scale=s) ] = c1 : the positional argument is traced by the inner level, the keyword
    argument by the outer one; the rule receives the ORIGINAL keyword value (an outer box), not a stripped constant"""
    def outer(s):
        def inner(x):
            return kwscale(x, scale=s, shift=s) if with_shift else kwscale(x, scale=s)

        r = D(inner, Q(x0), m_i)  # d/dx (x * s [+ s]) = s
        return qmul(r, Q(c1))

    return D(outer, Q(s0), m_o).v == c1


def _kw_levels(c1: int, x0: int, s0: int, m_o: bool, m_i: bool, with_shift: bool, k: int) -> bool:
    """
    pre: -1 <= k
    post: _
    """
    tr.trace_stack.top = k
    try:
        return kw_levels(c1, x0, s0, m_o, m_i, with_shift)
    finally:
        tr.trace_stack.top = -1


# ---- unary_to_nary: argnum int / tuple / list, extra positional and keyword arguments ---------------------------


@primitive
def lin4(a, b, c, d, k0=0, k1=0, k2=0, k3=0, extra=0):
    return Q(k0 * a.v + k1 * b.v + k2 * c.v + k3 * d.v + extra)


defvjp(lin4, lambda ans, a, b, c, d, k0=0, k1=0, k2=0, k3=0, extra=0: lambda g: Q(k0 * g.v),
       lambda ans, a, b, c, d, k0=0, k1=0, k2=0, k3=0, extra=0: lambda g: Q(k1 * g.v),
       lambda ans, a, b, c, d, k0=0, k1=0, k2=0, k3=0, extra=0: lambda g: Q(k2 * g.v),
       lambda ans, a, b, c, d, k0=0, k1=0, k2=0, k3=0, extra=0: lambda g: Q(k3 * g.v))


def _argnum_int(i: int, k0: int, k1: int, k2: int, k3: int, a: int, b: int, c: int, d: int, g0: int, extra: int) -> bool:
    """
    pre: 0 <= i <= 3
    post: _
    """
    from autograd import make_vjp as mv

    ks = [k0, k1, k2, k3]
    seen = {}

    def fun(a_, b_, c_, d_, extra=0):
        seen["args"] = (a_, b_, c_, d_)
        return lin4(a_, b_, c_, d_, k0=k0, k1=k1, k2=k2, k3=k3, extra=extra)

    args = [Q(a), Q(b), Q(c), Q(d)]
    vjp, y = mv(fun, i)(*args, extra=extra)
    got = vjp(Q(g0))
    # only the selected position is traced; every other argument reaches fun unchanged (identity)
    for j in range(4):
        if j != i and seen["args"][j] is not args[j]:
            return False
    if not isinstance(seen["args"][i], QBox):
        return False
    return got.v == ks[i] * g0 and y.v == k0 * a + k1 * b + k2 * c + k3 * d + extra


def _argnum_pair(i: int, j: int, as_list: bool, k0: int, k1: int, k2: int, k3: int, g0: int) -> bool:
    """
    pre: 0 <= i <= 3 and 0 <= j <= 3 and i != j
    post: _
    """
    from autograd import make_vjp as mv

    ks = [k0, k1, k2, k3]
    fun = lambda a_, b_, c_, d_: lin4(a_, b_, c_, d_, k0=k0, k1=k1, k2=k2, k3=k3)
    argnum = [i, j] if as_list else (i, j)
    vjp, y = mv(fun, argnum)(Q(1), Q(2), Q(3), Q(4))
    got = vjp(Q(g0))
    return isinstance(got, tuple) and len(got) == 2 and got[0].v == ks[i] * g0 and got[1].v == ks[j] * g0


def _unary_to_nary_generic(i: int, n_extra: int, kw: int) -> bool:
    """
    pre: 0 <= i <= 2 and 0 <= n_extra <= 2
    post: _
    """
    # the wrapper itself, with a marker operator: the operator must receive exactly args[i] and a unary function that
    # substitutes its argument at position i and passes everything else (and the kwargs) through
    rec = {}

    @unary_to_nary
    def op(fun, x, *opargs, **opkw):
        rec["x"] = x
        rec["opargs"] = opargs
        rec["opkw"] = opkw
        return fun("SUB")

    def fun(*args, **kwargs):
        return (args, kwargs)

    args = ["a0", "a1", "a2"]
    extra = tuple(range(n_extra))
    res_args, res_kw = op(fun, i, *extra, flag=kw)(*args, key=kw)
    want = list(args)
    want[i] = "SUB"
    return rec["x"] == args[i] and rec["opargs"] == extra and rec["opkw"] == {"flag": kw} and list(res_args) == want and res_kw == {"key": kw}
