"""Engine D harnesses (CrossHair): the shape arithmetic of autograd's rule helpers for UNBOUNDED dimensions.
The real functions of autograd.numpy.numpy_vjps / numpy_jvps run with their module globals `anp` / `onp` bound to
the shape-level namespace vf.shp.model.NS; dimensions are symbolic ints (>= 0, no upper bound), ranks are small
(list lengths).  Claims: the cotangent / tangent a rule hands back has exactly the argument's / output's shape (and
real/complex kind), and slices select exactly the argument's block."""
from typing import List

import autograd.numpy.numpy_jvps as JV
import autograd.numpy.numpy_vjps as V
from vf.shp.model import NS, ShapeError, ShArr, _prod


GAPS = []


class bound:
    """bind the model namespace inside the real modules for the duration of one harness call"""

    def __enter__(self):
        self.saved = (V.anp, V.onp, JV.anp, JV.onp)
        V.anp = V.onp = JV.anp = JV.onp = NS
        return self

    def __exit__(self, *a):
        V.anp, V.onp, JV.anp, JV.onp = self.saved
        return False


def _nonneg(xs):
    for d in xs:
        if d < 0:
            return False
    return True


# ---- unbroadcast (every broadcasting VJP) ------------------------------------------------------------------------


def unbroadcast_body(t, other, extra, tc, xc):
    """x has the shape of `t` broadcast against another operand: `extra` leading dimensions, and where t has a 1 the
    other operand's dimension `other[i]`"""
    xs = list(extra) + [(other[i] if t[i] == 1 else t[i]) for i in range(len(t))]
    with bound():
        try:
            r = V.unbroadcast(ShArr(xs, xc), (tuple(t), len(t), None, tc))
        except ShapeError:
            return False
        except Exception as e:  # the model lacks something the code now uses: no verdict (reported by vf.shp.validate)
            GAPS.append("%s: %s" % (type(e).__name__, e))
            return True
    return r.shape == tuple(t) and (tc or not r.cplx)


def _unbroadcast(t: List[int], other: List[int], extra: List[int], tc: bool, xc: bool) -> bool:
    """
    pre: len(t) <= 3 and len(other) == len(t) and len(extra) <= 2
    pre: _nonneg(t) and _nonneg(other) and _nonneg(extra)
    post: _
    """
    return unbroadcast_body(t, other, extra, tc, xc)


def _unbroadcast_reach(t: List[int], other: List[int], extra: List[int]) -> bool:
    """
    pre: len(t) == 2 and len(other) == 2 and len(extra) == 1
    pre: _nonneg(t) and _nonneg(other) and _nonneg(extra)
    post: not _
    """
    return unbroadcast_body(t, other, extra, False, True)


# ---- broadcast (every broadcasting JVP) ---------------------------------------------------------------------------


def broadcast_body(t, ones, drop, tc, xc):
    """x is an operand that broadcasts to the output shape t: the last len(t)-drop dimensions, each equal to t's or 1"""
    n = len(t)
    xs = [(1 if ones[i] else t[i]) for i in range(drop, n)]
    with bound():
        try:
            r = JV.broadcast(ShArr(xs, xc), ShArr(t, tc))
        except ShapeError:
            return False
        except Exception as e:  # the model lacks something the code now uses: no verdict (reported by vf.shp.validate)
            GAPS.append("%s: %s" % (type(e).__name__, e))
            return True
    return r.shape == tuple(t) and r.cplx == (xc or tc)


def _broadcast(t: List[int], ones: List[bool], drop: int, tc: bool, xc: bool) -> bool:
    """
    pre: len(t) <= 3 and len(ones) == len(t) and 0 <= drop <= len(t)
    pre: _nonneg(t)
    post: _
    """
    return broadcast_body(t, ones, drop, tc, xc)


# ---- repeat_to_match_shape (sum / mean / prod / var / std / max / min VJPs) ---------------------------------------------


def _reduced(shape, axes, keepdims):
    if keepdims:
        return [1 if i in axes else d for i, d in enumerate(shape)]
    return [d for i, d in enumerate(shape) if i not in axes]


def rtms_body(shape, kind, a0, a1, keepdims):
    n = len(shape)
    if kind == 0:
        axis, axes = None, list(range(n))
    elif kind == 1:
        axis, axes = a0, [a0 % n]
    else:
        axis, axes = (a0, a1), [a0 % n, a1 % n]
    g = ShArr(_reduced(shape, axes, keepdims))
    with bound():
        try:
            r, reps = V.repeat_to_match_shape(g, tuple(shape), None, axis, keepdims)
        except ShapeError:
            return False
        except Exception as e:  # the model lacks something the code now uses: no verdict (reported by vf.shp.validate)
            GAPS.append("%s: %s" % (type(e).__name__, e))
            return True
    want = 1
    for i in axes:
        want = want * shape[i]
    return r.shape == tuple(shape) and reps == want


def _repeat_to_match_shape(shape: List[int], kind: int, a0: int, a1: int, keepdims: bool) -> bool:
    """
    pre: 1 <= len(shape) <= 3 and 0 <= kind <= 2 and _nonneg(shape)
    pre: -len(shape) <= a0 < len(shape) and -len(shape) <= a1 < len(shape)
    pre: kind < 2 or (a0 % len(shape)) != (a1 % len(shape))
    post: _
    """
    return rtms_body(shape, kind, a0, a1, keepdims)


# ---- np.repeat ---------------------------------------------------------------------------------------------------------


def repeat_body(shape, repeats, use_axis, axis):
    x = ShArr(shape)
    ax = axis if use_axis else None
    ans = NS.repeat(x, repeats, ax)
    with bound():
        try:
            r = V.grad_repeat(ans, x, repeats, ax)(ShArr(ans.shape))
        except ShapeError:
            return False
        except Exception as e:  # the model lacks something the code now uses: no verdict (reported by vf.shp.validate)
            GAPS.append("%s: %s" % (type(e).__name__, e))
            return True
    return r.shape == tuple(shape)


def _grad_repeat(shape: List[int], repeats: int, use_axis: bool, axis: int) -> bool:
    """
    pre: 1 <= len(shape) <= 3 and _nonneg(shape) and 1 <= repeats
    pre: -len(shape) <= axis < len(shape)
    post: _
    """
    return repeat_body(shape, repeats, use_axis, axis)


# ---- np.tile -----------------------------------------------------------------------------------------------------------


def tile_body(shape, reps, scalar_reps):
    x = ShArr(shape)
    rp = list(reps)
    d = max(len(rp), len(shape))
    xs = [1] * (d - len(shape)) + list(shape)
    rs = [1] * (d - len(rp)) + rp
    ans = ShArr([a * b for a, b in zip(xs, rs)])
    arg = rp[0] if scalar_reps else tuple(rp)
    with bound():
        try:
            r = V.grad_tile(ans, x, arg)(ShArr(ans.shape))
        except ShapeError:
            return False
        except Exception as e:  # the model lacks something the code now uses: no verdict (reported by vf.shp.validate)
            GAPS.append("%s: %s" % (type(e).__name__, e))
            return True
    return r.shape == tuple(shape)


def _grad_tile(shape: List[int], reps: List[int], scalar_reps: bool) -> bool:
    """
    pre: len(shape) <= 3 and 1 <= len(reps) <= 3 and _nonneg(shape)
    pre: all(1 <= r <= 3 for r in reps)
    pre: (not scalar_reps) or len(reps) == 1
    post: _
    """
    return tile_body(shape, reps, scalar_reps)


# ---- np.transpose ------------------------------------------------------------------------------------------------------


def transpose_body(shape, axes):
    x = ShArr(shape)
    ans = NS.transpose(x, axes)
    with bound():
        try:
            r = V.grad_transpose(ans, x, axes)(ShArr(ans.shape))
        except ShapeError:
            return False
        except Exception as e:  # the model lacks something the code now uses: no verdict (reported by vf.shp.validate)
            GAPS.append("%s: %s" % (type(e).__name__, e))
            return True
    # shapes alone cannot tell two equal dimensions apart: the claim is made on the permutation itself
    n = len(shape)
    probe = ShArr(list(range(100, 100 + n)))
    with bound():
        back = V.grad_transpose(None, probe, axes)(NS.transpose(probe, axes))
    return r.shape == tuple(shape) and back.shape == probe.shape


def _grad_transpose(shape: List[int], axes: List[int]) -> bool:
    """
    pre: 1 <= len(shape) <= 3 and len(axes) == len(shape) and _nonneg(shape)
    pre: all(-len(shape) <= a < len(shape) for a in axes)
    pre: sorted(a % len(shape) for a in axes) == list(range(len(shape)))
    post: _
    """
    return transpose_body(shape, tuple(axes))


# ---- np.concatenate ----------------------------------------------------------------------------------------------------


def concat_body(sizes, rest, axis_pos, argnum, neg_axis):
    """k = len(sizes) arrays of rank len(rest)+1 joined along axis `axis_pos`; VJP w.r.t. argument `argnum` (1-based in
    the rule, position 0 is the axis)"""
    k = len(sizes)
    shapes = []
    for s in sizes:
        sh = list(rest)
        sh.insert(axis_pos, s)
        shapes.append(sh)
    args = [ShArr(sh) for sh in shapes]
    nd = len(rest) + 1
    axis = axis_pos - nd if neg_axis else axis_pos
    ans = NS.concatenate(args, axis)
    with bound():
        try:
            r = V.grad_concatenate_args(argnum, ans, (axis,) + tuple(args), {})(ShArr(ans.shape))
        except ShapeError:
            return False
        except Exception as e:  # the model lacks something the code now uses: no verdict (reported by vf.shp.validate)
            GAPS.append("%s: %s" % (type(e).__name__, e))
            return True
    lo = 0
    for s in sizes[: argnum - 1]:
        lo = lo + s
    org = r.origin[axis_pos]
    return r.shape == tuple(shapes[argnum - 1]) and org == (lo, lo + sizes[argnum - 1])


def _grad_concatenate2(s0: int, s1: int, r0: int, rank2: bool, axis_pos: int, argnum: int, neg_axis: bool) -> bool:
    """
    pre: s0 >= 0 and s1 >= 0 and r0 >= 0 and 1 <= argnum <= 2
    pre: 0 <= axis_pos <= (1 if rank2 else 0)
    post: _
    """
    return concat_body([s0, s1], [r0] if rank2 else [], axis_pos, argnum, neg_axis)


def _grad_concatenate3(s0: int, s1: int, s2: int, r0: int, r1: int, axis_pos: int, argnum: int, neg_axis: bool) -> bool:
    """
    pre: s0 >= 0 and s1 >= 0 and s2 >= 0 and r0 >= 0 and r1 >= 0 and 1 <= argnum <= 3
    pre: 0 <= axis_pos <= 2
    post: _
    """
    return concat_body([s0, s1, s2], [r0, r1], axis_pos, argnum, neg_axis)


def _grad_concatenate4(s0: int, s1: int, s2: int, s3: int, argnum: int, neg_axis: bool) -> bool:
    """
    pre: s0 >= 0 and s1 >= 0 and s2 >= 0 and s3 >= 0 and 1 <= argnum <= 4
    post: _
    """
    return concat_body([s0, s1, s2, s3], [], 0, argnum, neg_axis)


# ---- np.broadcast_to ---------------------------------------------------------------------------------------------------


def broadcast_to_body(new, ones):
    old = [(1 if ones[i] else new[i]) for i in range(len(new))]
    x = ShArr(old)
    ans = ShArr(new)
    with bound():
        try:
            r = V.grad_broadcast_to(ans, x, tuple(new))(ShArr(new))
        except ShapeError:
            return False
        except Exception as e:  # the model lacks something the code now uses: no verdict (reported by vf.shp.validate)
            GAPS.append("%s: %s" % (type(e).__name__, e))
            return True
    return r.shape == tuple(old)


def _grad_broadcast_to(new: List[int], ones: List[bool]) -> bool:
    """
    pre: len(new) <= 3 and len(ones) == len(new) and _nonneg(new)
    post: _
    """
    return broadcast_to_body(new, ones)


def broadcast_to_lead_body(new, ones, drop):
    """x has FEWER dimensions than the target (NumPy aligns shapes at the trailing end): the rule may refuse (today it
    asserts), but if it answers, the cotangent has x's shape"""
    old = [(1 if ones[i] else new[i]) for i in range(len(new))][drop:]
    x = ShArr(old)
    ans = ShArr(new)
    with bound():
        try:
            r = V.grad_broadcast_to(ans, x, tuple(new))(ShArr(new))
        except (ShapeError, AssertionError, NotImplementedError):
            return True  # a loud refusal is allowed
        except Exception as e:
            GAPS.append("%s: %s" % (type(e).__name__, e))
            return True
    return r.shape == tuple(old)


def _grad_broadcast_to_lead(new: List[int], ones: List[bool], drop: int) -> bool:
    """
    pre: 2 <= len(new) <= 4 and len(ones) == len(new) and _nonneg(new) and 1 <= drop < len(new)
    post: _
    """
    return broadcast_to_lead_body(new, ones, drop)


# ---- np.dot / np.tensordot / np.matmul (rank-dependent contraction logic) ----------------------------------------------------


def dot_body(ra, rb, da, db, k, wrt, ac, bc):
    """A of rank ra, B of rank rb with the contracted dimension k shared the way np.dot pairs them"""
    if ra == 0 or rb == 0:
        ash, bsh = list(da[:ra]), list(db[:rb])
    elif rb == 1:
        ash, bsh = list(da[: ra - 1]) + [k], [k]
    else:
        ash = list(da[: ra - 1]) + [k]
        bsh = list(db[: rb - 2]) + [k] + [db[2]]
    A, B = ShArr(ash, ac), ShArr(bsh, bc)
    ans = NS.dot(A, B)
    with bound():
        try:
            g = ShArr(ans.shape, ac or bc)
            r = (V.dot_vjp_0 if wrt == 0 else V.dot_vjp_1)(ans, A, B)(g)
        except ShapeError:
            return False
        except Exception as e:
            GAPS.append("%s: %s" % (type(e).__name__, e))
            return True
    tgt = A if wrt == 0 else B
    return r.shape == tgt.shape and r.cplx == tgt.cplx


def _dot(ra: int, rb: int, a0: int, a1: int, b0: int, b1: int, b2: int, k: int, wrt: int, ac: bool, bc: bool) -> bool:
    """
    pre: 0 <= ra <= 3 and 0 <= rb <= 3 and 0 <= wrt <= 1
    pre: a0 >= 0 and a1 >= 0 and b0 >= 0 and b1 >= 0 and b2 >= 0 and k >= 0
    post: _
    """
    return dot_body(ra, rb, [a0, a1, 7], [b0, b1, b2], k, wrt, ac, bc)


def tensordot_body(ra, rb, n, da, db, ks, wrt, form, perm, negs):
    """A (rank ra) and B (rank rb) contract n axes.  form 0: axes=n (last n of A with first n of B); form 1: explicit
    axis lists: A's LAST n axes in the order `perm`, paired with B's first n axes in the same order, optionally
    written with negative numbers"""
    ash = list(da[: ra - n]) + list(ks[:n])
    bsh = list(ks[:n]) + list(db[: rb - n])
    A, B = ShArr(ash), ShArr(bsh)
    if form == 0:
        axes = n
    else:
        order = [[0], [0, 1], [1, 0]][perm][:n] if n == 2 else list(range(n))
        ax_a = [ra - n + i for i in order]
        ax_b = [i for i in order]
        if negs:
            ax_a = [i - ra for i in ax_a]
            ax_b = [i - rb for i in ax_b]
        axes = (ax_a, ax_b) if form == 1 else ((ax_a[0], ax_b[0]) if n == 1 else (ax_a, ax_b))
    ans = NS.tensordot(A, B, axes)
    with bound():
        try:
            r = (V.tensordot_vjp_0 if wrt == 0 else V.tensordot_vjp_1)(ans, A, B, axes)(ShArr(ans.shape))
        except ShapeError:
            return False
        except Exception as e:
            GAPS.append("%s: %s" % (type(e).__name__, e))
            return True
    return r.shape == (A if wrt == 0 else B).shape


def _tensordot(ra: int, rb: int, n: int, a0: int, a1: int, b0: int, b1: int, k0: int, k1: int, wrt: int, form: int, perm: int, negs: bool) -> bool:
    """
    pre: 0 <= n <= 2 and n <= ra <= 3 and n <= rb <= 3 and 0 <= wrt <= 1 and 0 <= form <= 2 and 1 <= perm <= 2
    pre: ra - n <= 2 and rb - n <= 2
    pre: a0 >= 0 and a1 >= 0 and b0 >= 0 and b1 >= 0 and k0 >= 0 and k1 >= 0
    pre: form == 0 or n >= 1
    post: _
    """
    return tensordot_body(ra, rb, n, [a0, a1], [b0, b1], [k0, k1], wrt, form, perm, negs)


def matmul_body(ra, rb, batch_a, batch_b, m, k, n, wrt):
    """A = batch_a + (m, k) (or (k,) when ra == 1), B = batch_b + (k, n) (or (k,)); batch dims broadcast"""
    ash = [k] if ra == 1 else list(batch_a[: ra - 2]) + [m, k]
    bsh = [k] if rb == 1 else list(batch_b[: rb - 2]) + [k, n]
    A, B = ShArr(ash), ShArr(bsh)
    try:
        ans = NS.matmul(A, B)
    except ShapeError:
        return True  # NumPy rejects the call
    with bound():
        try:
            r = (V.matmul_vjp_0 if wrt == 0 else V.matmul_vjp_1)(ans, A, B)(ShArr(ans.shape))
        except ShapeError:
            return False
        except Exception as e:
            GAPS.append("%s: %s" % (type(e).__name__, e))
            return True
    return r.shape == (A if wrt == 0 else B).shape


def _matmul(ra: int, rb: int, ba: int, bb: int, a_one: bool, b_one: bool, m: int, k: int, n: int, wrt: int) -> bool:
    """
    pre: 1 <= ra <= 3 and 1 <= rb <= 3 and 0 <= wrt <= 1
    pre: ba >= 0 and bb >= 0 and m >= 0 and k >= 0 and n >= 0
    pre: a_one or b_one or ba == bb
    post: _
    """
    return matmul_body(ra, rb, [1 if a_one else ba], [1 if b_one else bb], m, k, n, wrt)


# ---- np.rollaxis / np.moveaxis / np.swapaxes (axis arithmetic of the inverse) --------------------------------------------


def _run_vjp(name, args, kwargs=None):
    """VJP maker registered for autograd.numpy.<name>, applied to the model's forward result; returns (result, x)"""
    import autograd.core as core
    import autograd.numpy as anp_real

    fun = getattr(anp_real, name)
    x = args[0]
    ans = getattr(NS, name)(*args, **(kwargs or {}))
    vjpmaker = core.primitive_vjps[fun]
    with bound():
        vjp = vjpmaker((0,), ans, tuple(args), kwargs or {})
        out = vjp(ShArr(ans.shape, ans.cplx))
    return (out[0] if isinstance(out, (tuple, list)) else out), x


def perm_body(name, n, a, b):
    probe = ShArr(list(range(100, 100 + n)))  # distinct dimensions: the shape identifies the permutation
    try:
        r, x = _run_vjp(name, (probe, a, b))
    except ShapeError:
        return False
    except NotImplementedError:
        return True  # refused loudly
    except Exception as e:
        GAPS.append("%s: %s" % (type(e).__name__, e))
        return True
    return r.shape == x.shape


def _rollaxis(n: int, axis: int, start: int) -> bool:
    """
    pre: 1 <= n <= 4 and -n <= axis < n and -n <= start <= n
    post: _
    """
    return perm_body("rollaxis", n, axis, start)


def _moveaxis(n: int, src: int, dst: int) -> bool:
    """
    pre: 1 <= n <= 4 and -n <= src < n and -n <= dst < n
    post: _
    """
    return perm_body("moveaxis", n, src, dst)


def _moveaxis2_4(s0: int, s1: int, d0: int, d1: int) -> bool:
    """
    pre: 0 <= s0 < 4 and 0 <= s1 < 4 and -4 <= d0 < 0 and -4 <= d1 < 0
    pre: s0 != s1 and d0 != d1
    post: _
    """
    return perm_body("moveaxis", 4, (s0, s1), (d0, d1))


def _swapaxes(n: int, a: int, b: int) -> bool:
    """
    pre: 1 <= n <= 4 and -n <= a < n and -n <= b < n
    post: _
    """
    return perm_body("swapaxes", n, a, b)


# ---- np.pad (constant mode): width forms and the slice arithmetic of _unpad ----------------------------------------------


def pad_body(shape, form, lo, hi, lo2, hi2):
    n = len(shape)
    if form == 0:
        width = lo
    elif form == 1:
        width = (lo,)
    elif form == 2:
        width = (lo, hi)
    elif form == 3:
        width = ((lo, hi),)
    else:
        width = tuple([(lo, hi), (lo2, hi2), (hi, lo2)][:n])
    x = ShArr(shape)
    try:
        ans = NS.pad(x, width, "constant")
        with bound():
            r = V.pad_vjp(ans, x, width, "constant")(ShArr(ans.shape))
    except ShapeError:
        return False
    except Exception as e:
        GAPS.append("%s: %s" % (type(e).__name__, e))
        return True
    return r.shape == x.shape and all(o == (w0, w0 + d) for o, d, w0 in zip(r.origin, x.shape, _lows(width, n)))


def _lows(width, n):
    if isinstance(width, int):
        return [width] * n
    if len(width) == 1 and isinstance(width[0], int):
        return [width[0]] * n
    if len(width) == 2 and isinstance(width[0], int):
        return [width[0]] * n
    if len(width) == 1:
        return [width[0][0]] * n
    return [w[0] for w in width]


def _pad(shape: List[int], form: int, lo: int, hi: int, lo2: int, hi2: int) -> bool:
    """
    pre: 1 <= len(shape) <= 3 and _nonneg(shape) and 0 <= form <= 4
    pre: lo >= 0 and hi >= 0 and lo2 >= 0 and hi2 >= 0
    post: _
    """
    return pad_body(shape, form, lo, hi, lo2, hi2)
