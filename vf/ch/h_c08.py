"""C08 / C19-L1 / C20-contract harnesses (CrossHair): nested differentiation through the REAL tracer with symbolic
modes, closure patterns, evaluation points, values and a symbolic initial trace counter (arbitrary history of
leaked trace levels), plus find_top_boxed_args on argument lists with symbolic trace ids."""
from contextlib import contextmanager

import autograd.tracer as tr
from vf.ch.qtypes import D, Q, QBox, qmul


def _mono(coef, px, x0):
    r = coef
    for _ in range(px):
        r = r * x0
    return r


def nest2(x0, m_out, m_in, use_x, at_x, c):
    def outer(x):
        def inner(y):
            r = qmul(y, y)
            return qmul(r, x) if use_x else r

        pt = x if at_x else Q(c)
        r = D(inner, pt, m_in)
        return qmul(x, r)

    got = D(outer, Q(x0), m_out).v
    # closed forms (monomials): inner'(pt) = 2*pt*[x]; outer(x) = x * that
    if use_x and at_x:
        want = 6 * x0 * x0
    elif use_x and not at_x:
        want = 4 * c * x0
    elif (not use_x) and at_x:
        want = 4 * x0
    else:
        want = 2 * c
    return got == want


def nest3(x0, m1, m2, m3, in_y, in_x, pin, mid_x, pmid, c, c2):
    """three levels.  inner(z) = z*z*[y]*[x] differentiated at z = (y | x | c) ; mid(y) = y * inner'(..) differentiated at
    y = (x | c2) ; outer(x) = x * mid'(..) differentiated at x0.  pin: 0 -> y, 1 -> x, 2 -> constant c."""
    def outer(x):
        def mid(y):
            def inner(z):
                r = qmul(z, z)
                if in_y:
                    r = qmul(r, y)
                if in_x:
                    r = qmul(r, x)
                return r

            pt = y if pin == 0 else (x if pin == 1 else Q(c))
            r = D(inner, pt, m3)
            r = qmul(y, r)
            if mid_x:
                r = qmul(r, x)
            return r

        pt = x if pmid else Q(c2)
        r = D(mid, pt, m2)
        return qmul(x, r)

    got = D(outer, Q(x0), m1).v
    # reference by monomial bookkeeping: expression = coef * y^py * x^px
    coef, py, px = 2, 0, 0  # d/dz z^2 = 2 z
    if pin == 0:
        py += 1
    elif pin == 1:
        px += 1
    else:
        coef = coef * c
    if in_y:
        py += 1
    if in_x:
        px += 1
    py += 1  # y * inner'
    if mid_x:
        px += 1
    # d/dy
    coef = coef * py
    py -= 1
    # evaluate y at pt
    if pmid:
        px += py
    else:
        for _ in range(py):
            coef = coef * c2
    px += 1  # x * mid'
    # d/dx at x0
    want = _mono(coef * px, px - 1, x0)
    return got == want


def _nest2(k: int, x0: int, m_out: bool, m_in: bool, use_x: bool, at_x: bool, c: int) -> bool:
    """
    pre: -1 <= k
    post: _
    """
    tr.trace_stack.top = k  # arbitrary history of leaked / enclosing trace levels
    try:
        ok = nest2(x0, m_out, m_in, use_x, at_x, c)
        ok_top = tr.trace_stack.top == k
    finally:
        tr.trace_stack.top = -1
    return ok and ok_top


def _nest2_reach(k: int, x0: int, m_out: bool, m_in: bool) -> bool:
    """
    pre: -1 <= k
    post: False
    """
    tr.trace_stack.top = k
    try:
        return nest2(x0, m_out, m_in, True, True, 1)
    finally:
        tr.trace_stack.top = -1


def _nest3_a(k: int, x0: int, m1: bool, m2: bool, m3: bool, in_y: bool, in_x: bool, mid_x: bool, pmid: bool, c: int, c2: int) -> bool:
    """
    pre: -1 <= k
    post: _
    """
    tr.trace_stack.top = k
    try:
        ok = nest3(x0, m1, m2, m3, in_y, in_x, 0, mid_x, pmid, c, c2)
        ok_top = tr.trace_stack.top == k
    finally:
        tr.trace_stack.top = -1
    return ok and ok_top


def _nest3_b(k: int, x0: int, m1: bool, m2: bool, m3: bool, in_y: bool, in_x: bool, mid_x: bool, pmid: bool, c: int, c2: int) -> bool:
    """
    pre: -1 <= k
    post: _
    """
    tr.trace_stack.top = k
    try:
        ok = nest3(x0, m1, m2, m3, in_y, in_x, 1, mid_x, pmid, c, c2)
        ok_top = tr.trace_stack.top == k
    finally:
        tr.trace_stack.top = -1
    return ok and ok_top


def _nest3_c(k: int, x0: int, m1: bool, m2: bool, m3: bool, in_y: bool, in_x: bool, mid_x: bool, pmid: bool, c: int, c2: int) -> bool:
    """
    pre: -1 <= k
    post: _
    """
    tr.trace_stack.top = k
    try:
        ok = nest3(x0, m1, m2, m3, in_y, in_x, 2, mid_x, pmid, c, c2)
        ok_top = tr.trace_stack.top == k
    finally:
        tr.trace_stack.top = -1
    return ok and ok_top


# ---- find_top_boxed_args ---------------------------------------------------------------------


class _N1:
    pass


class _N2:
    pass


def _ftba_check(bs, ts, ks):
    n = len(bs)
    args = []
    for i in range(n):
        if bs[i]:
            args.append(QBox(Q(i), ts[i], _N1() if ks[i] else _N2()))
        else:
            args.append(Q(i))
    top_boxes, top_trace, top_type = tr.find_top_boxed_args(args)
    boxed = [i for i in range(n) if bs[i]]
    if not boxed:
        return top_boxes == [] and top_trace == -1 and top_type is None
    m = max(ts[i] for i in boxed)
    want = [(i, args[i]) for i in boxed if ts[i] == m]
    if len(top_boxes) != len(want):
        return False
    for (i, a), (j, b) in zip(top_boxes, want):
        if i != j or a is not b:
            return False
    first = want[0][1]
    return top_trace == m and top_type is type(first._node)


def _ftba2(b0: bool, b1: bool, t0: int, t1: int, k0: bool, k1: bool) -> bool:
    """
    pre: t0 >= 0 and t1 >= 0
    post: _
    """
    return _ftba_check([b0, b1], [t0, t1], [k0, k1])


def _ftba3(b0: bool, b1: bool, b2: bool, t0: int, t1: int, t2: int, k0: bool) -> bool:
    """
    pre: t0 >= 0 and t1 >= 0 and t2 >= 0
    post: _
    """
    return _ftba_check([b0, b1, b2], [t0, t1, t2], [k0, not k0, k0])


def _ftba4(b0: bool, b1: bool, b2: bool, b3: bool, t0: int, t1: int, t2: int, t3: int) -> bool:
    """
    pre: t0 >= 0 and t1 >= 0 and t2 >= 0 and t3 >= 0
    post: _
    """
    return _ftba_check([b0, b1, b2, b3], [t0, t1, t2, t3], [True, False, True, False])


def _ftba5(b0: bool, b1: bool, b2: bool, b3: bool, b4: bool, t0: int, t1: int, t2: int, t3: int, t4: int) -> bool:
    """
    pre: t0 >= 0 and t1 >= 0 and t2 >= 0 and t3 >= 0 and t4 >= 0
    post: _
    """
    return _ftba_check([b0, b1, b2, b3, b4], [t0, t1, t2, t3, t4], [True, False, True, False, True])


# ---- C20 contract: results depend on trace ids only through their ORDER ------------------------


class _StubStack:
    """trace-id source constrained ONLY by contract K: the id handed to a trace is strictly greater than the ids of
    the enclosing active traces of the same thread"""

    def __init__(self, ids):
        self.ids = list(ids)
        self.active = []
        self.ok = True

    @property
    def top(self):
        # code that asks for the current depth indicator (as the real TraceStack exposes it): -1 outside any trace
        return max(self.active) if self.active else -1

    @contextmanager
    def new_trace(self):
        t = self.ids.pop(0) if self.ids else (max(self.active) + 1 if self.active else 0)
        if self.active and t <= max(self.active):
            self.ok = False
        self.active.append(t)
        yield t
        self.active.pop()


def _contract2(i0: int, i1: int, i2: int, i3: int, x0: int, m_out: bool, m_in: bool, use_x: bool, at_x: bool, c: int) -> bool:
    """
    pre: 0 <= i0 < i1 and 0 <= i2 < i3
    post: _
    """
    # nested depth 2 enters traces in the order: outer (i0), inner (i1) [jvp/vjp of outer evaluates inner once per
    # outer evaluation]; remaining ids serve re-entries.  K: inner id > enclosing id; otherwise arbitrary.
    real = tr.trace_stack
    stub = _StubStack([i0, i1, i3 + i1 + 1, i3 + i1 + 2])
    tr.trace_stack = stub
    try:
        ok = nest2(x0, m_out, m_in, use_x, at_x, c)
    finally:
        tr.trace_stack = real
    return ok or not stub.ok
