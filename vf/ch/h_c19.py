"""C19 harnesses (CrossHair): independence of call history, including calls that failed.
L1 (shift invariance) is h_c08._nest2/_nest3 with a symbolic initial trace counter.
L2: a user primitive raises at a symbolic position (k-th forward call, k-th backward rule, or the 'independent output'
warning promoted to an error at trace exit), at a symbolic nesting depth, caught by an enclosing differentiation or
not at all; afterwards the counter never went below its start value, the registries are untouched, the enclosing
differentiation (if it caught) returns its fault-free value, and canaries still give the right answers."""
import warnings

import autograd.core as core
import autograd.tracer as tr
from vf.ch.h_c08 import nest2
from vf.ch.qtypes import D, Q, QBox, QVSpace, defjvp, defvjp, make_jvp, make_vjp, primitive, qmul


class Boom(Exception):
    pass


STATE = {"fwd": 0, "bwd": 0, "fail_fwd": -1, "fail_bwd": -1}


@primitive
def step(a):
    STATE["fwd"] += 1
    if STATE["fwd"] == STATE["fail_fwd"]:
        raise Boom("forward")
    return Q(a.v * 3)


def _step_vjp(ans, a):
    def vjp(g):
        STATE["bwd"] += 1
        if STATE["bwd"] == STATE["fail_bwd"]:
            raise Boom("backward")
        return Q(g.v * 3)

    return vjp


defvjp(step, _step_vjp)
defjvp(step, lambda g, ans, a: Q(g.v * 3))


def chain(y):
    return step(step(step(y)))


def snapshot():
    return (len(core.primitive_vjps), len(core.primitive_jvps), len(tr.Box.type_mappings), len(core.VSpace.mappings),
            sum(len(v) for v in tr.notrace_primitives.values()), id(core.primitive_vjps), id(tr.Box.type_mappings))


def faulty(kind, pos, x, fwd):
    """one differentiation that fails: kind 0 = in the forward evaluation at call `pos`, 1 = in backward rule `pos`
    (reverse mode only), 2 = 'output independent of input' warning promoted to an error at trace exit"""
    STATE.update(fwd=0, bwd=0, fail_fwd=-1, fail_bwd=-1)
    if kind == 0:
        STATE["fail_fwd"] = pos
        return D(chain, x, fwd)
    if kind == 1:
        STATE["fail_bwd"] = pos
        return D(chain, x, False)
    with warnings.catch_warnings():
        warnings.simplefilter("error")
        return D(lambda y: Q(5), x, fwd)


def _fault(k0: int, kind: int, pos: int, caught: bool, depth2: bool, x0: int, m_o: bool, m_i: bool, c: int) -> bool:
    """
    pre: -1 <= k0 and 0 <= kind <= 2 and 1 <= pos <= 3
    post: _
    """
    return fault_body(k0, kind, pos, caught, depth2, x0, m_o, m_i, c)


def fault_body(k0, kind, pos, caught, depth2, x0, m_o, m_i, c):
    tr.trace_stack.top = k0
    snap = snapshot()
    ok = True
    try:
        def outer(x):
            if caught:
                try:
                    if depth2:
                        D(lambda z: qmul(z, faulty(kind, pos, x, m_i)), Q(2), m_i)
                    else:
                        faulty(kind, pos, x, m_i)
                    failed = False
                except (Boom, UserWarning):
                    failed = True
                if not failed:
                    return Q(0)  # not reached: the planted fault always fires
                return qmul(x, x)
            faulty(kind, pos, x, m_i)
            return qmul(x, x)

        try:
            got = D(outer, Q(x0), m_o)
            raised = False
        except (Boom, UserWarning):
            raised = True
        if caught:
            ok = ok and (not raised) and got.v == 2 * x0  # the enclosing differentiation continues with its fault-free result
        else:
            ok = ok and raised
        top = tr.trace_stack.top
        ok = ok and top >= k0 and top >= -1
        ok = ok and snapshot() == snap
        # canaries: subsequent (and, for `caught`, enclosing) differentiations behave as in a fresh interpreter
        ok = ok and nest2(x0, m_o, m_i, True, True, c) and nest2(x0, m_i, m_o, False, False, c)
        STATE.update(fwd=0, bwd=0, fail_fwd=-1, fail_bwd=-1)
        ok = ok and D(chain, Q(x0), m_o).v == 27
    finally:
        tr.trace_stack.top = -1
        STATE.update(fwd=0, bwd=0, fail_fwd=-1, fail_bwd=-1)
    return ok


def _fault_reach(k0: int, kind: int, pos: int, x0: int) -> bool:
    """
    pre: -1 <= k0 and 0 <= kind <= 2 and 1 <= pos <= 3
    post: False
    """
    return fault_body(k0, kind, pos, True, False, x0, False, True, 1)


def history3(k0, f1, f2, f3, p1, p2, x0, m, c):
    # a history of three top-level calls, each succeeding (0) or failing in one of three ways (1..3), then canaries
    tr.trace_stack.top = k0
    try:
        for f, p in ((f1, p1), (f2, p2), (f3, p1)):
            try:
                if f == 0:
                    D(chain, Q(x0), m)
                else:
                    faulty(f - 1, p, Q(x0), m)
            except (Boom, UserWarning):
                pass
            STATE.update(fwd=0, bwd=0, fail_fwd=-1, fail_bwd=-1)
        ok = tr.trace_stack.top >= k0
        ok = ok and nest2(x0, m, not m, True, True, c) and nest2(x0, not m, m, True, False, c)
        ok = ok and D(chain, Q(x0), m).v == 27
    finally:
        tr.trace_stack.top = -1
        STATE.update(fwd=0, bwd=0, fail_fwd=-1, fail_bwd=-1)
    return ok


def _history3_00(k0: int, f2: int, f3: int, p1: int, p2: int, x0: int, c: int) -> bool:
    """
    pre: -1 <= k0 and 0 <= f2 <= 3 and 0 <= f3 <= 3 and 1 <= p1 <= 3 and 1 <= p2 <= 3
    post: _
    """
    return history3(k0, 0, f2, f3, p1, p2, x0, False, c)


def _history3_01(k0: int, f2: int, f3: int, p1: int, p2: int, x0: int, c: int) -> bool:
    """
    pre: -1 <= k0 and 0 <= f2 <= 3 and 0 <= f3 <= 3 and 1 <= p1 <= 3 and 1 <= p2 <= 3
    post: _
    """
    return history3(k0, 0, f2, f3, p1, p2, x0, True, c)


def _history3_10(k0: int, f2: int, f3: int, p1: int, p2: int, x0: int, c: int) -> bool:
    """
    pre: -1 <= k0 and 0 <= f2 <= 3 and 0 <= f3 <= 3 and 1 <= p1 <= 3 and 1 <= p2 <= 3
    post: _
    """
    return history3(k0, 1, f2, f3, p1, p2, x0, False, c)


def _history3_11(k0: int, f2: int, f3: int, p1: int, p2: int, x0: int, c: int) -> bool:
    """
    pre: -1 <= k0 and 0 <= f2 <= 3 and 0 <= f3 <= 3 and 1 <= p1 <= 3 and 1 <= p2 <= 3
    post: _
    """
    return history3(k0, 1, f2, f3, p1, p2, x0, True, c)


def _history3_20(k0: int, f2: int, f3: int, p1: int, p2: int, x0: int, c: int) -> bool:
    """
    pre: -1 <= k0 and 0 <= f2 <= 3 and 0 <= f3 <= 3 and 1 <= p1 <= 3 and 1 <= p2 <= 3
    post: _
    """
    return history3(k0, 2, f2, f3, p1, p2, x0, False, c)


def _history3_21(k0: int, f2: int, f3: int, p1: int, p2: int, x0: int, c: int) -> bool:
    """
    pre: -1 <= k0 and 0 <= f2 <= 3 and 0 <= f3 <= 3 and 1 <= p1 <= 3 and 1 <= p2 <= 3
    post: _
    """
    return history3(k0, 2, f2, f3, p1, p2, x0, True, c)


def _history3_30(k0: int, f2: int, f3: int, p1: int, p2: int, x0: int, c: int) -> bool:
    """
    pre: -1 <= k0 and 0 <= f2 <= 3 and 0 <= f3 <= 3 and 1 <= p1 <= 3 and 1 <= p2 <= 3
    post: _
    """
    return history3(k0, 3, f2, f3, p1, p2, x0, False, c)


def _history3_31(k0: int, f2: int, f3: int, p1: int, p2: int, x0: int, c: int) -> bool:
    """
    pre: -1 <= k0 and 0 <= f2 <= 3 and 0 <= f3 <= 3 and 1 <= p1 <= 3 and 1 <= p2 <= 3
    post: _
    """
    return history3(k0, 3, f2, f3, p1, p2, x0, True, c)


def _absolute_id_planted(k0: int, x0: int, m_o: bool, m_i: bool) -> bool:
    """
    pre: 0 <= k0 <= 5
    post: _
    """
    # self-test: make the tracer depend on the ABSOLUTE trace id (treat id 3 as 'not a tracer'); the shift-invariance
    # lemma must then fail for some initial counter
    real = tr.find_top_boxed_args

    def buggy(args):
        boxes, top, typ = real(args)
        if top == 3:
            return [], -1, None
        return boxes, top, typ

    tr.find_top_boxed_args = buggy
    tr.trace_stack.top = k0
    try:
        return nest2(x0, m_o, m_i, True, True, 1)
    except Exception:
        return False
    finally:
        tr.find_top_boxed_args = real
        tr.trace_stack.top = -1


# ---- a VJP function stays usable after one of its calls failed part-way through the backward pass ------------------


def reuse_after_fault(k0, pos, x0, g0, g1, twice):
    from vf.ch.qtypes import qadd

    tr.trace_stack.top = k0
    try:
        STATE.update(fwd=0, bwd=0, fail_fwd=-1, fail_bwd=-1)

        def f(x):
            a = step(step(x))  # 9 x
            b = step(x)  # 3 x
            return qadd(qadd(a, b), step(a))  # 9x + 3x + 27x = 39 x : a fan-out graph with four rule applications

        vjp, y = make_vjp(f, Q(x0))
        fresh = vjp(Q(g1)).v  # a fault-free call first (the closure is reusable: C10)
        STATE.update(bwd=0, fail_bwd=pos)
        try:
            vjp(Q(g0))
            failed = False
        except Boom:
            failed = True
        STATE.update(bwd=0, fail_bwd=-1)
        again = vjp(Q(g1)).v
        ok = failed and fresh == 39 * g1 and again == 39 * g1
        if twice:
            STATE.update(bwd=0, fail_bwd=pos)
            try:
                vjp(Q(g0))
            except Boom:
                pass
            STATE.update(bwd=0, fail_bwd=-1)
            ok = ok and vjp(Q(g0)).v == 39 * g0
        return ok and y.v == 39 * x0
    finally:
        tr.trace_stack.top = -1
        STATE.update(fwd=0, bwd=0, fail_fwd=-1, fail_bwd=-1)


def _reuse_after_fault(k0: int, pos: int, x0: int, g0: int, g1: int, twice: bool) -> bool:
    """
    pre: -1 <= k0 and 1 <= pos <= 4
    post: _
    """
    return reuse_after_fault(k0, pos, x0, g0, g1, twice)


# ---- histories on ONE container object that the caller restructures in place between calls ---------------------
# (module-level caches keyed by object identity, or filled before a failing step, make later calls depend on
# earlier ones; every call must give what a fresh interpreter gives for the container as it is NOW)

import autograd.builtins as ab  # noqa: E402
from vf.ch.h_c12 import padd, scale  # noqa: E402


def _cgrad(d, k, g0):
    """reverse-mode gradient w.r.t. the dict d of f(d) = k*d['a'] (+ d['b'] if present), cotangent g0"""
    def f(dd):
        r = scale(dd["a"], k)
        if "b" in d:
            r = padd(r, dd["b"])
        return r

    vjp, val = make_vjp(f, d)
    return vjp(Q(g0))


def _apply(d, act, b):
    if act == 1:
        d["c"] = Q(7)  # grow
    elif act == 2:
        d.pop("b", None)  # shrink
    elif act == 3:
        d["b"] = 5  # a leaf autograd has no vector space for: the next differentiation must fail
    elif act == 4:
        d["b"] = Q(b)  # repair / restore
    return d


def container_history(acts, a, b, k, g0, other_first):
    if other_first:
        # an unrelated successful container gradient first (fills any cache with a different structure)
        o = {"p": Q(1), "q": Q(2), "r": Q(3)}
        _cgrad_other = make_vjp(lambda dd: padd(dd["p"], dd["r"]), o)[0](Q(1))
        if sorted(_cgrad_other.keys()) != ["p", "q", "r"]:
            return False
    d = {"a": Q(a), "b": Q(b)}
    for act in acts:
        _apply(d, act, b)
        faulty_leaf = any(not isinstance(v, Q) for v in d.values())
        try:
            got = _cgrad(d, k, g0)
        except Exception:
            if not faulty_leaf:
                return False
            continue
        if faulty_leaf:
            return False  # a container with an unsupported leaf was differentiated without complaint
        # (key ORDER is not compared: CrossHair's interception of dict comprehensions does not preserve it)
        if sorted(got.keys()) != sorted(d.keys()):
            return False
        for key in sorted(got.keys()):
            val = got[key]
            want = k * g0 if key == "a" else (g0 if key == "b" else 0)
            if not isinstance(val, Q) or val.v != want:
                return False
    return True


def _container_history3(a1: int, a2: int, a3: int, a: int, b: int, k: int, g0: int, other_first: bool) -> bool:
    """
    pre: 0 <= a1 <= 4 and 0 <= a2 <= 4 and 0 <= a3 <= 4
    post: _
    """
    return container_history([a1, a2, a3], a, b, k, g0, other_first)


def _container_history_reach(a1: int, a2: int, a: int, k: int) -> bool:
    """
    pre: 0 <= a1 <= 4 and 0 <= a2 <= 4
    post: False
    """
    return container_history([a1, a2, 0], a, 1, k, 1, True)
