"""Shared driver for properties decided by Engine B (CrossHair)."""
import json
import os
import time

from .. import runner
from . import run as chrun

ASSUME_B = [
    "differentiated values are instances of a pure-Python class Q (one int attribute) registered through autograd.extend; the tracing core never inspects values, so its behaviour on Q is its behaviour on arrays",
    "CrossHair models Python ints as mathematical integers (exact); every symbolic input is listed in the harness signature, bounds in its precondition",
    "verdict 'Confirmed over all paths' is required for a pass; 'Not confirmed' / timeouts are reported as inconclusive and never as success",
    "each harness family has a reachability twin (postcondition False) that must yield a counterexample, guarding against vacuous preconditions",
]


def finish(pid, tier, conds_results, t0, functions, files, bounds, claims, extra_results=None, extra_cov=None, selftests=None):
    findings = runner.load_findings(pid)
    viol, known, inconc, errors = [], {}, [], []
    confirmed = 0
    for r in conds_results:
        v = r["verdict"]
        if r.get("expect") == "counterexample":  # reachability twin / planted-defect self test
            if v != "counterexample":
                errors.append(dict(r, detail="expected a counterexample (reachability / planted defect) but got %s" % v))
            continue
        if v == "confirmed":
            confirmed += 1
        elif v == "counterexample":
            if r.get("replay_violated"):
                e = runner.match_finding(findings, r["key"])
                if e is not None:
                    known.setdefault(e["match"], (e, []))[1].append(r)
                else:
                    viol.append(r)
            else:
                errors.append(dict(r, detail="counterexample does not reproduce in plain Python: %s / %s" % (r["detail"], r.get("replay"))))
        elif v in ("not_confirmed", "unreachable"):
            inconc.append(r)
        else:
            errors.append(r)
    for m, (e, rs) in known.items():
        print("KNOWN-FINDING: property=%s %s [%d condition(s)]" % (pid, e["what"], len(rs)))
    for r in viol:
        p = runner.write_replay(pid, r["key"], {"cex": {"mode": "crosshair", "module": r["module"], "func": r["func"], "args": r.get("cex_args")}, "detail": r["detail"], "replay": r.get("replay")})
        print("VIOLATION property=%s replay=%s" % (pid, os.path.relpath(p, runner.VERIF)))
        print("  %s: %s -> %s" % (r["key"], r["detail"][:300], r.get("replay")))
    for r in errors[:20]:
        print("HARNESS-ERROR property=%s condition=%s :: %s" % (pid, r.get("key"), (r.get("detail") or "")[:500]))
    for r in inconc[:20]:
        print("INCONCLUSIVE property=%s condition=%s :: %s" % (pid, r["key"], r["verdict"]))
    extra_results = extra_results or []
    ex_viol = [r for r in extra_results if r.get("status") == "violation"]
    ex_err = [r for r in extra_results if r.get("status") == "error"]
    ex_known = {}
    rem = []
    for r in ex_viol:
        e = runner.match_finding(findings, r["key"])
        if e is not None:
            ex_known.setdefault(e["match"], (e, []))[1].append(r)
        else:
            rem.append(r)
    for m, (e, rs) in ex_known.items():
        print("KNOWN-FINDING: property=%s %s [%d configuration(s), e.g. %s]" % (pid, e["what"], len(rs), rs[0]["key"]))
    for r in rem:
        p = runner.write_replay(pid, r["key"], {"cex": r.get("cex"), "detail": r.get("detail")})
        print("VIOLATION property=%s replay=%s" % (pid, os.path.relpath(p, runner.VERIF)))
        print("  config: %s\n  %s" % (r["key"], (r.get("detail") or "")[:400]))
    for r in ex_err[:20]:
        print("HARNESS-ERROR property=%s config=%s :: %s" % (pid, r["key"], (r.get("detail") or "")[:500]))
    cases = sum(r.get("cases", 1) for r in conds_results if r["verdict"] == "confirmed" and r.get("expect") != "counterexample")
    cpu = sum(r.get("time", 0) for r in conds_results)
    samples = [{"condition": r["key"], "verdict": r["verdict"], "what": r.get("what", ""), "wall_s": round(r.get("time", 0), 1)} for r in conds_results[:6]]
    ex_paths = sum(r.get("paths", 0) or 0 for r in extra_results)
    ex_q = sum(r.get("queries", 0) or 0 for r in extra_results)
    cov = {
        "states": max(1, cases + ex_paths),
        "transitions": max(1, len(conds_results) + ex_q),
        "traces_validated_against_impl": sum(1 for r in conds_results if r.get("replay") or r.get("twin_verdict") == "counterexample" or r.get("expect") == "counterexample") + sum(r.get("validated", 0) or 0 for r in extra_results),
        "samples": samples + [{"config": r["key"], "status": r["status"]} for r in extra_results[:4]] or [{"note": "none"}],
        "crosshair_conditions": len(conds_results),
        "conditions_confirmed_over_all_paths": confirmed,
        "discrete_cases_covered_by_confirmed_conditions": cases,
        "conditions_inconclusive": [{"condition": r["key"], "verdict": r["verdict"]} for r in inconc],
        "reachability_and_planted_defect_tests": [{"condition": r["key"], "got": r["verdict"]} for r in conds_results if r.get("expect") == "counterexample"],
        "engine_a_configurations": len(extra_results),
        "engine_a_by_status": _count(extra_results),
        "wall_cpu_s": round(cpu, 1),
        "functions_encoded": functions,
        "source_sha256_16": runner.source_hashes(files),
        "bounds": bounds,
        "exhaustive": False,
    }
    if extra_cov:
        cov.update(extra_cov)
    nviol = len(viol) + len(rem) + sum(len(rs) for _, rs in known.values()) + sum(len(rs) for _, rs in ex_known.values())
    runner.write_evidence(pid, tier, "model_checking", cov, ASSUME_B + claims, time.time() - t0, nviol)
    print("%s [%s] crosshair conditions=%d confirmed=%d inconclusive=%d counterexamples=%d | engine-A configs=%d %s | wall=%.1fs" % (
        pid, tier, len(conds_results), confirmed, len(inconc), len(viol), len(extra_results), _count(extra_results), time.time() - t0))
    if viol or rem:
        return 1
    if errors or ex_err:
        return 3
    # an inconclusive condition is not a pass: report it, but it is not a violation either
    return 0


def _count(rs):
    c = {}
    for r in rs:
        c[r.get("status")] = c.get(r.get("status"), 0) + 1
    return c


def replay(pid, path):
    with open(path) as f:
        d = json.load(f)
    cex = d.get("cex") or {}
    if cex.get("mode") == "history":
        from ..props import hist_probe

        if hist_probe.replay(cex["prim"]):
            print("VIOLATION property=%s replay=%s" % (pid, path))
            return 1
        print("does not reproduce on the current tree")
        return 0
    if cex.get("mode") == "misc":
        from .. import enga
        from ..props import misc_probe

        enga.init()
        bad = [r for r in misc_probe.run() + misc_probe.run_nested() + misc_probe.run_out_buffers() if r["key"] == cex.get("key") and r["status"] == "violation"]
        for r in bad:
            print("replay %s: %s" % (r["key"], r["detail"]))
        if bad:
            print("VIOLATION property=%s replay=%s" % (pid, path))
            return 1
        print("does not reproduce on the current tree")
        return 0
    if cex.get("mode") == "pinned":
        from .. import enga
        from ..props import pinned_probe

        enga.init()
        bad = [r for r in pinned_probe.run() + pinned_probe.run_adjoint() + pinned_probe.run_nested() + pinned_probe.run_complex() + pinned_probe.run_linear_extreme() if r["key"] == cex.get("key") and r["status"] == "violation"]
        for r in bad:
            print("replay %s: %s" % (r["key"], r["detail"]))
        if bad:
            print("VIOLATION property=%s replay=%s" % (pid, path))
            return 1
        print("does not reproduce on the current tree")
        return 0
    if cex.get("mode") != "crosshair":
        return None
    viol, info = chrun.replay(cex["module"], cex["func"], cex["args"])
    print("replay %s.%s%r: %s" % (cex["module"], cex["func"], cex["args"], info))
    if viol:
        print("VIOLATION property=%s replay=%s" % (pid, path))
        return 1
    return 0


class BProp:
    def __init__(self, pid, conditions, functions, files, bounds, claims, extra=None):
        self.ID = pid
        self.conditions = conditions
        self.functions = functions
        self.files = files
        self.bounds = bounds
        self.claims = claims
        self.extra = extra  # callable(tier) -> (list of Engine A outcome dicts, extra coverage dict)

    def main(self, tier, only=None):
        import re

        t0 = time.time()
        cs = self.conditions(tier)
        if only:
            cs = [c for c in cs if re.search(only, c["func"])]
        res = chrun.run_conditions(cs, tier)
        extra_res, extra_cov = [], None
        if self.extra and not only:
            out = self.extra(tier)
            extra_res, extra_cov = out if isinstance(out, tuple) else (out, None)
        return finish(self.ID, tier, res, t0, functions=self.functions, files=self.files, bounds=self.bounds, claims=self.claims,
                      extra_results=extra_res, extra_cov=extra_cov)

    def replay(self, path):
        r = replay(self.ID, path)
        if r is None:
            print("replay of Engine A counterexamples for %s: run ./check %s and inspect the stored replay file" % (self.ID, self.ID))
            return 3
        return r

    def export(self, g):
        g["ID"] = self.ID
        g["main"] = self.main
        g["replay"] = self.replay
