"""In-process stubs for NumPy functions that have no object-dtype path.  install() MUST run before
`import autograd` (autograd wraps numpy.__dict__ at import time).  Every stub dispatches to the original
for ordinary (non-object) inputs, and every stub is listed in evidence as part of the claim."""
import itertools
import math

import numpy as onp

from .sym import CS, CTX, Fr, S, C, Unsupported

STUBS = {}  # name -> contract (for evidence)
_installed = False


def _is_sym(x):
    if isinstance(x, (S, CS)):
        return True
    if isinstance(x, onp.ndarray) and x.dtype == object:
        return True
    if isinstance(x, (list, tuple)):
        return any(_is_sym(e) for e in x)
    return False


def _any_sym(*xs):
    return any(_is_sym(x) for x in xs)


def _map(x, fn):
    if isinstance(x, onp.ndarray):
        out = onp.empty(x.shape, dtype=object)
        for i in onp.ndindex(*x.shape):
            out[i] = fn(x[i])
        return out
    return fn(x)


def _has_c(x):
    if isinstance(x, CS):
        return True
    if isinstance(x, onp.ndarray) and x.dtype == object:
        # entries may themselves be 0-d arrays (np.array of a tuple of 0-d values nests them in object mode)
        return any(isinstance(e, (CS, complex, onp.complexfloating)) or (isinstance(e, onp.ndarray) and _has_c(e)) for e in x.ravel())
    if isinstance(x, onp.ndarray):
        return x.dtype.kind == "c"
    if isinstance(x, (list, tuple)):
        return any(_has_c(e) for e in x)
    return False


class UfuncStub:
    """callable replacement for a ufunc that keeps its attributes (reduce, at, accumulate, nin, ...)"""

    def __init__(self, orig, fn, name):
        self._orig = orig
        self._fn = fn
        self.__name__ = name
        self.__doc__ = getattr(orig, "__doc__", None)

    def __call__(self, *a, **k):
        return self._fn(*a, **k)

    def __getattr__(self, item):
        return getattr(self._orig, item)


def stub(mod, name, contract):
    def deco(fn):
        orig = getattr(mod, name)
        fn._orig = orig
        fn.__name__ = name
        fn.__doc__ = getattr(orig, "__doc__", None)
        wrapped = fn(orig) if getattr(fn, "_takes_orig", False) else fn
        if isinstance(orig, onp.ufunc):
            wrapped = UfuncStub(orig, wrapped, name)
        setattr(mod, name, wrapped)
        STUBS[(mod.__name__ + "." + name)] = contract
        return wrapped

    return deco


def takes_orig(fn):
    fn._takes_orig = True
    return fn


def install():
    global _installed
    if _installed:
        return
    import sys

    if "autograd" in sys.modules:
        raise RuntimeError("vf.stubs.install() must run before autograd is imported")
    _installed = True

    # ---- dtype / kind queries
    @stub(onp, "result_type", "an S/CS scalar (or object array) has object dtype")
    @takes_orig
    def result_type(orig):
        def f(*args):
            return orig(*[onp.dtype(object) if isinstance(a, (S, CS)) else a for a in args])
        return f

    @stub(onp, "iscomplexobj", "object arrays/scalars are complex iff they hold a CS or complex entry")
    @takes_orig
    def iscomplexobj(orig):
        def f(x):
            if _is_sym(x):
                return _has_c(x)
            return orig(x)
        return f

    @stub(onp, "isscalar", "a symbolic scalar (S / CS) is a scalar, like the float / complex it stands for")
    @takes_orig
    def isscalar(orig):
        def f(x):
            if isinstance(x, (S, CS)):
                return True
            return orig(x)
        return f

    def _re(e):
        if isinstance(e, CS):
            return e.re
        if isinstance(e, (complex, onp.complexfloating)):
            return e.real
        return e

    def _im(e):
        if isinstance(e, CS):
            return e.im
        if isinstance(e, (complex, onp.complexfloating)):
            return e.imag
        if isinstance(e, S):
            return S(Fr(0))
        return 0

    @stub(onp, "real", "element-wise real part on S/CS entries")
    @takes_orig
    def real(orig):
        def f(x):
            if _is_sym(x):
                return _map(onp.asarray(x, dtype=object) if isinstance(x, (list, tuple)) else x, _re)
            return orig(x)
        return f

    @stub(onp, "imag", "element-wise imaginary part on S/CS entries")
    @takes_orig
    def imag(orig):
        def f(x):
            if _is_sym(x):
                return _map(onp.asarray(x, dtype=object) if isinstance(x, (list, tuple)) else x, _im)
            return orig(x)
        return f

    @stub(onp, "angle", "angle(z) = arctan2(im, re) element-wise")
    @takes_orig
    def angle(orig):
        def f(z, deg=False):
            if _is_sym(z):
                r = _map(z, lambda e: S.L(_im(e)).arctan2(S.L(_re(e))) if isinstance(_im(e), S) or isinstance(_re(e), S) else math.atan2(_im(e), _re(e)))
                return r * (180 / onp.pi) if deg else r
            return orig(z, deg)
        return f

    @stub(onp, "real_if_close", "identity on symbolic complex entries (imaginary parts are generic, not ~0)")
    @takes_orig
    def real_if_close(orig):
        def f(a, tol=100):
            if _is_sym(a):
                return a
            return orig(a, tol)
        return f

    # ---- finiteness predicates: symbolic reals are finite
    def _pred(name, value):
        @stub(onp, name, "symbolic reals are finite numbers: %s == %s" % (name, value))
        @takes_orig
        def p(orig):
            def f(x, *a, **k):
                if _is_sym(x):
                    if isinstance(x, onp.ndarray):
                        return onp.full(x.shape, value, dtype=bool)
                    return onp.bool_(value)
                return orig(x, *a, **k)
            return f

    _pred("isfinite", True)
    _pred("isinf", False)
    _pred("isnan", False)
    _pred("isneginf", False)
    _pred("isposinf", False)

    @stub(onp, "nan_to_num", "identity on symbolic (finite) reals")
    @takes_orig
    def nan_to_num(orig):
        def f(x, *a, **k):
            if _is_sym(x):
                return x if not isinstance(x, onp.ndarray) else x.copy()
            return orig(x, *a, **k)
        return f

    # ---- reductions over an empty / all-int object array return a Python int (float64 gives 0.0 / 1.0)
    def _empty_red(name):
        @stub(onp, name, "a reduction of an object array that comes out as a Python int (empty array: 0 / 1; all-int entries such as the zeros np.triu fills in) is returned as the same exact rational")
        @takes_orig
        def red(orig):
            def f(a, *args, **kwargs):
                r = orig(a, *args, **kwargs)
                if type(r) is int and isinstance(a, onp.ndarray) and a.dtype == object:
                    return S(Fr(r))
                return r
            return f

    _empty_red("sum")
    _empty_red("prod")

    # ---- ufuncs without an object loop
    def _bin(name, contract, fn):
        @stub(onp, name, contract)
        @takes_orig
        def b(orig):
            def f(x, y, *a, **k):
                if _any_sym(x, y):
                    xa, ya = onp.broadcast_arrays(onp.asarray(x, dtype=object), onp.asarray(y, dtype=object))
                    out = onp.empty(xa.shape, dtype=object)
                    for i in onp.ndindex(*xa.shape):
                        out[i] = fn(xa[i], ya[i])
                    return out if out.shape != () or isinstance(x, onp.ndarray) or isinstance(y, onp.ndarray) else out[()]
                return orig(x, y, *a, **k)
            return f

    _bin("logaddexp", "logaddexp(x,y) = log(exp(x)+exp(y))", lambda x, y: (S.L(x).exp() + S.L(y).exp()).log())
    _bin("logaddexp2", "logaddexp2(x,y) = log2(2**x + 2**y)", lambda x, y: (S.L(x).exp2() + S.L(y).exp2()).log2())
    _bin("float_power", "float_power(x,y) = x**y", lambda x, y: x ** y)
    _bin("arctan2", "element-wise arctan2 (also for Python-number first operands)", lambda y, x: S.L(y).arctan2(S.L(x)))
    _bin("hypot", "hypot(x,y) = sqrt(x^2+y^2)", lambda x, y: S.L(x).hypot(S.L(y)))
    _bin("fmod", "fmod(x,y) = x - y*trunc(x/y)", lambda x, y: S.L(x) - S.L(y) * (S.L(x) / S.L(y)).trunc())
    _bin("copysign", "copysign(x,y) = |x| * sign(y) via comparison with 0", lambda x, y: abs(S.L(x)) if S.L(y) >= 0 else -abs(S.L(x)))

    def _un(name, contract, fn):
        @stub(onp, name, contract)
        @takes_orig
        def u(orig):
            def f(x, *a, **k):
                if _is_sym(x):
                    return _map(x, fn)
                return orig(x, *a, **k)
            return f

    _bin("logical_and", "truth-value and (NumPy's object loop returns an operand, its float loop a bool)", lambda x, y: bool(x) and bool(y))
    _bin("logical_or", "truth-value or", lambda x, y: bool(x) or bool(y))
    _bin("logical_xor", "truth-value xor", lambda x, y: bool(x) != bool(y))
    _un("logical_not", "truth-value not", lambda e: not bool(e))
    def _sign(e):
        if isinstance(e, CS):
            return e / abs(e)  # NumPy >= 2: sign(z) = z / |z|
        e = S.L(e)
        return 1.0 if e > 0 else (-1.0 if e < 0 else 0.0)

    _un("sign", "sign(x) via comparison with 0; sign(z) = z/|z| for complex z (NumPy 2)", _sign)
    _un("sinc", "sinc(x) = sin(pi x)/(pi x)", lambda e: (S.L(e) * onp.pi).sin() / (S.L(e) * onp.pi))
    _un("fabs", "fabs(x) = |x| via comparison with 0", lambda e: abs(e))
    _un("positive", "+x", lambda e: e)
    _un("cbrt", "cbrt(x) = x**(1/3)", lambda e: S.L(e).cbrt())
    _un("fix", "fix(x) = trunc(x)", lambda e: S.L(e).trunc())
    _un("signbit", "signbit(x) = x < 0", lambda e: bool(S.L(e) < 0))

    @stub(onp, "gradient", "second-order central differences in the interior, first-order one-sided at the edges, unit or scalar spacing (NumPy's default edge_order=1)")
    @takes_orig
    def gradient(orig):
        def f(a, *varargs, axis=None, edge_order=1):
            if not _is_sym(a):
                return orig(a, *varargs, axis=axis, edge_order=edge_order)
            a = onp.asarray(a, dtype=object)
            nd = a.ndim
            if axis is None:
                axes = tuple(range(nd))
            elif isinstance(axis, (int, onp.integer)):
                axes = (int(axis) % nd,)
            else:
                axes = tuple(int(x) % nd for x in axis)
            if len(set(axes)) != len(axes):
                raise ValueError("duplicate value in 'axis'")
            if edge_order != 1:
                raise Unsupported("gradient stub: edge_order != 1")
            if len(varargs) == 0:
                dx = [1.0] * len(axes)
            elif len(varargs) == 1 and onp.ndim(varargs[0]) == 0:
                dx = [varargs[0]] * len(axes)
            elif len(varargs) == len(axes) and all(onp.ndim(v) == 0 for v in varargs):
                dx = list(varargs)
            else:
                raise Unsupported("gradient stub: coordinate-array spacing")
            outs = []
            for ax, h in zip(axes, dx):
                n = a.shape[ax]
                if n < 2:
                    raise ValueError("Shape of array too small to calculate a numerical gradient, at least (edge_order + 1) elements are required.")
                am = onp.moveaxis(a, ax, 0)
                out = onp.empty(am.shape, dtype=object)
                for i in range(n):
                    if i == 0:
                        out[0] = (am[1] - am[0]) / h
                    elif i == n - 1:
                        out[n - 1] = (am[n - 1] - am[n - 2]) / h
                    else:
                        out[i] = (am[i + 1] - am[i - 1]) / (2.0 * h)
                outs.append(onp.moveaxis(out, 0, ax))
            if len(axes) == 1 and (axis is not None and isinstance(axis, (int, onp.integer)) or nd == 1):
                return outs[0]
            return tuple(outs)
        return f

    # ---- linalg closed forms (n <= 3)
    import numpy.linalg as la

    def _det(a):
        n = a.shape[-1]
        if n == 0:
            return 1
        if n == 1:
            return a[0, 0]
        if n == 2:
            return a[0, 0] * a[1, 1] - a[0, 1] * a[1, 0]
        tot = 0
        for perm in itertools.permutations(range(n)):
            sgn = 1
            for i in range(n):
                for j in range(i + 1, n):
                    if perm[i] > perm[j]:
                        sgn = -sgn
            t = sgn
            for i in range(n):
                t = t * a[i, perm[i]]
            tot = tot + t
        return tot

    def _minor(a, i, j):
        return onp.delete(onp.delete(a, i, axis=0), j, axis=1)

    def _inv(a):
        n = a.shape[-1]
        d = _det(a)
        out = onp.empty((n, n), dtype=object)
        for i in range(n):
            for j in range(n):
                out[j, i] = ((-1) ** (i + j)) * _det(_minor(a, i, j)) / d
        return out

    def _batched(fn, a, out_extra):
        a = onp.asarray(a, dtype=object)
        if a.ndim < 2 or a.shape[-1] != a.shape[-2]:
            raise la.LinAlgError("Last 2 dimensions of the array must be square")
        if a.shape[-1] > 3:
            raise Unsupported("linalg stub: n > 3")
        batch = a.shape[:-2]
        out = onp.empty(batch + out_extra(a.shape[-1]), dtype=object)
        for i in onp.ndindex(*batch):
            out[i] = fn(a[i])
        return out

    @stub(la, "det", "cofactor expansion, n <= 3")
    @takes_orig
    def det(orig):
        def f(a):
            if _is_sym(a):
                r = _batched(_det, a, lambda n: ())
                return r if r.shape != () else r[()]
            return orig(a)
        return f

    @stub(la, "inv", "adjugate / det, n <= 3")
    @takes_orig
    def inv(orig):
        def f(a):
            if _is_sym(a):
                return _batched(_inv, a, lambda n: (n, n))
            return orig(a)
        return f

    @stub(la, "solve", "inv(a) @ b via adjugate, n <= 3 (NumPy 2 convention: b 1-D is a vector iff b.ndim == 1)")
    @takes_orig
    def solve(orig):
        def f(a, b):
            if _any_sym(a, b):
                a = onp.asarray(a, dtype=object)
                b = onp.asarray(b, dtype=object)
                ai = _batched(_inv, a, lambda n: (n, n))
                if b.ndim == 1:
                    return onp.matmul(ai, b)
                return onp.matmul(ai, b)
            return orig(a, b)
        return f

    @stub(la, "slogdet", "sign and log|det| via cofactor expansion, n <= 3")
    @takes_orig
    def slogdet(orig):
        def f(a):
            if _is_sym(a):
                d = _batched(_det, a, lambda n: ())
                sg = _map(d, lambda e: (1.0 if S.L(e) > 0 else -1.0))
                lg = _map(d, lambda e: abs(S.L(e)).log())
                R = la._linalg.SlogdetResult
                if d.shape == ():
                    return R(sg[()], lg[()])
                return R(sg, lg)
            return orig(a)
        return f

    _orig_norm = la.norm

    def _absq(e):
        if isinstance(e, CS):
            return e.re * e.re + e.im * e.im
        return e * e

    def _abs(e):
        if isinstance(e, CS):
            return abs(e)
        return abs(S.L(e))

    @stub(la, "norm", "vector p-norms and Frobenius norm by their defining formulas on symbolic entries "
                      "(|z|^2 = re^2+im^2 for complex entries); nuclear / spectral matrix norms unsupported")
    @takes_orig
    def norm(orig):
        def f(x, ord=None, axis=None, keepdims=False):
            if not _is_sym(x):
                return orig(x, ord, axis, keepdims)
            x = onp.asarray(x, dtype=object)
            nd = x.ndim
            if axis is None:
                if ord is None or (ord in ("fro", "f") and nd == 2) or (ord == 2 and nd == 1):
                    r = sum((_absq(e) for e in x.ravel()), S(Fr(0))).sqrt() if x.size else S(Fr(0))
                    return onp.reshape(onp.array(r, dtype=object), (1,) * nd) if keepdims else r
                if nd == 1:
                    axis = 0
                elif nd == 2:
                    axis = (0, 1)
                else:
                    raise ValueError("Improper number of dimensions to norm.")
            if isinstance(axis, (int, onp.integer)):
                axis = (int(axis),)
            axis = tuple(int(a) for a in axis)
            if len(axis) == 1:
                a = axis[0]
                if ord is None or ord == 2:
                    fn = lambda v: sum((_absq(e) for e in v), S(Fr(0))).sqrt()
                elif ord == onp.inf:
                    fn = lambda v: _maxl([_abs(e) for e in v])
                elif ord == -onp.inf:
                    fn = lambda v: _minl([_abs(e) for e in v])
                elif ord == 0:
                    fn = lambda v: sum((1 if e != 0 else 0) for e in v)
                elif ord == 1:
                    fn = lambda v: sum((_abs(e) for e in v), S(Fr(0)))
                elif isinstance(ord, str):
                    raise ValueError("Invalid norm order '%s' for vectors" % ord)
                else:
                    fn = lambda v: sum((_abs(e) ** ord for e in v), S(Fr(0))) ** (1.0 / ord)
                out = _apply_along(fn, x, a)
                return onp.expand_dims(out, a) if keepdims else out
            if len(axis) == 2:
                r, c = axis
                r, c = r % nd, c % nd
                if r == c:
                    raise ValueError("Duplicate axes given.")
                if ord is None or ord in ("fro", "f"):
                    sq = _map(x, _absq)
                    out = _map(onp.asarray(onp.sum(sq, axis=(r, c)), dtype=object), lambda e: S.L(e).sqrt())
                elif ord == 1:
                    out = _red(onp.sum(_map(x, _abs), axis=r), c - (c > r), _maxl)
                elif ord == onp.inf:
                    out = _red(onp.sum(_map(x, _abs), axis=c), r - (r > c), _maxl)
                elif ord == -1:
                    out = _red(onp.sum(_map(x, _abs), axis=r), c - (c > r), _minl)
                elif ord == -onp.inf:
                    out = _red(onp.sum(_map(x, _abs), axis=c), r - (r > c), _minl)
                elif ord in (2, -2, "nuc"):
                    raise Unsupported("matrix norm ord=%r has no closed form stub" % (ord,))
                else:
                    raise ValueError("Invalid norm order for matrices.")
                if keepdims:
                    out = onp.expand_dims(onp.expand_dims(onp.asarray(out, dtype=object), min(r, c)), max(r, c))
                if onp.shape(out) == ():
                    return onp.asarray(out, dtype=object)[()]
                return out
            raise ValueError("Improper number of dimensions to norm.")
        return f

    def _maxl(v):
        m = v[0]
        for e in v[1:]:
            if e > m:
                m = e
        return m

    def _minl(v):
        m = v[0]
        for e in v[1:]:
            if e < m:
                m = e
        return m

    def _apply_along(fn, x, axis):
        xm = onp.moveaxis(x, axis, -1)
        out = onp.empty(xm.shape[:-1], dtype=object)
        for i in onp.ndindex(*xm.shape[:-1]):
            out[i] = fn(list(xm[i]))
        return out if out.shape != () else out[()]

    def _red(a, axis, fn):
        return _apply_along(fn, onp.asarray(a, dtype=object), axis)

    # ---- FFT: explicit DFT matrices for lengths 1, 2, 4 (entries in {+-1, +-i}: exact)
    import numpy.fft as ft

    def _w(n, k, sign):
        """exp(sign * 2 pi i k / n) EXACTLY as a CS constant: n in {1,2,4} has entries in {+-1, +-i}; n in {3,6} uses the
        algebraic constant sqrt(3) (r*r == 3, r > 0)"""
        from .sym import alg_sqrt

        if n in (1, 2, 4):
            q = (k * (4 // n)) % 4
            re, im = [(1, 0), (0, 1), (-1, 0), (0, -1)][q]
            return CS(S(Fr(re)), S(Fr(sign * im)))
        if n in (3, 6):
            q = (k * (6 // n)) % 6
            h = Fr(1, 2)
            r3 = S(alg_sqrt(3)) * S(h)
            tab = [(S(Fr(1)), S(Fr(0))), (S(h), r3), (S(-h), r3), (S(Fr(-1)), S(Fr(0))), (S(-h), -r3), (S(h), -r3)]
            re, im = tab[q]
            return CS(re, im if sign > 0 else -im)
        raise Unsupported("DFT stub supports lengths 1, 2, 3, 4, 6 only (got %d)" % n)

    def _cmul(w, e):
        return w * CS.L(e)

    def _dft1(v, n, sign, scale):
        m = len(v)
        vv = [v[j] if j < m else 0 for j in range(n)]
        out = []
        for k in range(n):
            acc = CS(S(Fr(0)), S(Fr(0)))
            for j in range(n):
                acc = acc + _cmul(_w(n, (j * k) % n, sign), vv[j])
            out.append(acc * S(C(scale)) if scale != 1 else acc)
        return out

    def _scale(n, norm, inverse):
        if norm is None or norm == "backward":
            return 1.0 / n if inverse else 1.0
        if norm == "ortho":
            return 1.0 / math.sqrt(n)
        if norm == "forward":
            return 1.0 if inverse else 1.0 / n
        raise ValueError("Invalid norm value %r" % (norm,))

    def _fft_axis(a, n, axis, norm, inverse):
        a = onp.asarray(a, dtype=object)
        if n is None:
            n = a.shape[axis]
        if n < 1:
            raise ValueError("Invalid number of FFT data points (%d) specified." % n)
        sc = _scale(n, norm, inverse)
        sign = 1 if inverse else -1
        am = onp.moveaxis(a, axis, -1)
        out = onp.empty(am.shape[:-1] + (n,), dtype=object)
        for i in onp.ndindex(*am.shape[:-1]):
            r = _dft1(list(am[i]), n, sign, sc)
            for k in range(n):
                out[i + (k,)] = r[k]
        return onp.moveaxis(out, -1, axis)

    def _cook(a, s, axes, two=False):
        a = onp.asarray(a, dtype=object)
        if axes is None:
            if s is None:
                axes = list(range(a.ndim)) if not two else [-2, -1]
            else:
                axes = list(range(-len(s), 0))
        else:
            axes = list(axes)
        if s is None:
            s = [a.shape[ax] for ax in axes]
        else:
            s = list(s)
        if len(s) != len(axes):
            raise ValueError("Shape and axes have different lengths.")
        return a, s, axes

    def _fftn(a, s, axes, norm, inverse, two=False):
        a, s, axes = _cook(a, s, axes, two)
        for n, ax in reversed(list(zip(s, axes))):
            a = _fft_axis(a, n, ax, norm, inverse)
        return a

    def _rfft_axis(a, n, axis, norm):
        a = onp.asarray(a, dtype=object)
        if n is None:
            n = a.shape[axis]
        full = _fft_axis(_map(a, lambda e: _re(e)), n, axis, norm, False)
        return onp.take(full, list(range(n // 2 + 1)), axis=axis)

    def _irfft_axis(a, n, axis, norm):
        a = onp.asarray(a, dtype=object)
        m = a.shape[axis]
        if n is None:
            n = 2 * (m - 1)
        if n < 1:
            raise ValueError("Invalid number of FFT data points (%d) specified." % n)
        am = onp.moveaxis(a, axis, -1)
        nh = n // 2 + 1
        full = onp.empty(am.shape[:-1] + (n,), dtype=object)
        for i in onp.ndindex(*am.shape[:-1]):
            v = [am[i + (j,)] if j < m else 0 for j in range(nh)]
            for k in range(n):
                if k < nh:
                    e = CS.L(v[k])
                    if k == 0 or (n % 2 == 0 and k == n // 2):
                        e = CS(e.re, S(Fr(0)))  # pocketfft ignores the imaginary part of DC / Nyquist bins
                    full[i + (k,)] = e
                else:
                    full[i + (k,)] = CS.L(v[n - k]).conjugate()
        full = onp.moveaxis(full, -1, axis)
        out = _fft_axis(full, n, axis, norm, True)
        return _map(out, _re)

    def _mk(name, contract, impl):
        @stub(ft, name, contract)
        @takes_orig
        def g(orig):
            def f(a, *args, **kwargs):
                if _is_sym(a):
                    return impl(a, *args, **kwargs)
                return orig(a, *args, **kwargs)
            return f

    DFT = "explicit DFT matrix, lengths in {1,2,3,4,6} (sqrt(3) as an exact algebraic constant), NumPy's n/s/axes/norm semantics"
    _mk("fft", DFT, lambda a, n=None, axis=-1, norm=None, out=None: _fft_axis(a, n, axis, norm, False))
    _mk("ifft", DFT, lambda a, n=None, axis=-1, norm=None, out=None: _fft_axis(a, n, axis, norm, True))
    _mk("fft2", DFT, lambda a, s=None, axes=(-2, -1), norm=None, out=None: _fftn(a, s, axes, norm, False, True))
    _mk("ifft2", DFT, lambda a, s=None, axes=(-2, -1), norm=None, out=None: _fftn(a, s, axes, norm, True, True))
    _mk("fftn", DFT, lambda a, s=None, axes=None, norm=None, out=None: _fftn(a, s, axes, norm, False))
    _mk("ifftn", DFT, lambda a, s=None, axes=None, norm=None, out=None: _fftn(a, s, axes, norm, True))
    _mk("rfft", DFT + "; real input, half spectrum", lambda a, n=None, axis=-1, norm=None, out=None: _rfft_axis(a, n, axis, norm))
    _mk("irfft", DFT + "; Hermitian completion (imaginary part of DC/Nyquist ignored)", lambda a, n=None, axis=-1, norm=None, out=None: _irfft_axis(a, n, axis, norm))

    def _rfftn(a, s=None, axes=None, norm=None, out=None, two=False):
        a, s, axes = _cook(a, s, axes, two)
        a = _rfft_axis(a, s[-1], axes[-1], norm)
        for n, ax in reversed(list(zip(s[:-1], axes[:-1]))):
            a = _fft_axis(a, n, ax, norm, False)
        return a

    def _irfftn(a, s=None, axes=None, norm=None, out=None, two=False):
        a = onp.asarray(a, dtype=object)
        if axes is None:
            axes_l = (list(range(a.ndim)) if not two else [-2, -1]) if s is None else list(range(-len(s), 0))
        else:
            axes_l = list(axes)
        if s is None:
            s_l = [a.shape[ax] for ax in axes_l]
            s_l[-1] = 2 * (a.shape[axes_l[-1]] - 1)
        else:
            s_l = list(s)
        for n, ax in list(zip(s_l[:-1], axes_l[:-1])):
            a = _fft_axis(a, n, ax, norm, True)
        return _irfft_axis(a, s_l[-1], axes_l[-1], norm)

    _mk("rfft2", DFT, lambda a, s=None, axes=(-2, -1), norm=None, out=None: _rfftn(a, s, axes, norm, two=True))
    _mk("irfft2", DFT, lambda a, s=None, axes=(-2, -1), norm=None, out=None: _irfftn(a, s, axes, norm, two=True))
    _mk("rfftn", DFT, lambda a, s=None, axes=None, norm=None, out=None: _rfftn(a, s, axes, norm))
    _mk("irfftn", DFT, lambda a, s=None, axes=None, norm=None, out=None: _irfftn(a, s, axes, norm))
