"""Solver-based checking of HIPS/autograd (see /verif/DESIGN.md)."""
