"""Engine A harness: run one call configuration of the REAL autograd rules on symbolic arrays, against the
dual-number oracle obtained from NumPy's own primal; discharge the property instance with the solver."""
import hashlib
import math
import random
import time
import traceback
import warnings

import numpy as onp
import z3

from . import solve
from . import stubs
from .sym import (CS, CTX, Fr, S, C, Infeasible, PathLimit, Unsupported, complete_env, evalf, evalf_bool, is_complex, leaves,
                  re_im, structure, sym, sym_array, t_add, t_mul, t_sub, toz, term_vars)

_ready = False
anp = None
ag = None


def init():
    """install stubs, import autograd from the working tree, register the symbolic scalars through the
    public extension API"""
    global _ready, anp, ag
    if _ready:
        return
    warnings.filterwarnings("ignore")
    stubs.install()
    import autograd
    import autograd.numpy as _anp
    import autograd.numpy.linalg  # noqa
    import autograd.numpy.fft  # noqa
    from autograd.numpy.numpy_boxes import ArrayBox
    from autograd.numpy.numpy_vspaces import ArrayVSpace, ComplexArrayVSpace

    ArrayBox.register(S)
    ArrayBox.register(CS)
    ArrayVSpace.register(S)
    ComplexArrayVSpace.register(CS)
    anp = _anp
    ag = autograd
    _ready = True


# ----------------------------------------------------------------------------------------------
# configurations


class A:
    """argument spec. kind: 'r' real symbolic array, 'c' complex symbolic array, 's' real symbolic Python
    scalar, 'cs' complex symbolic scalar, 'k' concrete constant (value).  shape for arrays."""

    def __init__(self, kind, shape=None, value=None):
        self.kind = kind
        self.shape = tuple(shape) if shape is not None else None
        self.value = value

    def __repr__(self):
        if self.kind == "k":
            return "k:%r" % (self.value,)
        if self.kind in ("s", "cs"):
            return self.kind
        return "%s%s" % (self.kind, list(self.shape))


def R(*shape):
    return A("r", shape)


def Cx(*shape):
    return A("c", shape)


def K(v):
    return A("k", value=v)


SC = A("s")
CSC = A("cs")


class Config:
    def __init__(self, prim, label, call, args, argnum=0, tags=(), mode="generic", max_paths=None):
        self.prim = prim  # primitive / family name
        self.label = label  # unique human-readable label
        self.call = call  # call(np_namespace, *args)
        self.args = args
        self.argnum = argnum
        self.tags = set(tags)
        self.mode = mode
        self.max_paths = max_paths

    @property
    def key(self):
        return "%s | %s | args=%r | wrt=%d" % (self.prim, self.label, self.args, self.argnum)

    def make_args(self, eps=None, suffix=""):
        """eps: {argindex: {mask: prefix}}"""
        out = [_build_sym(a, "x%d%s" % (i, suffix), (eps or {}).get(i)) for i, a in enumerate(self.args)]
        # pinned primal values (pin_args: (argument position, entry index / key or None, value)): every check that builds its
        # symbolic arguments through here decides its claim AT that value - value-dependent branches of the real code
        # (truthiness tests, == comparisons) are explored under it instead of being assumed away as non-generic
        for (ai, idx, val) in getattr(self, "pin_args", ()):
            from .sym import CTX, Fr as _Fr, toz as _toz

            e = out[ai][idx] if idx is not None else out[ai]
            CTX.add_assume(_toz(e.c[0]) == _toz(_Fr(val)), "pinned value")
        return out

    def float_args(self, env):
        out = [_build_float(a, "x%d" % i, env) for i, a in enumerate(self.args)]
        for (ai, idx, val) in getattr(self, "pin_args", ()):  # float64 replays run at the pinned value as well
            if idx is None:
                out[ai] = float(val)
            elif isinstance(out[ai], tuple):
                out[ai] = tuple(float(val) if j == idx else e for j, e in enumerate(out[ai]))
            else:
                out[ai][idx] = float(val)
        return out

    def float_dir(self, k, env, prefix="d"):
        """float structure of argument k filled from the variables prefix+name (missing -> 0)"""
        return _build_float(self.args[k], "x%d" % k, PrefixEnv(env, prefix))


class PrefixEnv:
    """view of an environment: name -> env[prefix + name]; a missing entry is 0 for plain dicts and whatever the
    environment's own default is (random for lazily filled environments) otherwise"""

    def __init__(self, env, prefix):
        self.env = env
        self.prefix = prefix

    def __getitem__(self, name):
        try:
            return self.env[self.prefix + name]
        except KeyError:
            return 0.0


class _ZeroDefault(dict):
    def __missing__(self, k):
        return 0.0


def _build_sym(a, nm, e):
    if isinstance(a, dict):
        return {k: _build_sym(v, "%sk%s" % (nm, k), e) for k, v in a.items()}
    if isinstance(a, (tuple, list)):
        return type(a)(_build_sym(v, "%sp%d" % (nm, j), e) for j, v in enumerate(a))
    if a.kind == "r":
        return sym_array(nm, a.shape, e)
    if a.kind == "c":
        return sym_array(nm, a.shape, e, complex_=True)
    if a.kind == "s":
        return sym(nm, e)
    if a.kind == "cs":
        return CS(sym(nm + "r", e), sym(nm + "i", e))
    return a.value


def _build_float(a, nm, env):
    if isinstance(a, dict):
        return {k: _build_float(v, "%sk%s" % (nm, k), env) for k, v in a.items()}
    if isinstance(a, (tuple, list)):
        return type(a)(_build_float(v, "%sp%d" % (nm, j), env) for j, v in enumerate(a))
    if a.kind == "r":
        arr = onp.empty(a.shape, dtype=float)
        for idx in onp.ndindex(*a.shape):
            arr[idx] = env[nm + "_" + "_".join(map(str, idx))] if idx else env[nm]
        return arr
    if a.kind == "c":
        arr = onp.empty(a.shape, dtype=complex)
        for idx in onp.ndindex(*a.shape):
            s_ = nm + "_" + "_".join(map(str, idx)) if idx else nm
            arr[idx] = complex(env[s_ + "r"], env[s_ + "i"])
        return arr
    if a.kind == "s":
        return float(env[nm])
    if a.kind == "cs":
        return complex(env[nm + "r"], env[nm + "i"])
    return a.value


def add_scaled(x, d, t):
    """x + t*d on nested float structures"""
    if isinstance(x, dict):
        return {k: add_scaled(x[k], d[k], t) for k in x}
    if isinstance(x, (tuple, list)):
        return type(x)(add_scaled(a, b, t) for a, b in zip(x, d))
    return x + t * d


def subst(args, k, x):
    a = list(args)
    a[k] = x
    return a


def sym_like(v, name, eps=None):
    """fresh symbolic value with the structure of v (arrays / scalars / tuples / lists / dicts)"""
    if isinstance(v, dict):
        return {k: sym_like(v[k], "%s_%s" % (name, k), eps) for k in v}
    if isinstance(v, tuple) and hasattr(v, "_fields"):
        return type(v)(*[sym_like(x, "%s_%d" % (name, i), eps) for i, x in enumerate(v)])
    if isinstance(v, (tuple, list)):
        return type(v)(sym_like(x, "%s_%d" % (name, i), eps) for i, x in enumerate(v))
    cplx = is_complex(v)
    if isinstance(v, (S, float, int, onp.floating, onp.integer)):
        return sym(name, eps)
    if isinstance(v, (CS, complex, onp.complexfloating)):
        return CS(sym(name + "r", eps), sym(name + "i", eps))
    return sym_array(name, onp.shape(v), eps, complex_=cplx)


def float_like(v, name, env):
    if isinstance(v, dict):
        return {k: float_like(v[k], "%s_%s" % (name, k), env) for k in v}
    if isinstance(v, tuple) and hasattr(v, "_fields"):
        return type(v)(*[float_like(x, "%s_%d" % (name, i), env) for i, x in enumerate(v)])
    if isinstance(v, (tuple, list)):
        return type(v)(float_like(x, "%s_%d" % (name, i), env) for i, x in enumerate(v))
    if isinstance(v, (S, float, int, onp.floating, onp.integer)):
        return float(env[name])
    if isinstance(v, (CS, complex, onp.complexfloating)):
        return complex(env[name + "r"], env[name + "i"])
    cplx = is_complex(v)
    shape = onp.shape(v)
    arr = onp.empty(shape, dtype=complex if cplx else float)
    for idx in onp.ndindex(*shape):
        s = name + "_" + "_".join(map(str, idx)) if idx else name
        arr[idx] = complex(env[s + "r"], env[s + "i"]) if cplx else env[s]
    return arr


# ----------------------------------------------------------------------------------------------
# inner products on symbolic structures (real pairing; complex entries are paired as R^2 vectors)


def pair(a, b, ma=0, mb=0, conj_a=False):
    """sum_i <a_i, b_i>_R  of coefficient ma of a with coefficient mb of b  (term)"""
    la, lb = leaves(a), leaves(b)
    if len(la) != len(lb):
        raise ValueError("pair: size mismatch %d vs %d" % (len(la), len(lb)))
    tot = Fr(0)
    for x, y in zip(la, lb):
        xr, xi = re_im(x)
        yr, yi = re_im(y)
        tot = t_add(tot, t_mul(xr.co(ma), yr.co(mb)))
        ti = t_mul(xi.co(ma), yi.co(mb))
        tot = t_sub(tot, ti) if conj_a else t_add(tot, ti)
    return tot


def coeffs(a, m=0):
    """list of terms: coefficient m of every real component (re, im for complex entries)"""
    out = []
    for x in leaves(a):
        if type(x) is CS or isinstance(x, (complex, onp.complexfloating)):
            r, i = re_im(x)
            out.append(r.co(m))
            out.append(i.co(m))
        else:
            out.append(S.L(x).co(m) if not isinstance(x, S) else x.co(m))
    return out


def neq_any(ts_a, ts_b):
    """z3 formula: some component differs (or python bool)"""
    if len(ts_a) != len(ts_b):
        return True
    ds = []
    for a, b in zip(ts_a, ts_b):
        d = t_sub(a, b)
        if type(d) is Fr:
            if d != 0:
                return True
            continue
        ds.append(d != 0)
    if not ds:
        return False
    return z3.Or(ds) if len(ds) > 1 else ds[0]


# ----------------------------------------------------------------------------------------------
# running


class Outcome:
    """result of one configuration"""

    def __init__(self, cfg):
        self.key = cfg.key
        self.prim = cfg.prim
        self.status = None  # holds | violation | raises | numpy_rejects | inconclusive | error
        self.detail = ""
        self.paths = 0
        self.paths_dropped = 0
        self.queries = 0
        self.verdicts = {"unsat": 0, "sat": 0, "unknown": 0}
        self.validated = 0
        self.cex = None
        self.notes = []
        self.time = 0.0
        self.abstracted = False
        self.extra = {}

    def to_dict(self):
        return dict(self.__dict__)


def rand_env(names, rng, lo=-2.0, hi=2.0):
    env = {}
    for n in names:
        # dyadic rationals away from 0 and from each other (generic position)
        env[n] = rng.choice([-1, 1]) * ((2 * rng.randrange(2, 2 * 64) + 1) / 64.0)  # odd/64: never an integer or a half
    return env


def all_var_names(objs):
    ts = []
    for o in objs:
        for e in leaves(o):
            for s_ in re_im(e) if isinstance(e, (S, CS)) else ():
                for t in s_.c.values():
                    if type(t) is not Fr:
                        ts.append(t)
    return sorted(term_vars(ts))


def path_matches(path, env):
    try:
        for c in path.assume + path.pc:
            if not evalf_bool(c, env):
                return False
        return True
    except (Unsupported, KeyError, ZeroDivisionError, OverflowError, ValueError):
        return False


def floats_of(obj, env, m=0):
    cache = {}
    return [evalf(t, env, cache) for t in coeffs(obj, m)]


def flat_float(v):
    out = []
    for e in leaves(v):
        if isinstance(e, (complex, onp.complexfloating)):
            out.extend([float(e.real), float(e.imag)])
        else:
            out.append(float(e))
    return out


def close(a, b, rtol=1e-6, atol=1e-8):
    if len(a) != len(b):
        return False
    for x, y in zip(a, b):
        if math.isnan(x) or math.isnan(y):
            return False
        if abs(x - y) > atol + rtol * max(abs(x), abs(y)):
            return False
    return True


def model_env(model, names, rng=None):
    """float env from a solver model (missing vars -> random / 0)"""
    env = {}
    for n in names:
        if n in model:
            env[n] = float(model[n])
        else:
            env[n] = 0.5 if rng is None else rng.choice([-1, 1]) * (rng.randrange(3, 128) / 64.0)
    return env


def exc_sig(e):
    return "%s: %s" % (type(e).__name__, str(e).splitlines()[0][:160] if str(e) else "")


def onp_module():
    return onp
