"""Engine C, step 1: extract the transition relation of trace entry / exit by symbolically executing the REAL
autograd.tracer.trace with the counter state a z3 Int, and read off from the real object whether two threads see the
same counter.  No hand model: if the state cannot be extracted in this form the check fails closed."""
import threading

import z3


class ExtractionError(Exception):
    pass


def extract():
    import autograd.tracer as tr
    from autograd.core import VJPNode

    ts = tr.trace_stack
    if not hasattr(ts, "top"):
        raise ExtractionError("tracer.trace_stack has no attribute 'top': the counter state could not be located")
    saved = ts.top
    top, mid = z3.Int("top"), z3.Int("mid")
    rec = {}

    class Probe(Exception):
        pass

    def run(perturb, fail):
        ts.top = top

        def fun(box):
            rec["id"] = box._trace  # the real data flow: what find_top_boxed_args will compare
            rec["inside"] = ts.top
            if perturb:
                ts.top = mid  # another thread moved the counter while this trace is active
            if fail:
                raise Probe()
            return box

        try:
            tr.trace(VJPNode.new_root(), fun, 1.0)
        except Probe:
            pass
        return ts.top

    try:
        after_plain = run(False, False)
        ident, inside = rec["id"], rec["inside"]
        after_perturbed = run(True, False)
        after_fail = run(False, True)
    finally:
        ts.top = saved
    simp = lambda e: z3.simplify(e) if isinstance(e, z3.ExprRef) else z3.IntVal(int(e))
    rel = {"id": simp(ident), "enter": simp(inside), "exit_plain": simp(after_plain), "exit_perturbed": simp(after_perturbed), "exit_on_exception": simp(after_fail)}
    # classify the exit transition: function of the CURRENT counter value (mid) or a restore of the saved one (top)?
    vars_in = lambda e: {str(v) for v in z3.z3util.get_vars(e)}
    if vars_in(rel["exit_perturbed"]) == {"mid"}:
        rel["exit_kind"] = "function_of_current"  # e.g. top -= 1
        rel["exit_fn"] = lambda cur, saved_: z3.substitute(rel["exit_perturbed"], (mid, cur))
    elif vars_in(rel["exit_perturbed"]) <= {"top"}:
        rel["exit_kind"] = "restore_saved"
        rel["exit_fn"] = lambda cur, saved_: z3.substitute(rel["exit_perturbed"], (top, saved_))
    else:
        raise ExtractionError("exit transition depends on both values: %s" % rel["exit_perturbed"])
    if vars_in(rel["id"]) - {"top"} or vars_in(rel["enter"]) - {"top"}:
        raise ExtractionError("unexpected entry transition %s / %s" % (rel["id"], rel["enter"]))
    rel["id_fn"] = lambda cur: z3.substitute(rel["id"], (top, cur))
    rel["enter_fn"] = lambda cur: z3.substitute(rel["enter"], (top, cur))
    rel["shared"] = counter_is_shared()
    return rel


def counter_is_shared():
    """two real threads: does thread B observe thread A's modification of the counter?"""
    import autograd.tracer as tr

    ts = tr.trace_stack
    seen = {}
    a_in, b_done = threading.Event(), threading.Event()
    saved = ts.top

    def A():
        base = ts.top
        ts.top = 41
        a_in.set()
        b_done.wait(10)
        ts.top = base

    def B():
        a_in.wait(10)
        seen["b"] = ts.top
        b_done.set()

    ta, tb = threading.Thread(target=A), threading.Thread(target=B)
    ta.start()
    tb.start()
    ta.join()
    tb.join()
    ts.top = saved
    # thread B sees A's +41 iff the storage is shared between threads
    return seen.get("b") is not None and seen["b"] >= 40
