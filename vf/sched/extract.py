"""Engine C, step 1: extract the transition relation of trace entry / exit by symbolically executing the REAL
autograd.tracer.trace with the counter state a z3 Int, and read off from the real object whether two threads see the
same counter.  No hand model: if the state cannot be extracted in this form the check fails closed."""
import threading

import z3


class ExtractionError(Exception):
    pass


def extract():
    import autograd.tracer as tr
    from autograd.core import VJPNode

    ts = tr.trace_stack
    if not hasattr(ts, "top"):
        raise ExtractionError("tracer.trace_stack has no attribute 'top': the counter state could not be located")
    saved = ts.top
    top, mid = z3.Int("top"), z3.Int("mid")
    rec = {}

    class Probe(Exception):
        pass

    def run(perturb, fail):
        ts.top = top

        def fun(box):
            rec["id"] = box._trace  # the real data flow: what find_top_boxed_args will compare
            rec["inside"] = ts.top
            if perturb:
                ts.top = mid  # another thread moved the counter while this trace is active
            if fail:
                raise Probe()
            return box

        try:
            tr.trace(VJPNode.new_root(), fun, 1.0)
        except Probe:
            pass
        return ts.top

    try:
        after_plain = run(False, False)
        ident, inside = rec["id"], rec["inside"]
        after_perturbed = run(True, False)
        after_fail = run(False, True)
    finally:
        ts.top = saved
    simp = lambda e: z3.simplify(e) if isinstance(e, z3.ExprRef) else z3.IntVal(int(e))
    rel = {"id": simp(ident), "enter": simp(inside), "exit_plain": simp(after_plain), "exit_perturbed": simp(after_perturbed), "exit_on_exception": simp(after_fail)}
    # classify the exit transition: function of the CURRENT counter value (mid) or a restore of the saved one (top)?
    vars_in = lambda e: {str(v) for v in z3.z3util.get_vars(e)}
    if vars_in(rel["exit_perturbed"]) == {"mid"}:
        rel["exit_kind"] = "function_of_current"  # e.g. top -= 1
        rel["exit_fn"] = lambda cur, saved_: z3.substitute(rel["exit_perturbed"], (mid, cur))
    elif vars_in(rel["exit_perturbed"]) <= {"top"}:
        rel["exit_kind"] = "restore_saved"
        rel["exit_fn"] = lambda cur, saved_: z3.substitute(rel["exit_perturbed"], (top, saved_))
    else:
        raise ExtractionError("exit transition depends on both values: %s" % rel["exit_perturbed"])
    if vars_in(rel["id"]) - {"top"} or vars_in(rel["enter"]) - {"top"}:
        raise ExtractionError("unexpected entry transition %s / %s" % (rel["id"], rel["enter"]))
    rel["id_fn"] = lambda cur: z3.substitute(rel["id"], (top, cur))
    rel["enter_fn"] = lambda cur: z3.substitute(rel["enter"], (top, cur))
    rel["shared"] = counter_is_shared()
    return rel


def extract_concrete():
    """fallback when the tracer branches on the counter value (so it cannot be executed with a z3 Int): run the real
    trace() at concrete counter values and fit the affine entry / exit relation the symbolic extraction would have read
    off; the fit is checked on every sample.  Weaker than extract(): the relation is only validated at the samples."""
    import autograd.tracer as tr
    from autograd.core import VJPNode

    ts = tr.trace_stack
    saved = ts.top
    top, mid = z3.Int("top"), z3.Int("mid")
    rec = {}

    class Probe(Exception):
        pass

    def run(t0, m0, fail):
        ts.top = t0

        def fun(box):
            rec["id"] = box._trace
            rec["inside"] = ts.top
            if m0 is not None:
                ts.top = m0
            if fail:
                raise Probe()
            return box

        try:
            tr.trace(VJPNode.new_root(), fun, 1.0)
        except Probe:
            pass
        return ts.top

    samples = []
    try:
        for t0 in (-1, 0, 2, 5):
            a = run(t0, None, False)
            i0, in0 = rec["id"], rec["inside"]
            b1 = run(t0, t0 + 7, False)
            b2 = run(t0, t0 + 11, False)
            c = run(t0, None, True)
            samples.append((t0, i0, in0, a, b1, b2, c))
    finally:
        ts.top = saved
    t0, i0, in0, a, b1, b2, c = samples[0]
    did, den = i0 - t0, in0 - t0
    if b2 - b1 == 4:  # exit is a function of the CURRENT value
        kind, dex = "function_of_current", b1 - (t0 + 7)
    elif b1 == b2:
        kind, dex = "restore_saved", b1 - t0
    else:
        raise ExtractionError("exit transition is not affine in the samples")
    for (t0, i0, in0, a, b1, b2, c) in samples:
        ok = i0 == t0 + did and in0 == t0 + den and (b1 == t0 + 7 + dex and b2 == t0 + 11 + dex if kind == "function_of_current" else b1 == t0 + dex == b2)
        if not ok:
            raise ExtractionError("entry / exit relation is not the same affine map at every sampled counter value")
    rel = {"id": z3.simplify(top + did), "enter": z3.simplify(top + den), "exit_plain": z3.simplify(top + (samples[0][3] - samples[0][0])),
           "exit_perturbed": z3.simplify((mid if kind == "function_of_current" else top) + dex), "exit_on_exception": z3.simplify(top + (samples[0][6] - samples[0][0])),
           "exit_kind": kind, "extraction": "affine fit on concrete counter values -1, 0, 2, 5 (the tracer branches on the counter, symbolic execution not possible)"}
    if kind == "function_of_current":
        rel["exit_fn"] = lambda cur, saved_: z3.substitute(rel["exit_perturbed"], (mid, cur))
    else:
        rel["exit_fn"] = lambda cur, saved_: z3.substitute(rel["exit_perturbed"], (top, saved_))
    rel["id_fn"] = lambda cur: z3.substitute(rel["id"], (top, cur))
    rel["enter_fn"] = lambda cur: z3.substitute(rel["enter"], (top, cur))
    rel["shared"] = counter_is_shared()
    return rel


def counter_is_shared():
    """two real threads: does thread B observe thread A's modification of the counter?"""
    import autograd.tracer as tr

    ts = tr.trace_stack
    seen = {}
    a_in, b_done = threading.Event(), threading.Event()
    saved = ts.top

    def A():
        base = ts.top
        ts.top = 41
        a_in.set()
        b_done.wait(10)
        ts.top = base

    def B():
        a_in.wait(10)
        seen["b"] = ts.top
        b_done.set()

    ta, tb = threading.Thread(target=A), threading.Thread(target=B)
    ta.start()
    tb.start()
    ta.join()
    tb.join()
    ts.top = saved
    # thread B sees A's +41 iff the storage is shared between threads
    return seen.get("b") is not None and seen["b"] >= 40
