"""Engine C, step 2: all interleavings of trace entry/exit events of T threads as one SMT query per script tuple.
Contract K (per thread): the id handed to a trace is strictly greater than the ids of that thread's enclosing
active traces, so that find_top_boxed_args unboxes the innermost level first."""
import itertools

import z3


def scripts(max_depth, max_events):
    """all well-nested enter/exit sequences ('E'/'X') with depth <= max_depth and length <= max_events"""
    out = []

    def rec(s, depth, opened):
        if len(s) > max_events:
            return
        if depth == 0 and s:
            out.append(s)
        if len(s) == max_events:
            return
        if depth < max_depth:
            rec(s + "E", depth + 1, opened + 1)
        if depth > 0:
            rec(s + "X", depth - 1, opened)

    rec("", 0, 0)
    return sorted(set(out), key=lambda s: (len(s), s))


def query(rel, scr, timeout_ms=20000):
    """scr: tuple of scripts, one per thread.  returns (verdict, schedule or None, stats)"""
    T = len(scr)
    N = sum(len(s) for s in scr)
    D = max(max(_depths(s)) for s in scr)
    s = z3.Solver()
    s.set("timeout", timeout_ms)
    sel = [z3.Int("s_%d" % k) for k in range(N)]
    # counter state: shared -> one variable per step; else one per thread per step
    shared = rel["shared"]
    cnt = [[z3.Int("c_%d_%d" % (k, t)) for t in range(1 if shared else T)] for k in range(N + 1)]
    pc = [[z3.Int("pc_%d_%d" % (k, t)) for t in range(T)] for k in range(N + 1)]
    ids = [[[z3.Int("id_%d_%d_%d" % (k, t, l)) for l in range(D)] for t in range(T)] for k in range(N + 1)]
    sav = [[[z3.Int("sv_%d_%d_%d" % (k, t, l)) for l in range(D)] for t in range(T)] for k in range(N + 1)]
    c0 = z3.Int("c_init")
    s.add(c0 >= -1)
    for t in range(len(cnt[0])):
        s.add(cnt[0][t] == c0)
    for t in range(T):
        s.add(pc[0][t] == 0)
    bad = []
    for k in range(N):
        s.add(sel[k] >= 0, sel[k] < T)
        for t in range(T):
            ct = 0 if shared else t
            run = sel[k] == t
            # thread t not selected: everything of t unchanged
            s.add(z3.Implies(z3.Not(run), pc[k + 1][t] == pc[k][t]))
            for l in range(D):
                s.add(z3.Implies(z3.Not(run), z3.And(ids[k + 1][t][l] == ids[k][t][l], sav[k + 1][t][l] == sav[k][t][l])))
            if not shared:
                s.add(z3.Implies(z3.Not(run), cnt[k + 1][t] == cnt[k][t]))
            # selected: must have an event left; execute event number pc
            s.add(z3.Implies(run, pc[k][t] < len(scr[t])))
            depths = _depths(scr[t])
            for e, ev in enumerate(scr[t]):
                here = z3.And(run, pc[k][t] == e)
                cur = cnt[k][ct]
                lvl = depths[e]  # nesting level BEFORE the event
                if ev == "E":
                    new_id = rel["id_fn"](cur)
                    upd = [pc[k + 1][t] == e + 1, cnt[k + 1][ct] == rel["enter_fn"](cur)]
                    for l in range(D):
                        if l == lvl:
                            upd += [ids[k + 1][t][l] == new_id, sav[k + 1][t][l] == cur]
                        else:
                            upd += [ids[k + 1][t][l] == ids[k][t][l], sav[k + 1][t][l] == sav[k][t][l]]
                    s.add(z3.Implies(here, z3.And(upd)))
                    for l in range(lvl):
                        bad.append(z3.And(here, new_id <= ids[k][t][l]))  # K violated: not above an enclosing active trace
                else:
                    upd = [pc[k + 1][t] == e + 1, cnt[k + 1][ct] == rel["exit_fn"](cur, sav[k][t][lvl - 1])]
                    for l in range(D):
                        upd += [ids[k + 1][t][l] == ids[k][t][l], sav[k + 1][t][l] == sav[k][t][l]]
                    s.add(z3.Implies(here, z3.And(upd)))
        if shared:
            pass
    if not bad:
        return "unsat", None, {"steps": N}
    s.add(z3.Or(bad))
    r = str(s.check())
    if r == "sat":
        m = s.model()
        return r, [m.eval(sel[k], model_completion=True).as_long() for k in range(N)], {"steps": N, "c_init": m.eval(c0, model_completion=True).as_long()}
    return r, None, {"steps": N}


def _depths(script):
    d = 0
    out = []
    for ev in script:
        out.append(d)
        d += 1 if ev == "E" else -1
    return out


def script_tuples(T, max_depth, max_events, limit=None):
    sc = scripts(max_depth, max_events)
    tuples = [t for t in itertools.combinations_with_replacement(sc, T) if max(max(_depths(s)) + 1 for s in t) >= 2]
    return tuples[:limit] if limit else tuples
