"""Engine C, step 3: replay a schedule on REAL threads with the REAL autograd.  A strictly serialising scheduler
(exactly one thread runs at a time) whose yield points sit in user code only: at the start of every differentiated
function body (just after trace entry) and right after every differential-operator call returns (just after exit)."""
import threading
import warnings


class Sched:
    def __init__(self, order, counts):
        self.order = list(order)
        self.i = 0
        self.left = dict(counts)
        self.cv = threading.Condition()
        self.dead = False

    def _wait(self, me):
        while not self.dead and self.left[me] > 0 and self.i < len(self.order) and self.order[self.i] != me:
            if not self.cv.wait(timeout=20):
                self.dead = True
                self.cv.notify_all()

    def start(self, me):
        with self.cv:
            self._wait(me)

    def point(self, me):
        """called after each event of thread `me`"""
        with self.cv:
            self.i += 1
            self.left[me] -= 1
            self.cv.notify_all()
            self._wait(me)


def parse(script):
    """'EEXEXX' -> tree: list of children per trace"""
    root = []
    stack = [root]
    for ev in script:
        if ev == "E":
            node = []
            stack[-1].append(node)
            stack.append(node)
        else:
            stack.pop()
    return root


def program(script, sched, me, x0):
    """a sequence of (possibly nested) gradient computations following the enter/exit script"""
    from autograd import grad

    def make(children):
        def f(x, outer_vals):
            if sched is not None:
                sched.point(me)  # just entered this trace
            acc = x * x
            for v in outer_vals:
                acc = acc + x * v  # closes over every enclosing variable
            for j, ch in enumerate(children):
                inner = make(ch)
                d = grad(lambda y: inner(y, outer_vals + [x]))(x * 1.0 + j)
                if sched is not None:
                    sched.point(me)  # the nested differentiation just exited
                acc = acc + x * d
            return acc

        return f

    results = []
    if sched is not None:
        sched.start(me)
    for j, top_children in enumerate(parse(script)):
        f = make(top_children)
        results.append(float(grad(lambda y: f(y, []))(x0 + j)))
        if sched is not None:
            sched.point(me)
    return results


def run(scripts, order):
    """returns (results per thread under the schedule, solo results, error or None)"""
    warnings.filterwarnings("ignore")
    import autograd.tracer as tr

    x0s = [1.5 + 0.25 * t for t in range(len(scripts))]
    solo = [program(s, None, t, x0s[t]) for t, s in enumerate(scripts)]
    base = getattr(tr.trace_stack, "top", None)
    sched = Sched(order, {t: len(s) for t, s in enumerate(scripts)})
    out = {}
    errs = {}

    def worker(t):
        try:
            out[t] = program(scripts[t], sched, t, x0s[t])
        except BaseException as e:  # noqa
            errs[t] = "%s: %s" % (type(e).__name__, e)
            with sched.cv:
                sched.dead = True
                sched.cv.notify_all()

    ths = [threading.Thread(target=worker, args=(t,)) for t in range(len(scripts))]
    for th in ths:
        th.start()
    for th in ths:
        th.join(60)
    try:
        tr.trace_stack.top = base
    except Exception:
        pass
    return [out.get(t) for t in range(len(scripts))], solo, errs
