"""Engine C, step 3: replay a schedule on REAL threads with the REAL autograd.  A strictly serialising scheduler
(exactly one thread runs at a time) whose yield points sit in user code only: at the start of every differentiated
function body (just after trace entry) and right after every differential-operator call returns (just after exit)."""
import threading
import warnings


class Sched:
    def __init__(self, order, counts):
        self.order = list(order)
        self.i = 0
        self.left = dict(counts)
        self.cv = threading.Condition()
        self.dead = False
        self.done = {}

    def _skip(self):
        # slots of threads that have already finished (a run may pass fewer scheduling points than its solo run did)
        while self.i < len(self.order) and self.done.get(self.order[self.i]):
            self.i += 1

    def _wait(self, me):
        self._skip()
        while not self.dead and self.left[me] > 0 and self.i < len(self.order) and self.order[self.i] != me:
            if not self.cv.wait(timeout=5):
                self.dead = True
                self.cv.notify_all()
            self._skip()

    def finish(self, me):
        with self.cv:
            self.done[me] = True
            self._skip()
            self.cv.notify_all()

    def start(self, me):
        with self.cv:
            self._wait(me)

    def point(self, me):
        """called after each event of thread `me`"""
        with self.cv:
            self.i += 1
            self.left[me] -= 1
            self.cv.notify_all()
            self._wait(me)


def parse(script):
    """'EEXEXX' -> tree: list of children per trace"""
    root = []
    stack = [root]
    for ev in script:
        if ev == "E":
            node = []
            stack[-1].append(node)
            stack.append(node)
        else:
            stack.pop()
    return root


def program(script, sched, me, x0):
    """a sequence of (possibly nested) gradient computations following the enter/exit script"""
    from autograd import grad

    def make(children):
        def f(x, outer_vals):
            if sched is not None:
                sched.point(me)  # just entered this trace
            acc = x * x
            for v in outer_vals:
                acc = acc + x * v  # closes over every enclosing variable
            for j, ch in enumerate(children):
                inner = make(ch)
                d = grad(lambda y: inner(y, outer_vals + [x]))(x * 1.0 + j)
                if sched is not None:
                    sched.point(me)  # the nested differentiation just exited
                acc = acc + x * d
            return acc

        return f

    results = []
    if sched is not None:
        sched.start(me)
    for j, top_children in enumerate(parse(script)):
        f = make(top_children)
        results.append(float(grad(lambda y: f(y, []))(x0 + j)))
        if sched is not None:
            sched.point(me)
    return results


def run(scripts, order):
    """returns (results per thread under the schedule, solo results, error or None)"""
    warnings.filterwarnings("ignore")
    import autograd.tracer as tr

    x0s = [1.5 + 0.25 * t for t in range(len(scripts))]
    solo = [program(s, None, t, x0s[t]) for t, s in enumerate(scripts)]
    base = getattr(tr.trace_stack, "top", None)
    sched = Sched(order, {t: len(s) for t, s in enumerate(scripts)})
    out = {}
    errs = {}

    def worker(t):
        try:
            out[t] = program(scripts[t], sched, t, x0s[t])
        except BaseException as e:  # noqa
            errs[t] = "%s: %s" % (type(e).__name__, e)
            with sched.cv:
                sched.dead = True
                sched.cv.notify_all()
        finally:
            sched.finish(t)

    ths = [threading.Thread(target=worker, args=(t,)) for t in range(len(scripts))]
    for th in ths:
        th.start()
    for th in ths:
        th.join(60)
    try:
        tr.trace_stack.top = base
    except Exception:
        pass
    return [out.get(t) for t in range(len(scripts))], solo, errs


# ----------------------------------------------------------------------------------------------
# operation-event granularity: yield points inside the forward AND the backward pass (a user primitive whose forward
# function and whose VJP both yield), exhaustive enumeration of the interleavings of two small programs that use array
# primitives with helper state (sort / partition / indexing / dot / concatenate), each result compared with its solo run.
# This is replay-style evidence (real threads, real autograd); the solver-decided part of C20 is trace-event granular.


def _make_yield(sched_box):
    from autograd.extend import defjvp, defvjp, primitive

    @primitive
    def yp(x, me):
        s = sched_box[0]
        if s is not None:
            s.point(me)
        return x

    def yp_vjp(ans, x, me):
        def vjp(g):
            s = sched_box[0]
            if s is not None:
                s.point(me)
            return g

        return vjp

    defvjp(yp, yp_vjp)
    defjvp(yp, lambda g, ans, x, me: g)
    return yp


def op_programs():
    import numpy as onp
    import autograd.numpy as np
    from autograd import grad, make_vjp

    box = [None]
    yp = _make_yield(box)
    w = onp.array([1.0, -2.0, 0.5, 3.0])

    def hvp_sort(me, x, v):
        f = lambda z: np.sum(w * np.sort(yp(z, me)) ** 3)
        return grad(lambda z: np.sum(grad(f)(z) * v))(yp(x, me))

    def grad_sort(me, x, v):
        return grad(lambda z: np.sum(w * np.sort(yp(z, me)) ** 2) + np.sum(np.partition(yp(z * 2.0, me), 2) * v))(x)

    def hvp_index(me, x, v):
        f = lambda z: np.sum(yp(z, me)[[0, 0, 3, 1]] ** 3) + np.dot(z, np.concatenate([z[2:], z[:2]]))
        return grad(lambda z: np.dot(grad(f)(z), v))(yp(x, me))

    def nested_mixed(me, x, v):
        from autograd import make_jvp

        f = lambda z: np.sum(np.tanh(yp(z, me)) * np.cumsum(z))
        return make_jvp(grad(f))(yp(x, me))(v)[1]

    def vjp_reuse(me, x, v):
        vjp, y = make_vjp(lambda z: yp(np.sort(z) * z[::-1], me))(x)
        a = vjp(v)
        b = vjp(v * 2.0)
        return a + b

    # ONE operator callable shared by all threads (what a thread pool mapping grad(f) over work items does); the
    # threads differ in the NON-differentiated arguments.  These programs get yield points at the entry and exit of
    # autograd.tracer.trace and autograd.core.backward_pass (profile hook, see _lib_hook), i.e. between the
    # operator's own prologue and the start of the traced function.
    from autograd import hessian_vector_product, make_jvp

    G = grad(lambda z, c: np.sum(c * np.sin(z) * z))
    HVP = hessian_vector_product(lambda z, c=1.0: np.sum(w * z ** 3) * c)
    MJ = make_jvp(lambda z, c: np.cos(z) * c)
    G1 = grad(lambda c, z: np.sum(c * np.sin(z) * z), 1)

    def shared_grad(me, x, v):
        return G(x, v)

    def shared_hvp(me, x, v):
        return HVP(x, v, c=float(me) + 2.0)

    def shared_jvp(me, x, v):
        j = MJ(x, v)  # the returned closure runs the trace later
        return j(v * 0.5)[1]

    def shared_grad_argnum(me, x, v):
        return G1(v, x) + G(x, v * 2.0)

    # fine-grained scheduling points (every call / return of a Python function defined under autograd/numpy/ or in
    # NumPy's einsum parser): programs whose rules go through rule-file helpers (einsum subscript parsing, FFT factor
    # tables, tensordot axis bookkeeping) that a module-level cache or scratch variable would make thread-unsafe
    EA = onp.array([[1.0, 2.0, 0.5], [-1.0, 0.3, 2.0], [0.7, -0.4, 1.1]])

    def fine_einsum_a(me, x, v):
        m = np.reshape(np.concatenate([x, x[:2] * x[1:3], x[:3]]), (3, 3))
        return grad(lambda z: np.sum(np.einsum("ij,jk->ik", z, EA) * np.einsum("ij,jk->ik", EA, z)))(m).ravel()[:4]

    def fine_einsum_b(me, x, v):
        m = np.reshape(np.concatenate([x, x[:2] * x[1:3], x[:3]]), (3, 3))
        return grad(lambda z: np.sum(np.einsum("ij,kj->ik", z, EA) * np.einsum("ij,kj->ik", EA, z)))(m).ravel()[:4]

    def fine_fft(me, x, v):
        m = np.reshape(np.concatenate([x, x * 2.0, x[::-1], x + 1.0]), (4, 4))
        ax = me % 2
        return grad(lambda z: np.sum(np.fft.irfft(np.fft.rfft(z, axis=ax) * (1.0 + 0.5j), axis=ax) * m))(m)[0]

    # forward mode: each thread's OUTERMOST differentiation is a make_jvp (its root node carries the tangent), and one
    # JVP function object shared by the threads and called with different tangents
    XS = onp.array([0.3, -1.1, 0.8, 1.7])
    fjv = lambda z: np.sin(z) * z + z * z * 3.0 + np.cos(z * z) * z
    JS = make_jvp(fjv)(XS)

    def fine_jvp_own(me, x, v):
        return make_jvp(fjv)(x)(v)[1]

    def fine_jvp_sharedfn(me, x, v):
        return JS(v)[1]

    def fine_fwd_over_rev(me, x, v):
        return make_jvp(grad(lambda z: np.sum(fjv(z))))(x)(v)[1]

    # interpreter-global state that a differential operator might touch around the user's function (warnings filters,
    # NumPy error state): one thread inside holomorphic_grad, another one running a differentiation that makes NumPy
    # emit a ComplexWarning (harmless alone)
    from autograd import holomorphic_grad

    def fine_holo(me, x, v):
        r = holomorphic_grad(lambda w: np.sum(w * w * (1.0 + 0.5j)) + np.sum(np.exp(w * 0.1)))(x + 1j * v)
        return onp.concatenate([onp.real(r), onp.imag(r)])

    def fine_cwarn(me, x, v):
        return grad(lambda z: np.sum((z * (1.0 + 2.0j)).astype(float) ** 2) + np.sum(np.sqrt(z * z + 1.0)))(x)

    # ONE VJP function (pullback closure) shared by the threads, each with its own cotangent: its backward sweep walks the
    # same recorded graph (per-sweep state must not live on the graph); and flatten's unflatten, built once, used by all
    from autograd.misc.flatten import flatten as _flatten

    VS = make_vjp(lambda z: np.sin(z) * z + (np.cos(z) + z) * z[::-1])(XS)[0]
    _flat0, UNFLAT = _flatten({"w": onp.ones(2), "b": (onp.zeros(1), 1.5)})

    def fine_shared_vjp(me, x, v):
        return VS(v)

    def fine_shared_unflatten(me, x, v):
        return grad(lambda fl: np.sum(UNFLAT(fl)["w"] ** 2) * UNFLAT(fl)["b"][1] + np.sum(UNFLAT(fl)["b"][0] * fl[:1]))(x)

    # ONE const_graph-wrapped function (autograd.misc.tracers: the recorded graph is replayed on every later call), built
    # once and then differentiated by all threads on their own data: first order, and nested (Hessian-vector product)
    from autograd.misc import const_graph as _const_graph

    CG = _const_graph(lambda z: np.sum(np.sin(z) * z) + np.sum(np.tanh(z * 0.5) * z[::-1]) + np.dot(z, z * z))
    CG(onp.array([0.1, 0.2, 0.3, 0.4]))

    def fine_const_graph(me, x, v):
        return grad(CG)(x)

    def fine_const_graph_hvp(me, x, v):
        return grad(lambda y: np.sum(grad(CG)(y) * v))(x)

    # each thread flattens ITS OWN parameter container and differentiates through its own unflatten (what the optimizers in
    # autograd.misc do on every step); scheduling points at every call / return inside autograd/misc, i.e. between the leaf
    # visits of one flatten traversal
    def fine_flatten_own(me, x, v):
        params = {"w": x[:2] * 1.0, "b": (x[2:] * 1.0, [v[:1] * 1.0, float(me) + 0.5])}
        flat, unfl = _flatten(params)
        g = grad(lambda fl: np.sum(unfl(fl)["w"] ** 2) * unfl(fl)["b"][1][1] + np.sum(unfl(fl)["b"][0] * fl[:2]) + np.sum(unfl(fl)["b"][1][0]))(flat)
        return onp.concatenate([onp.asarray(flat, dtype=float), onp.asarray(g, dtype=float)])

    def fine_optimizer_step(me, x, v):
        from autograd.misc.optimizers import sgd

        params = {"w": x[:2] * 1.0, "b": (x[2:] * 1.0,)}
        out_ = sgd(lambda p, i: grad(lambda q: np.sum(q["w"] ** 2) + np.sum(q["b"][0] * v[:2]))(p), params, num_iters=2, step_size=0.1)
        return onp.concatenate([onp.asarray(out_["w"], dtype=float), onp.asarray(out_["b"][0], dtype=float)])

    # ONE user primitive with three traced operands (defvjp's generic branch), used by both threads on their own data,
    # twice per thread; scheduling points between the applications and the backward passes
    from autograd.extend import defvjp as _defvjp, primitive as _primitive

    @_primitive
    def fma3(a_, b_, c_):
        return a_ * b_ + c_

    _defvjp(fma3, lambda ans, a_, b_, c_: lambda g: g * b_, lambda ans, a_, b_, c_: lambda g: g * a_, lambda ans, a_, b_, c_: lambda g: g)

    def fine_prim3(me, x, v):
        return grad(lambda z: np.sum(fma3(z, np.sin(z) * v, z * z) * np.cos(z) + fma3(z * 2.0, z, np.exp(z * 0.1))))(x)

    progs = {"fine_prim3": fine_prim3, "fine_flatten_own": fine_flatten_own, "fine_optimizer_step": fine_optimizer_step, "fine_const_graph": fine_const_graph, "fine_const_graph_hvp": fine_const_graph_hvp, "fine_shared_vjp": fine_shared_vjp, "fine_shared_unflatten": fine_shared_unflatten, "fine_holo": fine_holo, "fine_cwarn": fine_cwarn, "fine_jvp_own": fine_jvp_own, "fine_jvp_sharedfn": fine_jvp_sharedfn, "fine_fwd_over_rev": fine_fwd_over_rev, "fine_einsum_a": fine_einsum_a, "fine_einsum_b": fine_einsum_b, "fine_fft": fine_fft, "hvp_sort": hvp_sort, "grad_sort": grad_sort, "hvp_index": hvp_index, "nested_mixed": nested_mixed, "vjp_reuse": vjp_reuse,
             "shared_grad": shared_grad, "shared_hvp": shared_hvp, "shared_jvp": shared_jvp, "shared_grad_argnum": shared_grad_argnum}
    return box, progs


_HOOKED = ("trace", "backward_pass")


def _lib_hook(box, me):
    """profile function: a scheduling point at every call and return of autograd.tracer.trace / core.backward_pass"""
    def prof(frame, event, arg):
        if event == "call" or event == "return":
            co = frame.f_code
            if co.co_name in _HOOKED and (co.co_filename.endswith("autograd/tracer.py") or co.co_filename.endswith("autograd/core.py")):
                s = box[0]
                if s is not None:
                    s.point(me)

    return prof


def _fine_hook(box, me):
    def prof(frame, event, arg):
        if event == "call" or event == "return":
            fn = frame.f_code.co_filename
            if "/autograd/numpy/" in fn or "/autograd/misc/" in fn or fn.endswith("einsumfunc.py"):
                s = box[0]
                if s is not None:
                    s.point(me)

    return prof


def _run_prog(box, progs, n, t, x, v):
    import sys

    if n.startswith("fine_"):
        sys.setprofile(_fine_hook(box, t))
        try:
            return progs[n](t, x, v)
        finally:
            sys.setprofile(None)
    if n.startswith("shared_"):
        sys.setprofile(_lib_hook(box, t))
        try:
            return progs[n](t, x, v)
        finally:
            sys.setprofile(None)
    return progs[n](t, x, v)


def op_level_probe(seed=0, max_schedules=1500):
    """returns list of result dicts (one per program pair)"""
    import itertools
    import random
    import numpy as onp

    warnings.filterwarnings("ignore")
    box, progs = op_programs()
    state0 = (list(warnings.filters), dict(__import__("numpy").geterr()))
    rs = onp.random.RandomState(seed + 3)
    inputs = {}
    for t in (0, 1):
        for n in progs:
            inputs[(t, n)] = (rs.permutation(4) * 0.7 + rs.rand(4) * 0.1 + t, rs.randn(4))

    class Count:
        def __init__(self):
            self.n = 0

        def point(self, me):
            self.n += 1

    out = []
    names = sorted(progs)
    pairs = [(a, b) for a in names for b in names if a <= b and (a.startswith("fine_") == b.startswith("fine_"))]
    rng = random.Random(seed)
    for a, b in pairs:
        solo, counts = [], []
        for t, n in ((0, a), (1, b)):
            c = Count()
            box[0] = c
            x, v = inputs[(t, n)]
            solo.append(onp.array(_run_prog(box, progs, n, t, x, v)))
            counts.append(c.n)
        box[0] = None
        n0, n1 = counts
        # all interleavings of the yield points of the two threads (a thread's last segment is empty by construction)
        total = n0 + n1
        import math

        ncomb = math.comb(total, n0)
        if ncomb <= max_schedules:
            combos = list(itertools.combinations(range(total), n0))
        else:
            # too many interleavings to enumerate: seeded random ones, half of them 'bursty' (long runs of one thread, the
            # pre-emption pattern that exposes torn updates of shared state)
            combos = []
            cap = min(max_schedules, 60 if total > 60 else max_schedules)
            for q in range(cap):
                if q % 2 == 0:
                    combos.append(tuple(sorted(rng.sample(range(total), n0))))
                else:
                    order, left = [], [n0, n1]
                    t = rng.randint(0, 1)
                    while left[0] or left[1]:
                        if not left[t]:
                            t = 1 - t
                        run_ = min(left[t], rng.randint(1, max(1, (n0 + n1) // 6)))
                        order.extend([t] * run_)
                        left[t] -= run_
                        t = 1 - t
                    combos.append(tuple(i for i, o in enumerate(order) if o == 0))
        bad = None
        nrun = 0
        def run_sched(order, join_s):
            sched = Sched(order, {0: n0, 1: n1})
            box[0] = sched
            res = {}
            errs = {}

            def worker(t, n):
                try:
                    sched.start(t)
                    x, v = inputs[(t, n)]
                    res[t] = onp.array(_run_prog(box, progs, n, t, x, v))
                except BaseException as e:  # noqa
                    errs[t] = "%s: %s" % (type(e).__name__, e)
                    with sched.cv:
                        sched.dead = True
                        sched.cv.notify_all()
                finally:
                    sched.finish(t)

            ths = [threading.Thread(target=worker, args=(0, a), daemon=True), threading.Thread(target=worker, args=(1, b), daemon=True)]
            for th in ths:
                th.start()
            for th in ths:
                th.join(join_s)
            hung = any(th.is_alive() for th in ths)
            box[0] = None
            ok = not hung and not errs and all(t in res and onp.shape(res[t]) == onp.shape(solo[t]) and onp.allclose(res[t], solo[t], rtol=1e-12, atol=1e-12) for t in (0, 1))
            return ok, hung, errs, res

        for pos0 in combos:
            order = [1] * total
            for p in pos0:
                order[p] = 0
            ok, hung, errs, res = run_sched(order, 30)
            nrun += 1
            if not ok:
                # the scheduler is deterministic: genuine interference reproduces on every re-run of the same schedule; a
                # thread that merely did not get its turn in time on a loaded machine does not (longer waits on the re-runs)
                again = [run_sched(order, 120) for _ in range(2)]
                if all((not o) and (not h) for o, h, _, _ in again):
                    ok2, hung2, errs, res = again[-1]
                    bad = {"schedule": order, "errors": errs, "scheduled": {t: (res[t].tolist() if t in res else None) for t in (0, 1)}, "solo": [s_.tolist() for s_ in solo]}
                    break
        out.append({"programs": [a, b], "yield_points": counts, "schedules_run": nrun, "exhaustive": ncomb <= max_schedules and nrun == ncomb, "bad": bad})
    state1 = (list(warnings.filters), dict(__import__("numpy").geterr()))
    if state1 != state0:
        out.append({"programs": ["<global state>", "<global state>"], "yield_points": [0, 0], "schedules_run": 1, "exhaustive": False,
                    "bad": {"schedule": [], "errors": {0: "interpreter-global state changed across the concurrent runs: warnings.filters %d -> %d entries (first: %r), np.geterr %r -> %r"
                                                        % (len(state0[0]), len(state1[0]), state1[0][:1], state0[1], state1[1])}, "scheduled": {}, "solo": []}})
        warnings.filters[:] = state0[0]
    return out
