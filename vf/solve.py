"""Discharging queries: z3 first, cvc5 (python wheel) on unknown.  Verdicts: 'unsat', 'sat', 'unknown'."""
import time

import z3

from .sym import Fr

STATS = {"queries": 0, "unsat": 0, "sat": 0, "unknown": 0, "time": 0.0, "cvc5_calls": 0, "cvc5_decided": 0,
         "z3_errors": 0}

try:
    import cvc5  # noqa
    HAVE_CVC5 = True
except Exception:  # pragma: no cover
    HAVE_CVC5 = False


def _model_dict(m):
    out = {}
    for d in m.decls():
        if d.arity() != 0:
            continue
        v = m[d]
        try:
            if z3.is_rational_value(v):
                out[d.name()] = Fr(v.numerator_as_long(), v.denominator_as_long())
            elif z3.is_int_value(v):
                out[d.name()] = Fr(v.as_long())
            elif z3.is_algebraic_value(v):
                a = v.approx(20)
                out[d.name()] = Fr(a.numerator_as_long(), a.denominator_as_long())
        except Exception:
            pass
    return out


def check(assertions, timeout_ms=10000, use_cvc5=True, want_model=True):
    """returns (verdict, model or None, info)"""
    t0 = time.time()
    STATS["queries"] += 1
    s = z3.Solver()
    s.set("timeout", int(timeout_ms))
    for a in assertions:
        if a is True:
            continue
        if a is False:
            STATS["unsat"] += 1
            return "unsat", None, "trivial"
        s.add(a)
    try:
        r = str(s.check())
    except z3.Z3Exception:
        STATS["z3_errors"] += 1
        r = "unknown"
    info = "z3"
    model = None
    if r == "sat" and want_model:
        try:
            model = _model_dict(s.model())
        except z3.Z3Exception:
            model = {}
    if r == "unknown" and use_cvc5 and HAVE_CVC5:
        STATS["cvc5_calls"] += 1
        r2, model2 = cvc5_check(s.to_smt2(), timeout_ms)
        if r2 in ("sat", "unsat"):
            STATS["cvc5_decided"] += 1
            r, model, info = r2, model2, "cvc5"
    STATS[r] += 1
    STATS["time"] += time.time() - t0
    return r, model, info


def cvc5_check(smt2_text, timeout_ms=10000):
    """cvc5 (python wheel) in a subprocess with a hard kill: its in-process time limit is not reliable on
    non-linear real arithmetic"""
    import json
    import os
    import subprocess
    import sys
    import tempfile

    text = "\n".join(l for l in smt2_text.splitlines() if not l.startswith("(set-info") and not l.startswith("(set-logic")
                     and not l.startswith("(check-sat") and not l.startswith("(exit"))
    fd, path = tempfile.mkstemp(suffix=".smt2", prefix="vf_cvc5_")
    try:
        with os.fdopen(fd, "w") as f:
            f.write(text)
        try:
            p = subprocess.run([sys.executable, "-m", "vf.cvc5_run", path, str(int(timeout_ms))], capture_output=True,
                               text=True, timeout=timeout_ms / 1000.0 + 5, cwd=os.path.dirname(os.path.dirname(__file__)))
        except subprocess.TimeoutExpired:
            return "unknown", None
        for line in p.stdout.splitlines():
            if line.startswith("RESULT "):
                d = json.loads(line[7:])
                model = {k: Fr(v) for k, v in d.get("model", {}).items()} if d["verdict"] == "sat" else None
                return d["verdict"], model
        return "unknown", None
    finally:
        try:
            os.unlink(path)
        except OSError:
            pass


def both(assertions, timeout_ms=10000):
    """solver diff: run z3 and cvc5 independently; returns (z3 verdict, cvc5 verdict)"""
    s = z3.Solver()
    s.set("timeout", int(timeout_ms))
    for a in assertions:
        if a is True:
            continue
        s.add(a)
    rz = str(s.check())
    rc = cvc5_check(s.to_smt2(), timeout_ms)[0] if HAVE_CVC5 else "unknown"
    return rz, rc
