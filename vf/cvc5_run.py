"""subprocess helper: python -m vf.cvc5_run <file.smt2> <timeout_ms>  ->  RESULT {json}"""
import json
import sys


def main():
    import cvc5

    path, tmo = sys.argv[1], sys.argv[2]
    slv = cvc5.Solver()
    slv.setOption("tlimit-per", tmo)
    slv.setOption("produce-models", "true")
    slv.setLogic("QF_NRA")
    parser = cvc5.InputParser(slv)
    parser.setFileInput(cvc5.InputLanguage.SMT_LIB_2_6, path)
    sm = parser.getSymbolManager()
    while True:
        cmd = parser.nextCommand()
        if cmd.isNull():
            break
        cmd.invoke(slv, sm)
    res = slv.checkSat()
    out = {"verdict": "unknown"}
    if res.isUnsat():
        out["verdict"] = "unsat"
    elif res.isSat():
        out["verdict"] = "sat"
        model = {}
        try:
            for t in sm.getDeclaredTerms():
                v = slv.getValue(t)
                if v.isRealValue():
                    model[str(t)] = str(v.getRealValue())
        except Exception:
            pass
        out["model"] = model
    print("RESULT " + json.dumps(out))


if __name__ == "__main__":
    main()
