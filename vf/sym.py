"""Engine A core: symbolic scalars for NumPy object arrays + re-execution (forking) executor.

S   real scalar = truncated polynomial in up to two nilpotent infinitesimals (eps1, eps2), every
    coefficient a term (exact Fraction constant or z3 Real expression).  Running NumPy's own primal
    on arrays of S yields value and (one-sided) directional derivatives -> the oracle.
CS  complex scalar (re: S, im: S).
CTX executor: comparisons on symbolic values call CTX.branch, the harness body is re-executed once
    per feasible outcome (path); per path the path condition, assumptions (domain / generic position)
    and ground axioms for abstracted transcendental functions are collected.
"""
import fractions
import math
import time

import numpy as onp
import z3

Fr = fractions.Fraction


class Infeasible(BaseException):
    """current path is infeasible (BaseException: must not be swallowed by code under test)"""


class PathLimit(BaseException):
    """path bound exceeded"""


class Unsupported(BaseException):
    """Harness limitation (not a property verdict)."""


# ----------------------------------------------------------------------------------------------
# terms: Fraction constants or z3 Real expressions, with constant folding


def is_c(t):
    return type(t) is Fr


def C(x):
    if type(x) is Fr:
        return x
    if isinstance(x, (bool, onp.bool_)):
        return Fr(int(x))
    if isinstance(x, (int, onp.integer)):
        return Fr(int(x))
    if isinstance(x, (float, onp.floating)):
        f = float(x)
        r = _FC.get(f)
        if r is not None:
            return r
        if math.isnan(f) or math.isinf(f):
            raise Unsupported("non-finite constant %r" % (x,))
        r = Fr(f)
        if r.denominator > 4096:
            # reals abstraction: a float that is the rounding of a simple rational (1/3, 0.1, ...) denotes that
            # rational; anything further than 1e-13 relative from a denominator<=10^4 rational stays exact.
            s_ = r.limit_denominator(10000)
            if s_ != 0 and abs(s_ - r) <= abs(r) * Fr(1, 10**13):
                r = s_
        if len(_FC) < 50000:
            _FC[f] = r
        return r
    raise TypeError(type(x))


_FC = {}


_RV = {}


def toz(t):
    if type(t) is Fr:
        r = _RV.get(t)
        if r is None:
            r = z3.RealVal(str(t))
            if len(_RV) < 20000:
                _RV[t] = r
        return r
    return t


def t_add(a, b):
    if type(a) is Fr:
        if type(b) is Fr:
            return a + b
        if a == 0:
            return b
        return toz(a) + b
    if type(b) is Fr:
        if b == 0:
            return a
        return a + toz(b)
    return a + b


def t_neg(a):
    if type(a) is Fr:
        return -a
    return -a


def t_sub(a, b):
    if type(b) is Fr:
        if type(a) is Fr:
            return a - b
        if b == 0:
            return a
        return a - toz(b)
    if type(a) is Fr:
        if a == 0:
            return -b
        return toz(a) - b
    if a.eq(b):
        return Fr(0)
    return a - b


def t_mul(a, b):
    if type(a) is Fr:
        if type(b) is Fr:
            return a * b
        if a == 0:
            return Fr(0)
        if a == 1:
            return b
        if a == -1:
            return -b
        return toz(a) * b
    if type(b) is Fr:
        if b == 0:
            return Fr(0)
        if b == 1:
            return a
        if b == -1:
            return -a
        return a * toz(b)
    return a * b


def t_div(a, b):
    """a / b ; the caller is responsible for the assumption b != 0."""
    if type(b) is Fr:
        if b == 0:
            raise Unsupported("division by constant zero")
        if type(a) is Fr:
            return a / b
        return t_mul(a, 1 / b)
    if type(a) is Fr and a == 0:
        return Fr(0)
    return toz(a) / b


def t_ipow(a, n):
    out = Fr(1)
    for _ in range(n):
        out = t_mul(out, a)
    return out


def t_rel(op, a, b):
    """relation between terms -> Python bool or z3 BoolRef"""
    if type(a) is Fr and type(b) is Fr:
        return {"==": a == b, "!=": a != b, "<": a < b, "<=": a <= b, ">": a > b, ">=": a >= b}[op]
    if type(a) is not Fr and type(b) is not Fr and a.eq(b):
        return op in ("==", "<=", ">=")
    za, zb = toz(a), toz(b)
    if op == "==":
        return za == zb
    if op == "!=":
        return za != zb
    if op == "<":
        return za < zb
    if op == "<=":
        return za <= zb
    if op == ">":
        return za > zb
    return za >= zb


# ----------------------------------------------------------------------------------------------
# executor


class Stats:
    def __init__(self):
        self.feas_queries = 0
        self.feas_unknown = 0
        self.feas_sampled = 0
        self.feas_time = 0.0


class Ctx:
    def __init__(self):
        self.mode = "generic"  # "generic": unforced ties are assumed away ; "lex": full lexicographic forking
        self.feas_timeout_ms = 2000
        self.feas_rlimit = 3000000
        self.stats = Stats()
        self.concrete_env = None  # when set: concolic run, branches follow this float environment
        self.use_sampling = False
        import random as _random

        self._rng = _random.Random(12345)
        self.reset_path([])
        self.pending = []

    # -- per path state
    def reset_path(self, decisions):
        self.pc = []
        self.assume = []
        self.axioms = []
        self.decisions = list(decisions)
        self.pos = 0
        self.ack = {}
        self.ack_list = []
        self.ack_keep = []
        self.notes = set()
        self.abstracted = False
        self.strict_div = False
        self.div_obligations = []
        self.samples = []
        self._solver = None
        self._flushed = (0, 0, 0)
        self.nvars = 0

    def add_assume(self, cond, note=None):
        if cond is True:
            return
        if note == "denominators are non-zero" and self.strict_div:
            # kink analysis: finiteness must be PROVED from the path condition, not assumed
            self.div_obligations.append(cond)
            return
        if cond is False:
            raise Infeasible()
        self.assume.append(cond)
        if note:
            self.notes.add(note)

    def add_axiom(self, cond):
        if cond is True:
            return
        self.axioms.append(cond)

    def _sync(self):
        if self._solver is None:
            self._solver = z3.Solver()
            self._solver.set("timeout", self.feas_timeout_ms)
            self._solver.set("rlimit", self.feas_rlimit)
            self._flushed = (0, 0, 0)
        a, b, c = self._flushed
        s = self._solver
        for x in self.assume[a:]:
            s.add(x)
        for x in self.axioms[b:]:
            s.add(x)
        for x in self.pc[c:]:
            s.add(x)
        self._flushed = (len(self.assume), len(self.axioms), len(self.pc))
        return s

    def sample_witness(self, cond):
        """cheap sound witness of feasibility: a concrete point (with the TRUE values of the abstracted function
        applications) that robustly satisfies assumptions, path condition and cond.  Never used to conclude
        infeasibility."""
        tries = 0
        i = 0
        while True:
            if i >= len(self.samples):
                if tries >= 8:
                    return False
                self.samples.append(LazyEnv(self, self._rng))
                tries += 1
            env = self.samples[i]
            ok = True
            try:
                while ok and env.na < len(self.assume):
                    ok = robust_bool(self.assume[env.na], env) is True
                    env.na += 1
                while ok and env.np < len(self.pc):
                    ok = robust_bool(self.pc[env.np], env) is True
                    env.np += 1
                if ok and robust_bool(cond, env) is True:
                    return True
            except (Unsupported, KeyError, ZeroDivisionError, OverflowError, ValueError, TypeError):
                ok = False
            if not ok:
                self.samples.pop(i)
                continue
            i += 1
            if i >= 4 and i >= len(self.samples):
                return False

    def feasible(self, cond):
        if self.use_sampling and self.sample_witness(cond):
            self.stats.feas_sampled += 1
            return True
        s = self._sync()
        t0 = time.time()
        s.push()
        s.add(cond)
        r = str(s.check())
        s.pop()
        self.stats.feas_queries += 1
        self.stats.feas_time += time.time() - t0
        if r == "unknown":
            self.stats.feas_unknown += 1
        return r != "unsat"

    def branch(self, cond):
        """decide a symbolic condition; forks (by re-execution) if both outcomes are feasible"""
        if cond is True or cond is False:
            return cond
        if isinstance(cond, (bool, onp.bool_)):
            return bool(cond)
        cond = z3.simplify(cond)
        if z3.is_true(cond):
            return True
        if z3.is_false(cond):
            return False
        if self.concrete_env is not None:
            d = bool(evalf_bool(cond, self.concrete_env))
            self.pc.append(cond if d else z3.Not(cond))
            return d
        if self.pos < len(self.decisions):
            d = self.decisions[self.pos]
            self.pos += 1
            self.pc.append(cond if d else z3.Not(cond))
            return d
        t = self.feasible(cond)
        f = self.feasible(z3.Not(cond))
        if t and f:
            self.pending.append(self.decisions[: self.pos] + [False])
            self.decisions.append(True)
            self.pos += 1
            self.pc.append(cond)
            return True
        if t:
            self.pc.append(cond)  # implied; kept for readability of the PC (harmless)
            return True
        if f:
            self.pc.append(z3.Not(cond))
            return False
        raise Infeasible()

    def tie(self, a, b):
        """is a == b (terms)?  lex mode: fork.  generic mode: True only if forced, else assume a != b."""
        c = t_rel("==", a, b)
        if c is True or c is False:
            return c
        if self.mode == "lex":
            return self.branch(c)
        c = z3.simplify(c)
        if z3.is_true(c):
            return True
        if z3.is_false(c):
            return False
        if self.concrete_env is not None:
            return bool(evalf_bool(c, self.concrete_env))
        if not self.feasible(z3.Not(c)):
            return True
        self.add_assume(z3.Not(c), "generic position: compared values differ")
        return False

    # -- exploration
    def explore(self, body, max_paths=400):
        """run body() once per feasible path.  yields Path objects."""
        self.pending = [[]]
        out = []
        while self.pending:
            dec = self.pending.pop()
            self.reset_path(dec)
            try:
                res = body()
                err = None
            except Infeasible:
                continue
            except PathLimit:
                raise
            except Unsupported:
                raise
            except Exception as e:  # an exception raised by the code under test on this path
                res = None
                err = e
            out.append(Path(self, res, err))
            if len(out) + len(self.pending) > max_paths:
                raise PathLimit("more than %d paths" % max_paths)
        return out


class Path:
    def __init__(self, ctx, res, err):
        self.pc = list(ctx.pc)
        self.assume = list(ctx.assume)
        self.axioms = list(ctx.axioms)
        self.ack_list = list(ctx.ack_list)
        self.notes = set(ctx.notes)
        self.abstracted = ctx.abstracted
        self.div_obligations = list(ctx.div_obligations)
        self.res = res
        self.err = err
        self.decisions = list(ctx.decisions[: ctx.pos])

    def antecedent(self):
        return self.assume + self.axioms + self.pc


CTX = Ctx()

# ----------------------------------------------------------------------------------------------
# abstract (Ackermannised) functions


def ack(name, args, evalfn):
    """fresh real constant standing for name(args); same (simplified) args -> same constant"""
    # the simplified arguments are computed ONCE and kept alive for the lifetime of the table: z3 AST ids are only unique
    # among live nodes, so an id taken from a temporary could later be reused by a different term (a false hit would
    # identify two different applications)
    simp = [(a if type(a) is Fr else z3.simplify(a)) for a in args]
    key = (name,) + tuple((a if type(a) is Fr else a.get_id()) for a in simp)
    ent = CTX.ack.get(key)
    if ent is None:
        c = z3.Real("%s!%d" % (name, len(CTX.ack_list)))
        ent = c
        CTX.ack[key] = c
        CTX.ack_list.append((c, name, tuple(args), evalfn))
        CTX.ack_keep.append(simp)
        return c, True
    return ent, False


# name -> (value-level constructor, derivative on S)
def _uf1(name, evalfn, dom=None, ax=None, transcendental=True):
    def val(t):
        if type(t) is Fr:
            # constant argument: evaluate in floating point, exactly as NumPy would on a float
            try:
                return C(evalfn(float(t)))
            except (ValueError, OverflowError):
                raise Unsupported("%s(%s) undefined" % (name, t))
        c, new = ack(name, (t,), evalfn)
        if new:
            if transcendental:
                CTX.abstracted = True
            if dom is not None:
                CTX.add_assume(dom(t), "domain of %s" % name)
            if ax is not None:
                for a in ax(t, c):
                    CTX.add_axiom(a)
        return c

    return val


def _sin_ax(t, c):
    co, _ = ack("cos", (t,), math.cos)
    return [c * c + co * co == 1]


def _cos_ax(t, c):
    si, _ = ack("sin", (t,), math.sin)
    return [c * c + si * si == 1]


def _sinh_ax(t, c):
    ch, new = ack("cosh", (t,), math.cosh)
    return [ch * ch - c * c == 1, ch >= 1]


def _cosh_ax(t, c):
    sh, new = ack("sinh", (t,), math.sinh)
    return [c * c - sh * sh == 1, c >= 1]


_V_EXP_ATOM = _uf1("exp", math.exp, ax=lambda t, c: [c > 0])


def _num(t):
    if z3.is_rational_value(t):
        return Fr(t.numerator_as_long(), t.denominator_as_long())
    if z3.is_int_value(t):
        return Fr(t.as_long())
    return None


def lin_terms(t):
    """decompose a simplified z3 term into (constant, [(coef, atom)])  with t == constant + sum coef*atom"""
    t = z3.simplify(t, som=True)
    c0 = Fr(0)
    out = []
    parts = t.children() if t.decl().kind() == z3.Z3_OP_ADD else [t]
    for p in parts:
        n = _num(p)
        if n is not None:
            c0 += n
            continue
        if p.decl().kind() == z3.Z3_OP_MUL:
            ch = p.children()
            n = _num(ch[0])
            if n is not None:
                rest = ch[1:]
                atom = rest[0] if len(rest) == 1 else z3.simplify(z3.Product(*rest) if hasattr(z3, "Product") else _prod(rest))
                out.append((n, atom))
                continue
        if p.decl().kind() == z3.Z3_OP_UMINUS:
            out.append((Fr(-1), p.children()[0]))
            continue
        out.append((Fr(1), p))
    return c0, out


def _prod(ts):
    r = ts[0]
    for x in ts[1:]:
        r = r * x
    return r


def V_EXP(t):
    """exp with the exact functional equations built in: exp(c0 + sum k_i a_i) = exp(c0) * prod E(a_i)^k_i for
    integer k_i, and exp(k*log(s)) = s^k.  (sound: every rewrite is a true identity of exp / log)"""
    if type(t) is Fr:
        return _V_EXP_ATOM(t)
    c0, terms = lin_terms(t)
    if not terms:
        return _V_EXP_ATOM(c0)
    if len(terms) == 1 and terms[0][0] == 1 and c0 == 0:
        a = terms[0][1]
        lg = _ack_arg(a, "log")
        if lg is not None:
            return lg
        return _V_EXP_ATOM(a)
    num = C(math.exp(float(c0))) if c0 != 0 else Fr(1)
    den = Fr(1)
    for k, a in terms:
        lg = _ack_arg(a, "log")
        if k.denominator == 1 and abs(k) <= 8:
            base = lg if lg is not None else _V_EXP_ATOM(a)
            kk = int(k)
        else:
            base = _V_EXP_ATOM(z3.simplify(toz(k) * a))
            kk = 1
        if kk >= 0:
            num = t_mul(num, t_ipow(base, kk))
        else:
            den = t_mul(den, t_ipow(base, -kk))
    if type(den) is Fr and den == 1:
        return num
    return t_div(num, den)


def _ack_arg(a, name):
    """if term a is the Ackermann constant of name(arg) return arg"""
    if not (z3.is_const(a) and a.decl().kind() == z3.Z3_OP_UNINTERPRETED):
        return None
    nm = a.decl().name()
    if not nm.startswith(name + "!"):
        return None
    for (c, n, args, _) in CTX.ack_list:
        if c.eq(a):
            return args[0]
    return None
V_LOG = _uf1("log", math.log, dom=lambda t: t > 0)
V_SIN = _uf1("sin", math.sin, ax=_sin_ax)
V_COS = _uf1("cos", math.cos, ax=_cos_ax)
V_SINH = _uf1("sinh", math.sinh, ax=_sinh_ax)
V_COSH = _uf1("cosh", math.cosh, ax=_cosh_ax)
V_ARCSIN = _uf1("arcsin", math.asin, dom=lambda t: z3.And(t > -1, t < 1))
V_ARCCOS = _uf1("arccos", math.acos, dom=lambda t: z3.And(t > -1, t < 1))
V_ARCTAN = _uf1("arctan", math.atan)
V_ARCSINH = _uf1("arcsinh", math.asinh)
V_ARCCOSH = _uf1("arccosh", math.acosh, dom=lambda t: t > 1)
V_ARCTANH = _uf1("arctanh", math.atanh, dom=lambda t: z3.And(t > -1, t < 1))
# piecewise-constant functions: regular-point assumption = strictly inside a piece (derivative 0 there)
V_FLOOR = _uf1("floor", math.floor, ax=lambda t, c: [c < t, t < c + 1])
V_CEIL = _uf1("ceil", math.ceil, ax=lambda t, c: [c > t, t > c - 1])
V_RINT = _uf1("rint", lambda x: float(onp.rint(x)), ax=lambda t, c: [c - t < Fr(1, 2), t - c < Fr(1, 2)])
V_TRUNC = _uf1("trunc", math.trunc, ax=lambda t, c: [c * c < t * t + 1, t * c >= 0, z3.Or(c != t, t == 0)])


def v_root(p, q, t):
    """t**(p/q) for t > 0, modelled exactly: r > 0, r**q == t**p  (real closed field)"""
    if type(t) is Fr:
        if t == 0 and p > 0:
            return Fr(0)
        if t <= 0:
            raise Unsupported("root of non-positive constant")
        # exact rational root if there is one, else the float value NumPy would compute
        num = t.numerator ** abs(p)
        den = t.denominator ** abs(p)
        rn = round(num ** (1.0 / q))
        rd = round(den ** (1.0 / q))
        if rn**q == num and rd**q == den:
            r = Fr(rn, rd)
            return r if p >= 0 else 1 / r
        return C(float(t) ** (p / q))
    c, new = ack("root%d_%d" % (p, q), (t,), lambda x: x ** (p / q))
    if new:
        CTX.add_assume(t > 0, "domain of x**(%d/%d): x > 0" % (p, q))
        if p >= 0:
            CTX.add_axiom(t_ipow(c, q) == t_ipow(t, p))
        else:
            CTX.add_axiom(t_ipow(c, q) * t_ipow(t, -p) == 1)
        CTX.add_axiom(c > 0)
    return c


def alg_sqrt(n):
    """exact algebraic constant sqrt(n) for a non-square positive integer n: a per-path constant r with r*r == n, r > 0"""
    c, new = ack("sqrtc", (Fr(n),), lambda x: x ** 0.5)
    if new:
        CTX.add_axiom(c * c == n)
        CTX.add_axiom(c > 0)
    return c


def v_pow(b, e):
    """b**e with symbolic exponent (b > 0): abstract, with axioms linking integer exponent shifts"""
    if type(b) is Fr and type(e) is Fr:
        return C(float(b) ** float(e))
    c, new = ack("pow", (b, e), lambda x, y: x**y)
    if new:
        CTX.abstracted = True
        if type(b) is Fr:
            if b <= 0:
                raise Unsupported("non-positive constant base with symbolic exponent")
        else:
            CTX.add_assume(b > 0, "domain of x**y with symbolic y: x > 0")
        CTX.add_axiom(c > 0)
        bs = b if type(b) is Fr else z3.simplify(b)
        for (c2, name, args, _) in CTX.ack_list[:-1]:
            if name != "pow":
                continue
            b2, e2 = args
            same = (b2 == bs) if type(bs) is Fr and type(b2) is Fr else (
                type(bs) is not Fr and type(b2) is not Fr and z3.simplify(b2).eq(bs))
            if not same:
                continue
            dif = t_sub(e, e2)
            dif = dif if type(dif) is Fr else z3.simplify(dif)
            k = None
            if type(dif) is Fr:
                k = dif
            elif z3.is_rational_value(dif):
                k = Fr(dif.numerator_as_long(), dif.denominator_as_long())
            if k is not None and k.denominator == 1 and abs(k) <= 6:
                k = int(k)
                if k >= 0:
                    CTX.add_axiom(c == c2 * toz(t_ipow(b, k)))
                else:
                    CTX.add_axiom(c * toz(t_ipow(b, -k)) == c2)
    return c


def v_arctan2(y, x):
    if type(y) is Fr and type(x) is Fr:
        return C(math.atan2(float(y), float(x)))
    c, new = ack("arctan2", (y, x), math.atan2)
    if new:
        CTX.abstracted = True
        CTX.add_assume(toz(x) * toz(x) + toz(y) * toz(y) > 0, "domain of arctan2: (x,y) != 0")
    return c


# ----------------------------------------------------------------------------------------------
# the scalar

_NUM = (int, float, bool, onp.integer, onp.floating, onp.bool_)
LN2 = C(math.log(2.0))
LN10 = C(math.log(10.0))
PI = C(math.pi)


class S:
    """real symbolic scalar: sum over masks m of c[m] * prod(eps_i for bit i in m), eps_i**2 = 0"""

    __slots__ = ("c",)

    def __init__(self, v=0, d=None):
        if type(v) is dict:
            self.c = v
        else:
            self.c = {0: v if (type(v) is Fr or isinstance(v, z3.ExprRef)) else C(v)}
            if d is not None:
                for m, t in d.items():
                    t = t if (type(t) is Fr or isinstance(t, z3.ExprRef)) else C(t)
                    if not (type(t) is Fr and t == 0):
                        self.c[m] = t

    # -- construction / access
    @staticmethod
    def L(o):
        if type(o) is S:
            return o
        if isinstance(o, _NUM) or type(o) is Fr:
            return S(C(o))
        return NotImplemented

    @property
    def v(self):
        return self.c[0]

    def co(self, m):
        return self.c.get(m, Fr(0))

    def is_const(self):
        return len(self.c) == 1 and type(self.c[0]) is Fr

    def primal(self):
        return S(self.c[0])

    def _top(self):
        e = 0
        for m in self.c:
            if m:
                hb = 1 << (m.bit_length() - 1)
                if hb > e:
                    e = hb
        return e

    def _split(self, e):
        a = {m: t for m, t in self.c.items() if not (m & e)}
        b = {m ^ e: t for m, t in self.c.items() if (m & e)}
        if 0 not in a:
            a[0] = Fr(0)
        if 0 not in b:
            b[0] = Fr(0)
        return S(a), S(b)

    def _shift(self, e):
        out = {0: Fr(0)}
        for m, t in self.c.items():
            if type(t) is Fr and t == 0:
                continue
            out[m | e] = t
        return S(out)

    def _lift1(self, val, der):
        e = self._top()
        if e == 0:
            return S(val(self.c[0]))
        a, b = self._split(e)
        fa = a._lift1(val, der)
        return fa + (der(a, fa) * b)._shift(e)

    # -- arithmetic
    def __add__(a, b):
        b = S.L(b)
        if b is NotImplemented:
            return b
        out = dict(a.c)
        for m, t in b.c.items():
            out[m] = t_add(out[m], t) if m in out else t
        return S(_clean(out))

    __radd__ = __add__

    def __neg__(a):
        return S({m: t_neg(t) for m, t in a.c.items()})

    def __pos__(a):
        return a

    def __sub__(a, b):
        b = S.L(b)
        if b is NotImplemented:
            return b
        out = dict(a.c)
        for m, t in b.c.items():
            out[m] = t_sub(out[m], t) if m in out else t_neg(t)
        return S(_clean(out))

    def __rsub__(a, b):
        b = S.L(b)
        if b is NotImplemented:
            return b
        return b.__sub__(a)

    def __mul__(a, b):
        b = S.L(b)
        if b is NotImplemented:
            return b
        out = {0: Fr(0)}
        for ma, ta in a.c.items():
            for mb, tb in b.c.items():
                if ma & mb:
                    continue
                p = t_mul(ta, tb)
                m = ma | mb
                out[m] = t_add(out[m], p) if m in out else p
        return S(_clean(out))

    __rmul__ = __mul__

    def recip(a):
        def val(t):
            if type(t) is not Fr:
                CTX.add_assume(t != 0, "denominators are non-zero")
            return t_div(Fr(1), t)

        return a._lift1(val, lambda x, fx: -(fx * fx))

    def __truediv__(a, b):
        b = S.L(b)
        if b is NotImplemented:
            return b
        if b.is_const():
            return a * S(t_div(Fr(1), b.c[0]))
        if len(a.c) == 1 and len(b.c) == 1:
            CTX.add_assume(t_rel("!=", b.c[0], Fr(0)), "denominators are non-zero")
            return S(t_div(a.c[0], b.c[0]))
        r = a * b.recip()
        # keep the primal coefficient syntactically identical to the plain quotient (same Ackermann keys)
        r.c[0] = t_div(a.c[0], b.c[0])
        return r

    def __rtruediv__(a, b):
        b = S.L(b)
        if b is NotImplemented:
            return b
        return b.__truediv__(a)

    def __floordiv__(a, b):
        return (a / b).floor()

    def __rfloordiv__(a, b):
        return (S.L(b) / a).floor()

    def __mod__(a, b):
        b = S.L(b)
        if b is NotImplemented:
            return b
        return a - b * (a / b).floor()

    def __rmod__(a, b):
        b = S.L(b)
        if b is NotImplemented:
            return b
        return b.__mod__(a)

    def __pow__(a, n):
        if type(n) is S:
            if n.is_const():
                n = n.c[0]
            else:
                return a._pow_sym(n)
        elif type(n) is CS:
            return NotImplemented
        elif isinstance(n, _NUM):
            n = C(n)
        else:
            return NotImplemented
        if n.denominator == 1:
            k = int(n)
            if k == 0:
                return S(Fr(1))
            if abs(k) > 12:
                raise Unsupported("integer power > 12")
            r = a
            for _ in range(abs(k) - 1):
                r = r * a
            return r if k > 0 else r.recip()
        fr = n.limit_denominator(12)
        if fr == n or abs(float(fr) - float(n)) < 1e-15:
            p, q = fr.numerator, fr.denominator
            return a._lift1(lambda t: v_root(p, q, t), lambda x, fx: fx * S(Fr(p, q)) / x)
        return a._pow_sym(S(n))

    def _pow_sym(a, n):
        # a**n, n symbolic (or irrational constant): abstract pow with partials
        return _lift2(a, n, v_pow, lambda x, y, f: y * f / x, lambda x, y, f: f * x.log())

    def __rpow__(a, b):
        if isinstance(b, _NUM):
            b = C(b)
            if b <= 0:
                raise Unsupported("non-positive base with symbolic exponent")
            if b == 1:
                return S(Fr(1)) + a * 0
            return (a * S(C(math.log(float(b))))).exp()
        return NotImplemented

    # -- elementary functions (NumPy's object loops call these by name)
    def exp(a):
        return a._lift1(V_EXP, lambda x, fx: fx)

    def log(a):
        return a._lift1(V_LOG, lambda x, fx: x.recip())

    def exp2(a):
        return (a * S(LN2)).exp()

    def expm1(a):
        return a.exp() - 1

    def log2(a):
        return a.log() / S(LN2)

    def log10(a):
        return a.log() / S(LN10)

    def log1p(a):
        return (a + 1).log()

    def sin(a):
        return a._lift1(V_SIN, lambda x, fx: x.cos())

    def cos(a):
        return a._lift1(V_COS, lambda x, fx: -x.sin())

    def tan(a):
        return a.sin() / a.cos()

    def sinh(a):
        e = a.exp()
        return (e - e.recip()) * S(Fr(1, 2))

    def cosh(a):
        e = a.exp()
        return (e + e.recip()) * S(Fr(1, 2))

    def tanh(a):
        return a.sinh() / a.cosh()

    def arcsin(a):
        return a._lift1(V_ARCSIN, lambda x, fx: (1 - x * x).sqrt().recip())

    def arccos(a):
        return a._lift1(V_ARCCOS, lambda x, fx: -((1 - x * x).sqrt().recip()))

    def arctan(a):
        return a._lift1(V_ARCTAN, lambda x, fx: (1 + x * x).recip())

    def arcsinh(a):
        return a._lift1(V_ARCSINH, lambda x, fx: (x * x + 1).sqrt().recip())

    def arccosh(a):
        return a._lift1(V_ARCCOSH, lambda x, fx: (x * x - 1).sqrt().recip())

    def arctanh(a):
        return a._lift1(V_ARCTANH, lambda x, fx: (1 - x * x).recip())

    def sqrt(a):
        return a ** Fr(1, 2)

    def cbrt(a):
        return a ** Fr(1, 3)

    def square(a):
        return a * a

    def reciprocal(a):
        return 1 / a

    def deg2rad(a):
        return a * S(PI / 180)

    radians = deg2rad

    def rad2deg(a):
        return a * S(180 / PI)

    degrees = rad2deg

    def arctan2(a, b):
        b = S.L(b)
        den = lambda y, x: (x * x + y * y)
        return _lift2(a, b, v_arctan2, lambda y, x, f: x / den(y, x), lambda y, x, f: -y / den(y, x))

    def hypot(a, b):
        b = S.L(b)
        return (a * a + b * b).sqrt()

    def conjugate(a):
        return a

    conj = conjugate

    @property
    def real(a):
        return a

    @property
    def imag(a):
        return S(Fr(0))

    # -- piecewise constant
    def _pc(a, val):
        return S(val(a.c[0]))

    def floor(a):
        return a._pc(V_FLOOR)

    def ceil(a):
        return a._pc(V_CEIL)

    def rint(a):
        return a._pc(V_RINT)

    def trunc(a):
        return a._pc(V_TRUNC)

    __floor__ = floor
    __ceil__ = ceil
    __trunc__ = trunc

    def __round__(a, n=None):
        return a.rint()

    # -- comparisons (lexicographic over v, eps1, eps2, eps1eps2 = order of x + t*d for small t>0)
    def _masks(a, b):
        return sorted(set(a.c) | set(b.c))

    def _cmp(a, b, op):
        b = S.L(b)
        if b is NotImplemented:
            return NotImplemented
        ms = a._masks(b)
        if CTX.mode == "generic":
            ms = [0]
        for i, m in enumerate(ms):
            ta, tb = a.co(m), b.co(m)
            last = i == len(ms) - 1
            if last and CTX.mode == "lex":
                return CTX.branch(t_rel(op, ta, tb))
            if CTX.tie(ta, tb):
                if last:
                    return op in ("<=", ">=")
                continue
            return CTX.branch(t_rel(op.rstrip("="), ta, tb))

    def __lt__(a, b):
        return a._cmp(b, "<")

    def __le__(a, b):
        return a._cmp(b, "<=")

    def __gt__(a, b):
        return a._cmp(b, ">")

    def __ge__(a, b):
        return a._cmp(b, ">=")

    def __getitem__(self, idx):
        # a 0-d pick of an object array is the entry itself; NumPy scalars accept (), ..., None and combinations
        a = onp.empty((), dtype=object)
        a[()] = self
        return a[idx]

    def __eq__(a, b):
        b = S.L(b)
        if b is NotImplemented:
            return NotImplemented
        ms = a._masks(b) if CTX.mode == "lex" else [0]
        for m in ms:
            if not CTX.tie(a.co(m), b.co(m)):
                return False
        return True

    def __ne__(a, b):
        r = a.__eq__(b)
        return r if r is NotImplemented else (not r)

    def __bool__(a):
        return a.__ne__(0)

    def __abs__(a):
        return a if a >= 0 else -a

    def __hash__(a):
        return id(a)

    def __float__(a):
        if a.is_const():
            return float(a.c[0])
        raise Unsupported("float() of a symbolic scalar")

    def __int__(a):
        if a.is_const() and a.c[0].denominator == 1:
            return int(a.c[0])
        raise Unsupported("int() of a symbolic scalar")

    __index__ = __int__

    def __repr__(a):
        def f(t):
            return str(t) if type(t) is Fr else str(z3.simplify(t))

        return "S(" + " | ".join("%s" % f(a.co(m)) for m in sorted(a.c)) + ")"


def _clean(d):
    out = {m: t for m, t in d.items() if m == 0 or not (type(t) is Fr and t == 0)}
    return out


def _lift2(a, b, val, da, db):
    """binary abstract function with S-valued partials da(x,y,f), db(x,y,f)"""
    e = max(a._top(), b._top())
    if e == 0:
        return S(val(a.c[0], b.c[0]))
    a0, a1 = a._split(e)
    b0, b1 = b._split(e)
    f = _lift2(a0, b0, val, da, db)
    lin = S(Fr(0))
    if not (len(a1.c) == 1 and type(a1.c[0]) is Fr and a1.c[0] == 0):
        lin = lin + da(a0, b0, f) * a1
    if not (len(b1.c) == 1 and type(b1.c[0]) is Fr and b1.c[0] == 0):
        lin = lin + db(a0, b0, f) * b1
    return f + lin._shift(e)


# ----------------------------------------------------------------------------------------------
# complex scalar


class CS:
    __slots__ = ("re", "im")

    def __init__(self, re, im=0):
        self.re = S.L(re)
        self.im = S.L(im)

    @staticmethod
    def L(o):
        if type(o) is CS:
            return o
        if type(o) is S:
            return CS(o, S(Fr(0)))
        if isinstance(o, (complex, onp.complexfloating)):
            return CS(S(C(o.real)), S(C(o.imag)))
        if isinstance(o, _NUM):
            return CS(S(C(o)), S(Fr(0)))
        return NotImplemented

    def __add__(a, b):
        b = CS.L(b)
        return b if b is NotImplemented else CS(a.re + b.re, a.im + b.im)

    __radd__ = __add__

    def __sub__(a, b):
        b = CS.L(b)
        return b if b is NotImplemented else CS(a.re - b.re, a.im - b.im)

    def __rsub__(a, b):
        b = CS.L(b)
        return b if b is NotImplemented else b.__sub__(a)

    def __mul__(a, b):
        b = CS.L(b)
        return b if b is NotImplemented else CS(a.re * b.re - a.im * b.im, a.re * b.im + a.im * b.re)

    __rmul__ = __mul__

    def __truediv__(a, b):
        b = CS.L(b)
        if b is NotImplemented:
            return b
        n = b.re * b.re + b.im * b.im
        c = a * b.conjugate()
        return CS(c.re / n, c.im / n)

    def __rtruediv__(a, b):
        b = CS.L(b)
        return b if b is NotImplemented else b.__truediv__(a)

    def __neg__(a):
        return CS(-a.re, -a.im)

    def __pos__(a):
        return a

    def __pow__(a, n):
        if type(n) is S and n.is_const():
            n = n.c[0]
        if isinstance(n, _NUM) or type(n) is Fr:
            n = C(n)
            if n.denominator == 1 and abs(n) <= 8:
                k = int(n)
                r = CS(S(Fr(1)), S(Fr(0)))
                for _ in range(abs(k)):
                    r = r * a
                return r if k >= 0 else CS(S(Fr(1))) / r
        raise Unsupported("complex power with non-integer exponent")

    def __rpow__(a, b):
        raise Unsupported("complex exponent")

    def conjugate(a):
        return CS(a.re, -a.im)

    conj = conjugate

    @property
    def real(a):
        return a.re

    @property
    def imag(a):
        return a.im

    def __abs__(a):
        return (a.re * a.re + a.im * a.im).sqrt()

    def exp(a):
        m = a.re.exp()
        return CS(m * a.im.cos(), m * a.im.sin())

    def square(a):
        return a * a

    def reciprocal(a):
        return 1 / a

    def sqrt(a):
        raise Unsupported("complex sqrt")

    def __getitem__(self, idx):
        # a 0-d pick of an object array is the entry itself; NumPy scalars accept (), ..., None and combinations
        a = onp.empty((), dtype=object)
        a[()] = self
        return a[idx]

    def __eq__(a, b):
        b = CS.L(b)
        if b is NotImplemented:
            return False
        return (a.re == b.re) and (a.im == b.im)

    def __ne__(a, b):
        return not a.__eq__(b)

    def __bool__(a):
        return a.__ne__(0)

    def __hash__(a):
        return id(a)

    def __complex__(a):
        return complex(float(a.re), float(a.im))

    def __repr__(a):
        return "CS(%r, %r)" % (a.re, a.im)


def _s_mixed(name):
    orig = getattr(S, name)

    def f(a, b):
        if type(b) is CS or isinstance(b, (complex, onp.complexfloating)):
            return getattr(CS(a, S(Fr(0))), name)(b)
        return orig(a, b)

    f.__name__ = name
    return f


for _n in ["__add__", "__radd__", "__sub__", "__rsub__", "__mul__", "__rmul__", "__truediv__", "__rtruediv__"]:
    setattr(S, _n, _s_mixed(_n))

# ----------------------------------------------------------------------------------------------
# arrays of symbols


def sym(name, eps=None):
    """eps: dict mask -> name prefix for that infinitesimal coefficient"""
    d = None
    if eps:
        d = {m: z3.Real("%s%s" % (p, name)) for m, p in eps.items()}
    return S(z3.Real(name), d)


def sym_array(name, shape, eps=None, complex_=False):
    shape = tuple(shape)
    if shape == () and not complex_:
        a = onp.empty((), dtype=object)
        a[()] = sym(name, eps)
        return a
    a = onp.empty(shape, dtype=object)
    for idx in onp.ndindex(*shape):
        sfx = name + "_" + "_".join(map(str, idx)) if idx else name
        if complex_:
            a[idx] = CS(sym(sfx + "r", eps), sym(sfx + "i", eps))
        else:
            a[idx] = sym(sfx, eps)
    return a


def leaves(a):
    """flatten array / scalar / nested container into list of scalar entries (S, CS or numbers)"""
    if isinstance(a, (S, CS)):
        return [a]
    if isinstance(a, dict):
        out = []
        for k in sorted(a, key=repr):
            out.extend(leaves(a[k]))
        return out
    if isinstance(a, (tuple, list)):
        out = []
        for x in a:
            out.extend(leaves(x))
        return out
    arr = onp.asarray(a)
    if arr.dtype == object:
        es = []
        for e in arr.ravel():
            if isinstance(e, onp.ndarray):
                es.extend(leaves(e))  # object arrays nested inside object arrays (0-d arrays as elements)
            else:
                es.append(e)
        if any(isinstance(e, (CS, complex, onp.complexfloating)) for e in es):
            # a complex object array: real entries (e.g. padding zeros) are complex numbers with zero imaginary part
            es = [e if isinstance(e, (CS, complex, onp.complexfloating)) else CS.L(e) for e in es]
        return es
    return [x for x in arr.ravel().tolist()]


def structure(a):
    """shape/kind/container structure descriptor"""
    if isinstance(a, dict):
        return ("dict", tuple((k, structure(a[k])) for k in sorted(a, key=repr)))
    if isinstance(a, tuple) and hasattr(a, "_fields"):
        return ("namedtuple", type(a).__name__, tuple(structure(x) for x in a))
    if isinstance(a, (tuple, list)):
        return (type(a).__name__, tuple(structure(x) for x in a))
    return ("array", tuple(onp.shape(a)), "complex" if is_complex(a) else "real")


def is_complex(a):
    if isinstance(a, CS):
        return True
    if isinstance(a, S):
        return False
    if isinstance(a, (complex, onp.complexfloating)):
        return True
    arr = onp.asarray(a)
    if arr.dtype == object:
        return any(isinstance(e, (CS, complex, onp.complexfloating)) for e in arr.ravel())
    return arr.dtype.kind == "c"


def re_im(e):
    """(re, im) of a scalar entry as S objects"""
    if type(e) is CS:
        return e.re, e.im
    if type(e) is S:
        return e, S(Fr(0))
    if isinstance(e, (complex, onp.complexfloating)):
        return S(C(e.real)), S(C(e.imag))
    return S(C(e)), S(Fr(0))


# ----------------------------------------------------------------------------------------------
# float evaluation of terms under an environment (translation validation / replay)


def evalf(t, env, cache=None):
    """evaluate a term (Fraction or z3 Real expr) to float. env: name -> float (vars and ack consts)"""
    if type(t) is Fr:
        return float(t)
    if cache is None:
        cache = {}
    return _ev(t, env, cache)


def _ev(t, env, cache):
    k = t.get_id()
    if k in cache:
        return cache[k][0]
    kind = t.decl().kind()
    if z3.is_rational_value(t) or z3.is_int_value(t):
        r = float(Fr(t.numerator_as_long(), t.denominator_as_long())) if z3.is_rational_value(t) else float(t.as_long())
    elif kind == z3.Z3_OP_UNINTERPRETED and t.num_args() == 0:
        r = env[t.decl().name()]
    else:
        ch = [_ev(c, env, cache) for c in t.children()]
        if kind == z3.Z3_OP_ADD:
            r = sum(ch)
        elif kind == z3.Z3_OP_MUL:
            r = 1.0
            for c in ch:
                r *= c
        elif kind == z3.Z3_OP_SUB:
            r = ch[0] - sum(ch[1:])
        elif kind == z3.Z3_OP_UMINUS:
            r = -ch[0]
        elif kind == z3.Z3_OP_DIV:
            r = ch[0] / ch[1] if ch[1] != 0 else float("nan")
        elif kind == z3.Z3_OP_POWER:
            r = ch[0] ** ch[1]
        elif kind == z3.Z3_OP_TO_REAL:
            r = ch[0]
        elif kind == z3.Z3_OP_ITE:
            r = ch[1] if ch[0] else ch[2]
        elif kind in (z3.Z3_OP_EQ, z3.Z3_OP_LE, z3.Z3_OP_LT, z3.Z3_OP_GE, z3.Z3_OP_GT, z3.Z3_OP_DISTINCT,
                      z3.Z3_OP_AND, z3.Z3_OP_OR, z3.Z3_OP_NOT, z3.Z3_OP_TRUE, z3.Z3_OP_FALSE, z3.Z3_OP_IMPLIES):
            r = _evb(kind, ch)
        else:
            raise Unsupported("evalf: unsupported op %s" % t.decl().name())
    cache[k] = (r, t)  # keeping t alive keeps its id unique for the lifetime of the cache
    return r


def _evb(kind, ch):
    if kind == z3.Z3_OP_EQ:
        return ch[0] == ch[1]
    if kind == z3.Z3_OP_DISTINCT:
        return len(set(ch)) == len(ch)
    if kind == z3.Z3_OP_LE:
        return ch[0] <= ch[1]
    if kind == z3.Z3_OP_LT:
        return ch[0] < ch[1]
    if kind == z3.Z3_OP_GE:
        return ch[0] >= ch[1]
    if kind == z3.Z3_OP_GT:
        return ch[0] > ch[1]
    if kind == z3.Z3_OP_AND:
        return all(ch)
    if kind == z3.Z3_OP_OR:
        return any(ch)
    if kind == z3.Z3_OP_NOT:
        return not ch[0]
    if kind == z3.Z3_OP_TRUE:
        return True
    if kind == z3.Z3_OP_FALSE:
        return False
    if kind == z3.Z3_OP_IMPLIES:
        return (not ch[0]) or ch[1]
    raise Unsupported("bool op")


def evalf_bool(cond, env):
    if cond is True or cond is False:
        return cond
    return bool(_ev(cond, env, {}))


def complete_env(env, ack_list):
    """extend a float environment for the input variables with the TRUE values of the abstracted
    function applications (in creation order, arguments only depend on earlier ones)."""
    env = dict(env)
    for (c, name, args, fn) in ack_list:
        vals = [evalf(a, env) for a in args]
        try:
            env[c.decl().name()] = float(fn(*vals))
        except (ValueError, OverflowError, ZeroDivisionError, TypeError):
            env[c.decl().name()] = float("nan")
    return env


def term_vars(ts):
    """names of free real constants in a list of z3 expressions"""
    seen = set()
    names = {}
    stack = [t for t in ts if isinstance(t, z3.ExprRef)]
    while stack:
        t = stack.pop()
        i = t.get_id()
        if i in seen:
            continue
        seen.add(i)
        if z3.is_const(t) and t.decl().kind() == z3.Z3_OP_UNINTERPRETED:
            names[t.decl().name()] = t
        else:
            stack.extend(t.children())
    return names


# ----------------------------------------------------------------------------------------------
# sampling witnesses for branch feasibility


class LazyEnv(dict):
    """float environment: input symbols get random values on first use; Ackermann constants get the TRUE value of
    the function they abstract (computed from their argument terms)"""

    def __init__(self, ctx, rng):
        super().__init__()
        self.ctx = ctx
        self.rng = rng
        self.na = 0
        self.np = 0
        self.cache = {}

    def __missing__(self, name):
        if "!" in name:
            for (c, n, args, fn) in self.ctx.ack_list:
                if c.decl().name() == name:
                    vals = [evalf(a, self, self.cache) for a in args]
                    v = float(fn(*vals))
                    if math.isnan(v) or math.isinf(v):
                        raise ValueError("undefined")
                    self[name] = v
                    return v
            raise KeyError(name)
        r = self.rng
        v = r.choice([1, 1, 1, -1]) * (r.randrange(4, 160) / 64.0)
        self[name] = v
        return v


def robust_bool(c, env, margin=1e-6):
    """three-valued evaluation: True / False only when the float evaluation is robust, else None"""
    if c is True or c is False:
        return c
    k = c.decl().kind()
    if k == z3.Z3_OP_TRUE:
        return True
    if k == z3.Z3_OP_FALSE:
        return False
    if k == z3.Z3_OP_NOT:
        r = robust_bool(c.children()[0], env, margin)
        return None if r is None else (not r)
    if k == z3.Z3_OP_AND:
        rs = [robust_bool(x, env, margin) for x in c.children()]
        if any(r is False for r in rs):
            return False
        return True if all(r is True for r in rs) else None
    if k == z3.Z3_OP_OR:
        rs = [robust_bool(x, env, margin) for x in c.children()]
        if any(r is True for r in rs):
            return True
        return False if all(r is False for r in rs) else None
    if k in (z3.Z3_OP_EQ, z3.Z3_OP_DISTINCT, z3.Z3_OP_LE, z3.Z3_OP_LT, z3.Z3_OP_GE, z3.Z3_OP_GT):
        ch = c.children()
        if len(ch) != 2 or not z3.is_arith(ch[0]):
            return None
        a = _ev(ch[0], env, env.cache)
        b = _ev(ch[1], env, env.cache)
        if math.isnan(a) or math.isnan(b) or math.isinf(a) or math.isinf(b):
            return None
        m = margin * max(1.0, abs(a), abs(b))
        far = abs(a - b) > m
        if k == z3.Z3_OP_EQ:
            return False if far else None
        if k == z3.Z3_OP_DISTINCT:
            return True if far else None
        if not far:
            return None
        if k in (z3.Z3_OP_LE, z3.Z3_OP_LT):
            return a < b
        return a > b
    return None
