"""Call-configuration grids (the *bounds* of the Engine A claims; values are symbolic, configurations are
enumerated).  Generated, keyed by primitive name.  tier: 'quick' | 'thorough'."""
import itertools

import numpy as onp

from .enga import A, Config, Cx, K, R, SC, CSC

INF = float("inf")


def _uniq(cfgs):
    seen = set()
    out = []
    for c in cfgs:
        if c.key in seen:
            continue
        seen.add(c.key)
        out.append(c)
    return out


def _sh(s):
    return "x".join(map(str, s)) if s else "0d"


# ----------------------------------------------------------------------------------------------
UNARY = ["negative", "abs", "fabs", "absolute", "reciprocal", "exp", "exp2", "expm1", "log", "log2", "log10", "log1p",
         "sin", "cos", "tan", "arcsin", "arccos", "arctan", "sinh", "cosh", "tanh", "arcsinh", "arccosh", "arctanh",
         "rad2deg", "degrees", "deg2rad", "radians", "square", "sqrt", "sinc", "real", "imag", "conj", "conjugate",
         "angle", "real_if_close", "nan_to_num", "positive", "cbrt", "sign", "floor", "ceil"]


def fam_unary(tier, kind=R, scal=SC):
    shapes = [(2,)] if tier == "quick" else [(2,), (1, 2), (2, 1, 2)]
    for n in UNARY:
        for s in shapes:
            yield Config(n, "np.%s(x)" % n, lambda np, x, _n=n: getattr(np, _n)(x), [kind(*s)], 0)
        yield Config(n, "np.%s(scalar)" % n, lambda np, x, _n=n: getattr(np, _n)(x), [scal], 0)
        yield Config(n, "np.%s(0-d)" % n, lambda np, x, _n=n: getattr(np, _n)(x), [kind()], 0)
    yield Config("negative", "-x", lambda np, x: -x, [kind(2)], 0)
    yield Config("abs", "abs(x) builtin", lambda np, x: abs(x), [kind(2)], 0)
    yield Config("positive", "+x", lambda np, x: +x, [kind(2)], 0)
    yield Config("negative", "-scalar", lambda np, x: -x, [scal], 0)


BINARY = ["add", "subtract", "multiply", "divide", "true_divide", "maximum", "minimum", "fmax", "fmin", "logaddexp",
          "logaddexp2", "mod", "remainder", "power", "arctan2", "hypot", "float_power", "copysign", "fmod"]
OPS = [("+", lambda a, b: a + b), ("-", lambda a, b: a - b), ("*", lambda a, b: a * b), ("/", lambda a, b: a / b),
       ("**", lambda a, b: a ** b), ("%", lambda a, b: a % b)]


def bc_pairs(tier):
    if tier == "quick":
        return [((2,), (2,)), ((2, 1), (3,)), ((), (2,)), ((1,), (2, 2)), ((2, 2), (1, 2)), ((2, 1, 1), (2,)), ((1, 1), (2,))]
    shapes = [()] + [s for r in (1, 2) for s in itertools.product((1, 2, 3), repeat=r)] + [(2, 1, 2), (1, 2, 1), (2, 1, 1)]
    out = []
    for a in shapes:
        for b in shapes:
            try:
                onp.broadcast_shapes(a, b)
            except ValueError:
                continue
            out.append((a, b))
    return out


def fam_binary(tier, kind=R, scal=SC):
    pairs = bc_pairs(tier)
    for n in BINARY:
        f = lambda np, x, y, _n=n: getattr(np, _n)(x, y)
        ps = pairs if (tier == "quick" or n in ("add", "multiply", "divide", "maximum", "power", "subtract")) else bc_pairs("quick")
        for a, b in ps:
            for k in (0, 1):
                yield Config(n, "np.%s(x,y)" % n, f, [kind(*a), kind(*b)], k)
        # Python-scalar operands
        yield Config(n, "np.%s(scalar,y)" % n, f, [scal, kind(2)], 0)
        yield Config(n, "np.%s(scalar,y)" % n, f, [scal, kind(2)], 1)
        yield Config(n, "np.%s(x,scalar)" % n, f, [kind(2, 1), scal], 0)
        yield Config(n, "np.%s(x,scalar)" % n, f, [kind(2, 1), scal], 1)
        yield Config(n, "np.%s(scalar,scalar)" % n, f, [scal, scal], 0)
        yield Config(n, "np.%s(scalar,scalar)" % n, f, [scal, scal], 1)
        yield Config(n, "np.%s(x,1.5)" % n, lambda np, x, _n=n: getattr(np, _n)(x, 1.5), [kind(2)], 0)
        yield Config(n, "np.%s(1.5,x)" % n, lambda np, x, _n=n: getattr(np, _n)(1.5, x), [kind(2)], 0)
        yield Config(n, "np.%s(x,2) int const" % n, lambda np, x, _n=n: getattr(np, _n)(x, 2), [kind(2)], 0)
    for sym_, op in OPS:
        for a, b in bc_pairs("quick")[:4]:
            for k in (0, 1):
                yield Config("op" + sym_, "x %s y" % sym_, lambda np, x, y, _o=op: _o(x, y), [kind(*a), kind(*b)], k)
        yield Config("op" + sym_, "x %s 1.5" % sym_, lambda np, x, _o=op: _o(x, 1.5), [kind(2)], 0)
        yield Config("op" + sym_, "1.5 %s x (reflected)" % sym_, lambda np, x, _o=op: _o(1.5, x), [kind(2)], 0)
        yield Config("op" + sym_, "x %s 2 (int)" % sym_, lambda np, x, _o=op: _o(x, 2), [kind(2)], 0)
        yield Config("op" + sym_, "2 %s x (int, reflected)" % sym_, lambda np, x, _o=op: _o(2, x), [kind(2)], 0)
        yield Config("op" + sym_, "scalar %s y" % sym_, lambda np, x, y, _o=op: _o(x, y), [scal, kind(2)], 0)
        yield Config("op" + sym_, "x %s scalar" % sym_, lambda np, x, y, _o=op: _o(x, y), [kind(2), scal], 1)
        yield Config("op" + sym_, "ndarray %s x (reflected via ndarray)" % sym_, lambda np, x, y, _o=op: _o(y, x), [kind(2), kind(2)], 0)
    yield Config("power", "x**3", lambda np, x: x ** 3, [kind(2)], 0)
    yield Config("power", "x**-2", lambda np, x: x ** -2, [kind(2)], 0)
    yield Config("power", "x**0.5", lambda np, x: x ** 0.5, [kind(2)], 0)
    yield Config("power", "x**2.5", lambda np, x: x ** 2.5, [kind(2)], 0)
    yield Config("power", "x**-0.5", lambda np, x: x ** -0.5, [kind(2)], 0)
    yield Config("power", "x**0", lambda np, x: x ** 0, [kind(2)], 0)
    yield Config("power", "x**1", lambda np, x: x ** 1, [kind(2)], 0)
    yield Config("power", "np.power(x,3.0)", lambda np, x: np.power(x, 3.0), [kind(2, 2)], 0)


# ----------------------------------------------------------------------------------------------
def axes_for(shape, tier):
    nd = len(shape)
    out = [None]
    for a in range(-nd, nd):
        out.append(a)
    if nd >= 2:
        tup = [(0, 1), (0, -1), (-1, 0), (1, -2)] if nd == 2 else [(0, 1), (0, -1), (-1, 0), (1, 2), (0, 2), (-1, -3), (0, 1, 2), (2, 0, -2)]
        for t in tup:
            norm = [x % nd for x in t]
            if len(set(norm)) == len(norm):
                out.append(t)
        if tier == "thorough":
            for r in range(1, nd + 1):
                for t in itertools.permutations(range(nd), r):
                    out.append(t)
                    out.append(tuple(x - nd if i % 2 else x for i, x in enumerate(t)))
    # dedupe preserving order
    seen = []
    for a in out:
        if a not in seen:
            seen.append(a)
    return seen


REDUCE = ["sum", "mean", "prod", "var", "std", "max", "min", "amax", "amin"]


def fam_reduce(tier, kind=R):
    shapes = [(2, 3), (2, 1, 2), (3,), ()] if tier == "quick" else [(2, 3), (2, 1, 2), (3,), (), (1, 3), (2, 2, 2), (3, 1)]
    for n in REDUCE:
        piece = n in ("max", "min", "amax", "amin")
        for s in shapes:
            if piece and int(onp.prod(s)) > (6 if tier == "quick" else 8):
                continue
            for ax in axes_for(s, tier):
                for kd in (False, True):
                    kw = {}
                    if ax is not None:
                        kw["axis"] = ax
                    if kd:
                        kw["keepdims"] = True
                    lab = "np.%s(x%s)" % (n, "".join(",%s=%r" % kv for kv in kw.items()))
                    yield Config(n, lab, lambda np, x, _n=n, _kw=kw: getattr(np, _n)(x, **_kw), [kind(*s)], 0)
            # positional axis, method form
            if len(s) >= 1:
                yield Config(n, "np.%s(x,0) positional axis" % n, lambda np, x, _n=n: getattr(np, _n)(x, 0), [kind(*s)], 0)
                if n not in ("amax", "amin"):
                    yield Config(n, "x.%s(axis=-1) method" % n, lambda np, x, _n=n: getattr(x, _n)(axis=-1), [kind(*s)], 0)
                    yield Config(n, "x.%s() method" % n, lambda np, x, _n=n: getattr(x, _n)(), [kind(*s)], 0)
        yield Config(n, "np.%s(scalar)" % n, lambda np, x, _n=n: getattr(np, _n)(x), [SC if kind is R else CSC], 0)
    for n in ("var", "std"):
        for s in [(2, 3), (3,)]:
            for ax in [None, 0, -1, (0, 1)] if len(s) == 2 else [None, 0]:
                for dd in (1, 2) if n == "var" else (1,):
                    kw = {"ddof": dd}
                    if ax is not None:
                        kw["axis"] = ax
                    yield Config(n, "np.%s(x%s)" % (n, "".join(",%s=%r" % kv for kv in kw.items())),
                                 lambda np, x, _n=n, _kw=kw: getattr(np, _n)(x, **_kw), [kind(*s)], 0)
                    kw2 = dict(kw, keepdims=True)
                    yield Config(n, "np.%s(x%s)" % (n, "".join(",%s=%r" % kv for kv in kw2.items())),
                                 lambda np, x, _n=n, _kw=kw2: getattr(np, _n)(x, **_kw), [kind(*s)], 0)
    for s in [(3,), (2, 3), (2, 1, 2)]:
        for ax in [None] + list(range(-len(s), len(s))):
            kw = {} if ax is None else {"axis": ax}
            yield Config("cumsum", "np.cumsum(x%s)" % ("" if ax is None else ",axis=%d" % ax),
                         lambda np, x, _kw=kw: np.cumsum(x, **_kw), [kind(*s)], 0)
        yield Config("cumsum", "x.cumsum(1 if nd>1 else 0) method", lambda np, x: x.cumsum(1 if x.ndim > 1 else 0), [kind(*s)], 0)
    for n in ("cumprod", "ptp", "nansum", "nanmean", "nanmax", "nanmin", "average", "median", "nanprod", "nancumsum"):
        yield Config(n, "np.%s(x)" % n, lambda np, x, _n=n: getattr(np, _n)(x), [kind(3)], 0)
        yield Config(n, "np.%s(x,axis=0)" % n, lambda np, x, _n=n: getattr(np, _n)(x, axis=0), [kind(2, 2)], 0)


# ----------------------------------------------------------------------------------------------
def fam_shape(tier, kind=R):
    T = tier == "thorough"
    c = lambda prim, lab, f, args, k=0: Config(prim, lab, f, args, k)
    # reshape / ravel
    for s, tgts in [((2, 3), [(3, 2), (6,), (-1,), (1, 6), (3, -1), (2, 3, 1)]), ((), [(1,), (1, 1), ()]), ((2, 1, 2), [(4,), (2, 2)])]:
        for t in tgts:
            for order in (None, "F", "C", "A"):
                kw = {} if order is None else {"order": order}
                yield c("reshape", "np.reshape(x,%r%s)" % (t, "" if order is None else ",order=%r" % order),
                        lambda np, x, _t=t, _kw=kw: np.reshape(x, _t, **_kw), [kind(*s)])
            yield c("reshape", "x.reshape(%r) method tuple" % (t,), lambda np, x, _t=t: x.reshape(_t), [kind(*s)])
            if t:
                yield c("reshape", "x.reshape(*%r) method varargs" % (t,), lambda np, x, _t=t: x.reshape(*_t), [kind(*s)])
                yield c("reshape", "x.reshape(*%r,order='F')" % (t,), lambda np, x, _t=t: x.reshape(*_t, order="F"), [kind(*s)])
    for s in [(2, 3), (), (2, 1, 2)]:
        for order in (None, "F", "C", "K", "A"):
            kw = {} if order is None else {"order": order}
            yield c("ravel", "np.ravel(x%s)" % ("" if order is None else ",order=%r" % order), lambda np, x, _kw=kw: np.ravel(x, **_kw), [kind(*s)])
        yield c("ravel", "x.ravel() method", lambda np, x: x.ravel(), [kind(*s)])
        yield c("ravel", "x.flatten() method", lambda np, x: x.flatten(), [kind(*s)])
        yield c("ravel", "x.flatten('F') method", lambda np, x: x.flatten("F"), [kind(*s)])
    # memory layout: order='A'/'K' depend on whether the INPUT is Fortran- or C-contiguous
    for order in ("A", "F", "C", "K"):
        yield c("ravel", "np.ravel(x.T,order=%r) transposed (F-contiguous) input" % order, lambda np, x, _o=order: np.ravel(np.transpose(x), order=_o), [kind(2, 3)])
        yield c("reshape", "np.reshape(x.T,(6,),order=%r) transposed input" % order, lambda np, x, _o=order: np.reshape(np.transpose(x), (6,), order=_o), [kind(2, 3)])
        yield c("reshape", "np.reshape(x.T,(2,3),order=%r) transposed input" % order, lambda np, x, _o=order: np.reshape(np.transpose(x), (2, 3), order=_o), [kind(2, 3)])
        yield c("ravel", "x.T.flatten(%r)" % order, lambda np, x, _o=order: x.T.flatten(_o), [kind(2, 3)])
        yield c("ravel", "np.ravel(x[:, ::2],order=%r) strided view" % order, lambda np, x, _o=order: np.ravel(x[:, ::2], order=_o), [kind(2, 3)])
    # expand_dims / squeeze
    for s in [(2, 3), (), (2,)]:
        nd = len(s)
        for ax in list(range(-nd - 1, nd + 1)) + [(0, 1), (0, -1), (-1, -2)]:
            yield c("expand_dims", "np.expand_dims(x,%r)" % (ax,), lambda np, x, _a=ax: np.expand_dims(x, _a), [kind(*s)])
    for s, axs in [((2, 1, 3), [None, 1, -2, (1,)]), ((1, 2, 1), [None, 0, 2, -1, (0, 2), (0, -1), (-3,)]), ((1,), [None, 0]), ((1, 1), [None, 0, (0, 1)])]:
        for ax in axs:
            kw = {} if ax is None else {"axis": ax}
            yield c("squeeze", "np.squeeze(x%s)" % ("" if ax is None else ",axis=%r" % (ax,)), lambda np, x, _kw=kw: np.squeeze(x, **_kw), [kind(*s)])
            yield c("squeeze", "x.squeeze(%s) method" % ("" if ax is None else "axis=%r" % (ax,)), lambda np, x, _kw=kw: x.squeeze(**_kw), [kind(*s)])
    # transpose
    for s in [(2, 3), (2, 3, 2)] + ([(1, 2, 3, 2)] if T else []):
        nd = len(s)
        yield c("transpose", "np.transpose(x)", lambda np, x: np.transpose(x), [kind(*s)])
        yield c("transpose", "x.T", lambda np, x: x.T, [kind(*s)])
        perms = list(itertools.permutations(range(nd)))
        if nd > 3:
            perms = perms[::5]
        for p in perms:
            variants = [p, tuple(a - nd for a in p), tuple(a - nd if i % 2 else a for i, a in enumerate(p)), tuple(a - nd if i == 0 else a for i, a in enumerate(p))]
            for v in dict.fromkeys(variants):
                yield c("transpose", "np.transpose(x,%r)" % (v,), lambda np, x, _v=v: np.transpose(x, _v), [kind(*s)])
            yield c("transpose", "x.transpose(*%r) method varargs" % (p,), lambda np, x, _v=p: x.transpose(*_v), [kind(*s)])
            yield c("transpose", "x.transpose(%r) method tuple" % (p,), lambda np, x, _v=p: x.transpose(_v), [kind(*s)])
        yield c("transpose", "np.transpose(x,list)", lambda np, x: np.transpose(x, list(range(x.ndim))[::-1]), [kind(*s)])
    yield c("transpose", "np.transpose(1-D)", lambda np, x: np.transpose(x), [kind(3)])
    yield c("transpose", "np.transpose(0-D)", lambda np, x: np.transpose(x), [kind()])
    for s in [(2, 3), (2, 3, 2)]:
        nd = len(s)
        for a1 in range(-nd, nd):
            for a2 in range(-nd, nd):
                yield c("swapaxes", "np.swapaxes(x,%d,%d)" % (a1, a2), lambda np, x, _a=a1, _b=a2: np.swapaxes(x, _a, _b), [kind(*s)])
        yield c("swapaxes", "x.swapaxes(0,-1) method", lambda np, x: x.swapaxes(0, -1), [kind(*s)])
    s = (2, 3, 2)
    for src in [0, 1, 2, -1, -2, -3]:
        for dst in [0, 1, 2, -1, -3]:
            yield c("moveaxis", "np.moveaxis(x,%d,%d)" % (src, dst), lambda np, x, _a=src, _b=dst: np.moveaxis(x, _a, _b), [kind(*s)])
    for src, dst in [((0, 1), (1, 0)), ((0, 1), (-1, -2)), ((0, -1), (2, 0)), ((-1, 0), (0, 1)), ([0, 2], [1, 0]), ((0, 1, 2), (2, 0, 1))]:
        yield c("moveaxis", "np.moveaxis(x,%r,%r)" % (src, dst), lambda np, x, _a=src, _b=dst: np.moveaxis(x, _a, _b), [kind(*s)])
    for ax in [0, 1, 2, -1]:
        for st in [0, 1, 2, 3, -1]:
            yield c("rollaxis", "np.rollaxis(x,%d,%d)" % (ax, st), lambda np, x, _a=ax, _b=st: np.rollaxis(x, _a, _b), [kind(*s)])
        yield c("rollaxis", "np.rollaxis(x,%d)" % ax, lambda np, x, _a=ax: np.rollaxis(x, _a), [kind(*s)])
    for n in ("flipud", "fliplr"):
        for s in [(2, 3), (2, 3, 2), (3,)]:
            yield c(n, "np.%s(x)" % n, lambda np, x, _n=n: getattr(np, _n)(x), [kind(*s)])
    for s in [(2, 3), (3,)]:
        for ax in [None, 0, -1, (0, 1)]:
            kw = {} if ax is None else {"axis": ax}
            yield c("flip", "np.flip(x%s)" % ("" if ax is None else ",axis=%r" % (ax,)), lambda np, x, _kw=kw: np.flip(x, **_kw), [kind(*s)])
    for k in [1, 2, 3, -1, 0, 4, 5]:
        yield c("rot90", "np.rot90(x,%d)" % k, lambda np, x, _k=k: np.rot90(x, _k), [kind(2, 3)])
        yield c("rot90", "np.rot90(x,k=%d) 3-D" % k, lambda np, x, _k=k: np.rot90(x, k=_k), [kind(2, 3, 2)])
    yield c("rot90", "np.rot90(x)", lambda np, x: np.rot90(x), [kind(2, 3)])
    for axes in [(1, 2), (1, 0), (0, -1), (-1, 0)]:
        yield c("rot90", "np.rot90(x,1,%r)" % (axes,), lambda np, x, _a=axes: np.rot90(x, 1, _a), [kind(2, 3, 2)])
        yield c("rot90", "np.rot90(x,axes=%r)" % (axes,), lambda np, x, _a=axes: np.rot90(x, axes=_a), [kind(2, 3, 2)])
    for s in [(3,), (2, 3)]:
        for sh in [1, -1, 2, 4, 0]:
            yield c("roll", "np.roll(x,%d)" % sh, lambda np, x, _s=sh: np.roll(x, _s), [kind(*s)])
            for ax in range(-len(s), len(s)):
                yield c("roll", "np.roll(x,%d,axis=%d)" % (sh, ax), lambda np, x, _s=sh, _a=ax: np.roll(x, _s, axis=_a), [kind(*s)])
                yield c("roll", "np.roll(x,%d,%d) positional" % (sh, ax), lambda np, x, _s=sh, _a=ax: np.roll(x, _s, _a), [kind(*s)])
    for sh, ax in [((1, 2), (0, 1)), ((1, -1), (1, 0)), ((2, 1), (-1, -2)), (1, (0, 1)), ((1, 1), (0, 0))]:
        yield c("roll", "np.roll(x,%r,axis=%r)" % (sh, ax), lambda np, x, _s=sh, _a=ax: np.roll(x, _s, axis=_a), [kind(2, 3)])
    # diag / diagonal / trace / triu / tril
    for s in [(3,), (2,), (2, 2), (2, 3), (3, 2), (1,), (1, 3)]:
        for k in [0, 1, -1, 2]:
            yield c("diag", "np.diag(x,%d)" % k, lambda np, x, _k=k: np.diag(x, _k), [kind(*s)])
            yield c("diag", "np.diag(x,k=%d)" % k, lambda np, x, _k=k: np.diag(x, k=_k), [kind(*s)])
        yield c("diag", "np.diag(x)", lambda np, x: np.diag(x), [kind(*s)])
    for s in [(2, 2), (2, 3), (2, 3, 3), (3, 2, 2)]:
        yield c("diagonal", "np.diagonal(x)", lambda np, x: np.diagonal(x), [kind(*s)])
        yield c("diagonal", "x.diagonal() method", lambda np, x: x.diagonal(), [kind(*s)])
        for off in [0, 1, -1]:
            yield c("diagonal", "np.diagonal(x,%d)" % off, lambda np, x, _o=off: np.diagonal(x, _o), [kind(*s)])
            if len(s) == 3:
                for a1, a2 in [(-1, -2), (-2, -1), (1, 2), (0, 2), (2, 0), (0, 1)]:
                    yield c("diagonal", "np.diagonal(x,%d,%d,%d)" % (off, a1, a2), lambda np, x, _o=off, _a=a1, _b=a2: np.diagonal(x, _o, _a, _b), [kind(*s)])
                    yield c("diagonal", "np.diagonal(x,offset=%d,axis1=%d,axis2=%d)" % (off, a1, a2),
                            lambda np, x, _o=off, _a=a1, _b=a2: np.diagonal(x, offset=_o, axis1=_a, axis2=_b), [kind(*s)])
    # the axis pair the rule supports, on NON-SQUARE trailing dimensions (the diagonal is shorter than one of them)
    for s in [(2, 2, 3), (2, 3, 2), (2, 3), (3, 2)]:
        yield c("diagonal", "np.diagonal(x,0,-1,-2) non-square trailing dims", lambda np, x: np.diagonal(x, 0, -1, -2), [kind(*s)])
        yield c("diagonal", "np.diagonal(x,axis1=-1,axis2=-2) non-square trailing dims", lambda np, x: np.diagonal(x, axis1=-1, axis2=-2), [kind(*s)])
    for s in [(2, 2), (2, 3), (3, 2), (2, 3, 2), (3, 3, 2)]:
        yield c("trace", "np.trace(x)", lambda np, x: np.trace(x), [kind(*s)])
        yield c("trace", "x.trace() method", lambda np, x: x.trace(), [kind(*s)])
        for off in [1, -1, 2, -2]:
            yield c("trace", "np.trace(x,%d)" % off, lambda np, x, _o=off: np.trace(x, _o), [kind(*s)])
            yield c("trace", "np.trace(x,offset=%d)" % off, lambda np, x, _o=off: np.trace(x, offset=_o), [kind(*s)])
        if len(s) == 3:
            yield c("trace", "np.trace(x,0,1,2)", lambda np, x: np.trace(x, 0, 1, 2), [kind(*s)])
            yield c("trace", "np.trace(x,axis1=-1,axis2=0)", lambda np, x: np.trace(x, axis1=-1, axis2=0), [kind(*s)])
    for n in ("triu", "tril"):
        for s in [(2, 2), (2, 3), (3, 2), (2, 2, 3), (3,)]:
            yield c(n, "np.%s(x)" % n, lambda np, x, _n=n: getattr(np, _n)(x), [kind(*s)])
            for k in [1, -1, 2]:
                yield c(n, "np.%s(x,%d)" % (n, k), lambda np, x, _n=n, _k=k: getattr(np, _n)(x, _k), [kind(*s)])
                yield c(n, "np.%s(x,k=%d)" % (n, k), lambda np, x, _n=n, _k=k: getattr(np, _n)(x, k=_k), [kind(*s)])
    # tile / repeat / broadcast_to
    for s in [(2, 3), (3,), (), (2, 1, 2)]:
        for reps in [2, 1, (2,), (1, 2), (2, 1), (2, 2), (2, 1, 2), (1, 1, 2), (2, 2, 1, 2), [2, 2], 0]:
            yield c("tile", "np.tile(x,%r)" % (reps,), lambda np, x, _r=reps: np.tile(x, _r), [kind(*s)])
    for s in [(2, 3), (3,), (), (2, 1, 2), (1, 3)]:
        for rp in [2, 1, 3]:
            yield c("repeat", "np.repeat(x,%d)" % rp, lambda np, x, _r=rp: np.repeat(x, _r), [kind(*s)])
            yield c("repeat", "x.repeat(%d) method" % rp, lambda np, x, _r=rp: x.repeat(_r), [kind(*s)])
            for ax in range(-len(s), len(s)):
                yield c("repeat", "np.repeat(x,%d,axis=%d)" % (rp, ax), lambda np, x, _r=rp, _a=ax: np.repeat(x, _r, axis=_a), [kind(*s)])
                yield c("repeat", "np.repeat(x,%d,%d) positional" % (rp, ax), lambda np, x, _r=rp, _a=ax: np.repeat(x, _r, _a), [kind(*s)])
        if len(s) >= 1:
            yield c("repeat", "np.repeat(x,[1,2..],axis=0) array repeats", lambda np, x: np.repeat(x, list(range(1, x.shape[0] + 1)), axis=0), [kind(*s)])
            yield c("repeat", "np.repeat(x,[2],axis=0) len-1 list repeats", lambda np, x: np.repeat(x, [2], axis=0), [kind(*s)])
    for s, tgts in [((2, 3), [(2, 3), (2, 2, 3), (1, 2, 3)]), ((1, 3), [(2, 3), (1, 3), (2, 2, 3)]), ((3,), [(2, 3), (3,)]), ((), [(2,), (2, 2), ()]),
                    ((2, 1), [(2, 3), (2, 1), (1, 2, 3)]), ((1, 1), [(2, 3), (1, 1, 3), (1, 2, 2)]), ((1,), [(3,), (2, 3), (1, 3), (1, 1, 2)]),
                    ((1, 3), [(1, 2, 3), (1, 1, 3)]), ((3, 1), [(1, 3, 2), (3, 3, 2)])]:
        for t in tgts:
            yield c("broadcast_to", "np.broadcast_to(x,%r)" % (t,), lambda np, x, _t=t: np.broadcast_to(x, _t), [kind(*s)])
    for n in ("atleast_1d", "atleast_2d", "atleast_3d"):
        for s in [(), (2,), (2, 3), (2, 3, 2)]:
            yield c(n, "np.%s(x)" % n, lambda np, x, _n=n: getattr(np, _n)(x), [kind(*s)])
        yield c(n, "np.%s(scalar)" % n, lambda np, x, _n=n: getattr(np, _n)(x), [SC if kind is R else CSC])
        yield c(n, "np.%s(x,y)[1]" % n, lambda np, x, y, _n=n: getattr(np, _n)(x, y)[1], [kind(2), kind(2)], 1)
        # several arrays in one call: one output per input (the rules refuse this today; a rule that accepts it must
        # give every output the tangent / cotangent of ITS input only)
        for s in [(2,), (), (2, 3)]:
            for wrt in (0, 1):
                for pick in (0, 1):
                    yield c(n, "np.%s(x,y)[%d]" % (n, pick), lambda np, x, y, _n=n, _p=pick: getattr(np, _n)(x, y)[_p] * 3.0, [kind(*s), kind(*s)], wrt)
                yield c(n, "np.%s(x,y,x*y): sin of one output times the others" % n,
                        lambda np, x, y, _n=n: (lambda o: np.sin(o[0]) * o[2] + 2.0 * o[1])(getattr(np, _n)(x, y, x * y)), [kind(*s), kind(*s)], wrt)
    # split family (one piece of the result is selected; the others are dead)
    for n, args, s in [("split", (3,), (3, 2)), ("split", ([1],), (3, 2)), ("split", ([1, 2],), (3,)), ("array_split", (2,), (3, 2)),
                       ("vsplit", (2,), (2, 3)), ("hsplit", (3,), (2, 3)), ("hsplit", ([1],), (3,)), ("dsplit", (2,), (1, 2, 2))]:
        for pick in (0, 1, -1):
            yield c(n, "np.%s(x,%r)[%d]" % (n, args[0], pick), lambda np, x, _n=n, _a=args, _p=pick: getattr(np, _n)(x, *_a)[_p], [kind(*s)])
        yield c(n, "sum of all pieces np.%s(x,%r)" % (n, args[0]), lambda np, x, _n=n, _a=args: [p * (i + 1) for i, p in enumerate(getattr(np, _n)(x, *_a))][-1] + getattr(np, _n)(x, *_a)[0], [kind(*s)])
    for ax in (0, 1, -1, -2):
        yield c("split", "np.split(x,2,axis=%d)[1]" % ax, lambda np, x, _a=ax: np.split(x, 2, axis=_a)[1], [kind(2, 2)])
        yield c("array_split", "np.array_split(x,2,axis=%d)[0]" % ax, lambda np, x, _a=ax: np.array_split(x, 2, axis=_a)[0], [kind(3, 3)])
    # list-taking constructors
    for n, ss, kws in [("concatenate", [(2, 3), (1, 3)], [{}, {"axis": 0}, {"axis": -2}]), ("concatenate", [(2, 1), (2, 2)], [{"axis": 1}, {"axis": -1}]),
                       ("concatenate", [(2,), (3,)], [{}, {"axis": 0}, {"axis": -1}]), ("concatenate", [(2, 2), (2, 2)], [{"axis": None}]),
                       ("stack", [(2, 3), (2, 3)], [{}, {"axis": 0}, {"axis": 1}, {"axis": 2}, {"axis": -1}, {"axis": -2}, {"axis": -3}]),
                       ("stack", [(), ()], [{}, {"axis": -1}]), ("stack", [(2,), (2,)], [{"axis": 1}, {"axis": -2}]),
                       ("vstack", [(2, 3), (1, 3)], [{}]), ("vstack", [(3,), (3,)], [{}]), ("vstack", [(), ()], [{}]),
                       ("hstack", [(2, 1), (2, 2)], [{}]), ("hstack", [(2,), (3,)], [{}]), ("hstack", [(), ()], [{}]), ("hstack", [(2, 1, 2), (2, 2, 2)], [{}]),
                       ("column_stack", [(2,), (2,)], [{}]), ("column_stack", [(1,), (1,)], [{}]), ("column_stack", [(1,), (1, 2)], [{}]), ("column_stack", [(2, 1), (2, 2)], [{}]), ("column_stack", [(2,), (2, 2)], [{}]),
                       ("append", [(2, 3), (1, 3)], [{}, {"axis": 0}]), ("append", [(2,), (3,)], [{}, {"axis": 0}, {"axis": -1}]), ("append", [(2, 1), (2, 2)], [{"axis": 1}, {"axis": -1}])]:
        for kw in kws:
            for k in (0, 1):
                lab = "np.%s([x,y]%s)" % (n, "".join(",%s=%r" % kv for kv in kw.items()))
                if n == "append":
                    f = lambda np, x, y, _kw=kw: np.append(x, y, **_kw)
                else:
                    f = lambda np, x, y, _n=n, _kw=kw: getattr(np, _n)([x, y], **_kw)
                yield c(n, lab, f, [kind(*ss[0]), kind(*ss[1])], k)
            if n not in ("append",):
                yield c(n, "np.%s((x,x,y)%s) tuple, repeated arg" % (n, "".join(",%s=%r" % kv for kv in kw.items())),
                        lambda np, x, y, _n=n, _kw=kw: getattr(np, _n)((x, x, y), **_kw), [kind(*ss[0]), kind(*ss[1])], 0)
    yield c("concatenate", "np.concatenate([x]) single", lambda np, x: np.concatenate([x]), [kind(2, 2)])
    yield c("concatenate", "np.concatenate([x,const])", lambda np, x: np.concatenate([x, onp.ones((1, 2))]), [kind(2, 2)])
    sc = SC if kind is R else CSC
    yield c("array", "np.array([x,y]) arrays", lambda np, x, y: np.array([x, y]), [kind(2), kind(2)], 1)
    yield c("array", "np.array([[s,t],[t,s]]) scalars", lambda np, x, y: np.array([[x, y], [y, x]]), [sc, sc], 0)
    yield c("array", "np.array([s,1.0,t])", lambda np, x, y: np.array([x, 1.0, y]), [sc, sc], 1)
    yield c("array", "np.array((x,y)) tuple", lambda np, x, y: np.array((x, y)), [kind(2, 2), kind(2, 2)], 0)
    yield c("array", "np.array(x)", lambda np, x: np.array(x), [kind(2, 2)])
    yield c("array", "np.array(scalar)", lambda np, x: np.array(x), [sc])
    for nm in (1, 2, 3, 4):
        yield c("array", "np.array(x,ndmin=%d)" % nm, lambda np, x, _n=nm: np.array(x, ndmin=_n), [kind(2, 2)])
        yield c("array", "np.array(scalar,ndmin=%d)" % nm, lambda np, x, _n=nm: np.array(x, ndmin=_n), [sc])
        yield c("array", "np.array([x,y],ndmin=%d)" % nm, lambda np, x, y, _n=nm: np.array([x, y], ndmin=_n), [kind(2), kind(2)], 0)
    for shp in [(1, 3), (3, 1), (1,), (1, 1)]:
        for nm in (2, 3):
            # the argument has length-1 axes of its own besides the ones ndmin prepends
            yield c("array", "np.array(x,ndmin=%d) on shape %r" % (nm, shp), lambda np, x, _n=nm: np.array(x, ndmin=_n), [kind(*shp)])
    yield c("append", "np.append(c, [x[0]*2, x[1]**2]) list of traced scalars, axis=None", lambda np, x: np.append(onp.array([1.0, 2.0]), [x[0] * 2.0, x[1] ** 2]), [kind(2)])
    yield c("append", "np.append(x, (x[0], 3.0)) traced base and a tuple of scalars", lambda np, x: np.append(x, (x[0] * x[1], 3.0)), [kind(2)])
    yield c("array", "np.array(x,copy=True)", lambda np, x: np.array(x, copy=True), [kind(2)])
    yield c("asarray", "np.asarray(x)", lambda np, x: np.asarray(x), [kind(2)])
    yield c("r_", "np.r_[x,y]", lambda np, x, y: np.r_[x, y], [kind(2), kind(3)], 0)
    yield c("c_", "np.c_[x,y]", lambda np, x, y: np.c_[x, y], [kind(2), kind(2)], 1)
    # index-trick concatenation of operands with three or more dimensions (c_ joins along the LAST axis, r_ along the first)
    for k_ in (0, 1):
        yield c("c_", "np.c_[x,y] 3-D operands", lambda np, x, y: np.c_[x, y], [kind(2, 3, 2), kind(2, 3, 2)], k_)
        yield c("c_", "np.c_[x,y] 2-D operands", lambda np, x, y: np.c_[x, y], [kind(2, 3), kind(2, 1)], k_)
        yield c("r_", "np.r_[x,y] 3-D operands", lambda np, x, y: np.r_[x, y], [kind(2, 3, 2), kind(1, 3, 2)], k_)
        yield c("r_", "np.r_['-1',x,y] 2-D operands", lambda np, x, y: np.r_["-1", x, y], [kind(2, 3), kind(2, 2)], k_)
    yield c("c_", "np.c_[x,const] 3-D operands", lambda np, x: np.c_[x, onp.ones((2, 3, 1))], [kind(2, 3, 2)], 0)
    yield c("c_", "np.c_[x, x*2, 1-D]", lambda np, x: np.c_[x, x * 2.0], [kind(3)], 0)
    yield c("select", "np.select([x>0,x<=0],[x*2,x*3])", lambda np, x: np.select([x > 0, x <= 0], [x * 2, x * 3]), [kind(2, 2)])
    yield c("select", "np.select([c],[x],default=y)", lambda np, x, y: np.select([onp.array([True, False, True])], [x], default=y), [kind(3), kind(3)], 0)
    # pad
    for s in [(2, 3), (3,), (2, 1, 2)]:
        for w in [1, 2, 0, (1, 2), (0, 1), [(1, 0)], [1, 2]] + ([((1, 0), (0, 2))] if len(s) == 2 else []) + ([((1, 0), (0, 2), (1, 1))] if len(s) == 3 else []) + ([((1, 2),)] if len(s) == 1 else []):
            yield c("pad", "np.pad(x,%r,'constant')" % (w,), lambda np, x, _w=w: np.pad(x, _w, "constant"), [kind(*s)])
            yield c("pad", "np.pad(x,%r,mode='constant')" % (w,), lambda np, x, _w=w: np.pad(x, _w, mode="constant"), [kind(*s)])
        yield c("pad", "np.pad(x,1,'constant',constant_values=2.0)", lambda np, x: np.pad(x, 1, "constant", constant_values=2.0), [kind(*s)])
        yield c("pad", "np.pad(x,1) default mode", lambda np, x: np.pad(x, 1), [kind(*s)])
        yield c("pad", "np.pad(x,1,'edge')", lambda np, x: np.pad(x, 1, "edge"), [kind(*s)])
        yield c("pad", "np.pad(x,1,'reflect')", lambda np, x: np.pad(x, 1, "reflect"), [kind(*s)])
    # diff / gradient
    for s in [(4,), (3, 3), (2, 3, 2), (1,), (2, 1)]:
        for n in (1, 2, 3, 0):
            yield c("diff", "np.diff(x,%d)" % n, lambda np, x, _n=n: np.diff(x, _n), [kind(*s)])
            for ax in range(-len(s), len(s)):
                yield c("diff", "np.diff(x,n=%d,axis=%d)" % (n, ax), lambda np, x, _n=n, _a=ax: np.diff(x, n=_n, axis=_a), [kind(*s)])
        yield c("diff", "np.diff(x)", lambda np, x: np.diff(x), [kind(*s)])
    for s in [(4,), (5,), (3,), (3, 4), (2, 3)]:
        yield c("gradient", "np.gradient(x)", lambda np, x: np.gradient(x) if x.ndim == 1 else np.gradient(x)[0] + 2 * np.gradient(x)[1], [kind(*s)])
        if len(s) == 1 or s[0] >= 3:
            # edge_order selects the boundary stencil: a rule that accepts the option must honour it at the boundary rows
            yield c("gradient", "np.gradient(x,edge_order=2)", lambda np, x: np.gradient(x, edge_order=2) if x.ndim == 1 else np.gradient(x, edge_order=2)[0], [kind(*s)])
            yield c("gradient", "np.gradient(x,axis=0,edge_order=2)", lambda np, x: np.gradient(x, axis=0, edge_order=2), [kind(*s)])
            yield c("gradient", "np.gradient(x,edge_order=1) explicit default", lambda np, x: np.gradient(x, edge_order=1) if x.ndim == 1 else np.gradient(x, edge_order=1)[0], [kind(*s)])
        for ax in range(-len(s), len(s)):
            yield c("gradient", "np.gradient(x,axis=%d)" % ax, lambda np, x, _a=ax: np.gradient(x, axis=_a), [kind(*s)])
        if len(s) == 2:
            yield c("gradient", "np.gradient(x,axis=(0,1))[1]", lambda np, x: np.gradient(x, axis=(0, 1))[1], [kind(*s)])
            yield c("gradient", "np.gradient(x,axis=(1,0))[0]", lambda np, x: np.gradient(x, axis=(1, 0))[0], [kind(*s)])
        yield c("gradient", "np.gradient(x,2.0)", lambda np, x: np.gradient(x, 2.0) if x.ndim == 1 else np.gradient(x, 2.0)[0], [kind(*s)])
    # where / clip / full / linspace / sort / partition / astype
    cnd = onp.array([True, False, True])
    yield c("where", "np.where(c,x,y)", lambda np, x, y: np.where(cnd, x, y), [kind(3), kind(3)], 0)
    yield c("where", "np.where(c,x,y)", lambda np, x, y: np.where(cnd, x, y), [kind(3), kind(3)], 1)
    yield c("where", "np.where(c,x,y) broadcast x", lambda np, x, y: np.where(cnd, x, y), [kind(1), kind(2, 3)], 0)
    yield c("where", "np.where(c,x,y) broadcast y", lambda np, x, y: np.where(cnd, x, y), [kind(2, 3), kind(1)], 1)
    yield c("where", "np.where(c,scalar,y)", lambda np, x, y: np.where(cnd, x, y), [sc, kind(3)], 0)
    yield c("where", "np.where(c,x,scalar)", lambda np, x, y: np.where(cnd, x, y), [kind(3), sc], 1)
    yield c("where", "np.where(c,x,0.0)", lambda np, x: np.where(cnd, x, 0.0), [kind(3)])
    yield c("where", "np.where(c,0.0,x)", lambda np, x: np.where(cnd, 0.0, x), [kind(3)])
    yield c("where", "np.where(xcond,a,b) wrt the float condition, broadcast (2,1) vs (2,3)", lambda np, x, a, b: np.where(x, a, b), [kind(2, 1), kind(2, 3), kind(2, 3)], 0)
    yield c("where", "np.where(xcond,a,b) wrt the float condition, (3,) vs (2,3)", lambda np, x, a, b: np.where(x, a, b), [kind(3), kind(2, 3), kind(2, 3)], 0)
    yield c("where", "np.where(scalar cond,a,b) wrt the condition", lambda np, x, a, b: np.where(x, a, b), [sc, kind(2, 3), kind(2, 3)], 0)
    yield c("where", "x*np.where(x,a,b) condition also used smoothly", lambda np, x, a, b: x * np.where(x, a, b), [kind(2, 1), kind(2, 3), kind(2, 3)], 0)
    yield c("where", "np.where(x>0,x,2*x) value-dependent", lambda np, x: np.where(x > 0, x, 2 * x), [kind(2)])
    yield c("where", "np.where(c2d,x,y) cond broadcast", lambda np, x, y: np.where(onp.array([[True], [False]]), x, y), [kind(3), kind(3)], 0)
    for lo, hi in [(-0.5, 0.5), (None, 0.5), (-0.5, None)]:
        yield c("clip", "np.clip(x,%r,%r)" % (lo, hi), lambda np, x, _l=lo, _h=hi: np.clip(x, _l, _h), [kind(2)])
        yield c("clip", "x.clip(%r,%r) method" % (lo, hi), lambda np, x, _l=lo, _h=hi: x.clip(_l, _h), [kind(2)])
    yield c("clip", "np.clip(x,a_min=-0.5,a_max=0.5) kwargs", lambda np, x: np.clip(x, a_min=-0.5, a_max=0.5), [kind(2)])
    yield c("clip", "np.clip(x,lo_array,hi_array)", lambda np, x: np.clip(x, onp.array([-0.5, -1.0]), onp.array([0.5, 1.0])), [kind(2)])
    yield c("clip", "np.clip(x,lo,hi) wrt lo (symbolic bound)", lambda np, x, lo: np.clip(x, lo, 10.0), [kind(2), kind(2)], 1)
    # bounds of a LARGER shape than x (x is broadcast against them), a scalar x against array bounds
    yield c("clip", "np.clip(x[3],lo[2,3],hi[2,3]) bounds broadcast x", lambda np, x: np.clip(x, onp.array([[-0.5, -1.0, -0.25], [-2.0, -0.1, -1.5]]), onp.array([[0.5, 1.0, 0.25], [2.0, 0.1, 1.5]])), [kind(3)])
    yield c("clip", "np.clip(scalar,lo[3],hi[3])", lambda np, x: np.clip(x, onp.array([-0.5, -1.0, -0.25]), onp.array([0.5, 1.0, 0.25])), [sc])
    yield c("clip", "np.clip(x[2,1],lo[3],hi) bounds broadcast x", lambda np, x: np.clip(x, onp.array([-0.5, -1.0, -0.25]), 0.75), [kind(2, 1)])
    yield c("full", "np.full((2,3),scalar)", lambda np, x: np.full((2, 3), x), [sc])
    yield c("full", "np.full((2,3),0-d)", lambda np, x: np.full((2, 3), x), [kind()])
    yield c("full", "np.full((2,3),x[3]) array fill", lambda np, x: np.full((2, 3), x), [kind(3)])
    yield c("full", "np.full((2,3),x[1]) size-1 fill", lambda np, x: np.full((2, 3), x), [kind(1)])
    yield c("full_like", "np.full_like(const,scalar)", lambda np, x: np.full_like(onp.zeros((2,)), x), [sc])
    yield c("linspace", "np.linspace(s,2.0,4)", lambda np, x: np.linspace(x, 2.0, 4), [sc])
    yield c("linspace", "np.linspace(-1.0,s,4)", lambda np, x: np.linspace(-1.0, x, 4), [sc])
    yield c("linspace", "np.linspace(s,t,3)", lambda np, x, y: np.linspace(x, y, 3), [sc, sc], 0)
    yield c("linspace", "np.linspace(s,t,3)", lambda np, x, y: np.linspace(x, y, 3), [sc, sc], 1)
    yield c("linspace", "np.linspace(s,2.0,num=4)", lambda np, x: np.linspace(x, 2.0, num=4), [sc])
    yield c("linspace", "np.linspace(s,2.0,4,endpoint=False)", lambda np, x: np.linspace(x, 2.0, 4, endpoint=False), [sc])
    for kw in ({"endpoint": False}, {"endpoint": True}, {"num": 4}, {"num": 4, "endpoint": False}, {"retstep": False}, {"axis": 0}):
        lab = ",".join("%s=%r" % kv for kv in kw.items())
        args_ = (4,) if "num" not in kw else ()
        yield c("linspace", "np.linspace(s,t,%s%s) wrt start" % ("4," if args_ else "", lab), lambda np, x, y, _kw=kw, _a=args_: np.linspace(x, y, *_a, **_kw), [sc, sc], 0)
        yield c("linspace", "np.linspace(s,t,%s%s) wrt stop" % ("4," if args_ else "", lab), lambda np, x, y, _kw=kw, _a=args_: np.linspace(x, y, *_a, **_kw), [sc, sc], 1)
        yield c("linspace", "np.linspace(-1.0,t,%s%s) wrt stop" % ("4," if args_ else "", lab), lambda np, y, _kw=kw, _a=args_: np.linspace(-1.0, y, *_a, **_kw), [sc], 0)
    yield c("linspace", "np.linspace(x[2],2.0,3) array start", lambda np, x: np.linspace(x, 2.0, 3), [kind(2)])
    # start and stop of DIFFERENT shapes (NumPy broadcasts them)
    yield c("linspace", "np.linspace(s,stop[2],4) scalar start, array stop", lambda np, x: np.linspace(x, onp.array([1.0, 2.0]), 4), [sc])
    yield c("linspace", "np.linspace(start[2],s,4) array start, scalar stop", lambda np, x: np.linspace(onp.array([1.0, 2.0]), x, 4), [sc])
    yield c("linspace", "np.linspace(x[2,1],y[3],3) broadcast start / stop", lambda np, x, y: np.linspace(x, y, 3), [kind(2, 1), kind(3)], 0)
    yield c("linspace", "np.linspace(x[2,1],y[3],3) broadcast start / stop", lambda np, x, y: np.linspace(x, y, 3), [kind(2, 1), kind(3)], 1)
    yield c("linspace", "np.linspace(s,2.0) default num", lambda np, x: np.linspace(x, 2.0), [sc])
    for n in ("sort", "partition"):
        extra = () if n == "sort" else (1,)
        yield c(n, "np.%s(x) 1-D" % n, lambda np, x, _n=n, _e=extra: getattr(np, _n)(x, *_e), [kind(3)])
        yield c(n, "np.%s(x) 2-D" % n, lambda np, x, _n=n, _e=extra: getattr(np, _n)(x, *_e), [kind(2, 2)])
        yield c(n, "np.%s(x,axis=0) 2-D" % n, lambda np, x, _n=n, _e=extra: getattr(np, _n)(x, *_e, axis=0), [kind(2, 2)])
        yield c(n, "np.%s(x,axis=None) 2-D" % n, lambda np, x, _n=n, _e=extra: getattr(np, _n)(x, *_e, axis=None), [kind(2, 2)])
        yield c(n, "np.%s(x) size-1" % n, lambda np, x, _n=n: getattr(np, _n)(x, *(() if _n == "sort" else (0,))), [kind(1)])
    if kind is R:
        # a real array made complex by a constructor / cast: the gradient w.r.t. the real array is real
        yield c("array", "np.array(x, dtype=complex) * (1+2j)", lambda np, x: np.array(x, dtype=complex) * (1.0 + 2.0j) if np is not onp else x * (1.0 + 2.0j), [kind(2)])
        yield c("astype", "x.astype(complex) * (1+2j)", lambda np, x: x.astype(complex) * (1.0 + 2.0j) if np is not onp else x * (1.0 + 2.0j), [kind(2)])
        yield c("array", "np.asarray(x, dtype=complex) * (1+2j)", lambda np, x: np.asarray(x, dtype=complex) * (1.0 + 2.0j) if np is not onp else x * (1.0 + 2.0j), [kind(2)])
    yield c("astype", "x.astype(float) method", lambda np, x: x.astype(float) if hasattr(x, "_value") or x.dtype != object else x, [kind(2)])
    for n, f in [("take", lambda np, x: np.take(x, [0, 2])), ("take method", lambda np, x: x.take([0, 2])), ("compress", lambda np, x: np.compress([True, False, True], x)),
                 ("delete", lambda np, x: np.delete(x, 1)), ("insert", lambda np, x: np.insert(x, 1, 5.0)), ("copy", lambda np, x: np.copy(x)),
                 ("ascontiguousarray", lambda np, x: np.ascontiguousarray(x)), ("squeeze0", lambda np, x: np.squeeze(x[:1])),
                 ("resize", lambda np, x: np.resize(x, (2, 2))), ("trim_zeros", lambda np, x: np.trim_zeros(x)), ("unique", lambda np, x: np.unique(x)),
                 ("interp", lambda np, x: np.interp(x, [0.0, 1.0], [0.0, 2.0])),
                 ("convolve", lambda np, x: np.convolve(x, onp.array([1.0, 2.0]))), ("correlate", lambda np, x: np.correlate(x, onp.array([1.0, 2.0]))),
                 ("trapz-like sum", lambda np, x: np.sum(x[1:] + x[:-1]) / 2.0), ("vdot", lambda np, x: np.vdot(x, x)), ("meshgrid", lambda np, x: np.meshgrid(x, x)[0]),
                 ("tri", lambda np, x: np.tri(3) @ x), ("eye@", lambda np, x: np.eye(3) @ x), ("ones_like*", lambda np, x: np.ones_like(x) * x), ("zeros_like+", lambda np, x: np.zeros_like(x) + x),
                 ("expand via None index", lambda np, x: x[None, :]), ("heaviside", lambda np, x: np.heaviside(x, 0.5)), ("ldexp", lambda np, x: np.ldexp(x, 2)),
                 ("dot method", lambda np, x: x.dot(x)), ("matrix_power", lambda np, x: np.linalg.matrix_power(np.outer(x, x), 2)),
                 ("polyval", lambda np, x: np.polyval(x, 2.0)),
                 ("cov", lambda np, x: np.cov(np.stack([x, 2 * x * x]))), ("tensorinv-free: fmod", lambda np, x: np.fmod(x, 0.7)),
                 ("nextafter", lambda np, x: np.nextafter(x, 1.0)), ("spacing", lambda np, x: np.spacing(x)), ("modf", lambda np, x: np.modf(x)[0]),
                 ("frexp", lambda np, x: np.frexp(x)[0]), ("divmod", lambda np, x: np.divmod(x, 0.7)[1]), ("around", lambda np, x: np.around(x) * x), ("round method", lambda np, x: x.round() * x)]:
        yield c("misc:" + n, "misc %s on x[3]" % n, f, [kind(3)])
    # kron / cross
    for a, b in [((2,), (3,)), ((2, 2), (2, 3)), ((2,), (2, 2)), ((2, 2), (3,)), ((), (2,)), ((2,), ()), ((), ()), ((2, 1, 2), (1, 2, 2)), ((2, 2), (1, 2, 2)), ((1, 2, 2), (2, 2))]:
        for k in (0, 1):
            yield c("kron", "np.kron(x,y)", lambda np, x, y: np.kron(x, y), [kind(*a), kind(*b)], k)
    for a, b, kw in [((3,), (3,), {}), ((2, 3), (2, 3), {}), ((3,), (2, 3), {}), ((2, 3), (3,), {}), ((1, 3), (2, 3), {}), ((2,), (2,), {}), ((3,), (2,), {}), ((2,), (3,), {}),
                     ((3, 2), (3, 2), {"axis": 0}), ((3, 2), (2, 3), {"axisa": 0}), ((2, 3), (3, 2), {"axisb": 0}), ((2, 3), (2, 3), {"axisc": 0}), ((2, 3), (2, 3), {"axis": -1}),
                     ((2, 2), (2, 2), {}), ((2, 2), (2, 3), {})]:
        for k in (0, 1):
            yield c("cross", "np.cross(x,y%s)" % "".join(",%s=%r" % kv for kv in kw.items()), lambda np, x, y, _kw=kw: np.cross(x, y, **_kw), [kind(*a), kind(*b)], k)


# ----------------------------------------------------------------------------------------------
def fam_contract(tier, kind=R):
    c = lambda prim, lab, f, args, k=0: Config(prim, lab, f, args, k)
    dots = [((), ()), ((), (2,)), ((2,), ()), ((3,), (3,)), ((2, 3), (3,)), ((3,), (3, 2)), ((2, 3), (3, 2)), ((2, 2, 3), (3,)), ((3,), (2, 3, 2)),
            ((2, 3), (2, 3, 2)), ((2, 2, 3), (3, 2)), ((2, 1, 3), (2, 3, 1)), ((), (2, 2)), ((2, 2), ()), ((1, 3), (3, 1)), ((1,), (1,))]
    for a, b in dots:
        for k in (0, 1):
            yield c("dot", "np.dot(x,y)", lambda np, x, y: np.dot(x, y), [kind(*a), kind(*b)], k)
    yield c("dot", "x.dot(y) method", lambda np, x, y: x.dot(y), [kind(2, 3), kind(3, 2)], 0)
    yield c("dot", "np.dot(x,x) same arg twice", lambda np, x: np.dot(x, x), [kind(2, 2)], 0)
    yield c("dot", "np.dot(scalar,y)", lambda np, x, y: np.dot(x, y), [SC if kind is R else CSC, kind(2)], 0)
    mms = [((3,), (3,)), ((2, 3), (3,)), ((3,), (3, 2)), ((2, 3), (3, 2)), ((2, 2, 3), (3, 2)), ((2, 3), (2, 3, 2)), ((2, 2, 3), (2, 3, 2)), ((1, 2, 3), (2, 3, 2)),
           ((2, 1, 2, 3), (3, 3, 2)), ((3,), (2, 3, 2)), ((2, 2, 3), (3,)), ((1, 3), (3, 1)), ((2, 1, 3), (1, 3, 2)), ((1, 1), (1, 1))]
    for a, b in mms:
        for k in (0, 1):
            yield c("matmul", "np.matmul(x,y)", lambda np, x, y: np.matmul(x, y), [kind(*a), kind(*b)], k)
            yield c("matmul", "x @ y", lambda np, x, y: x @ y, [kind(*a), kind(*b)], k)
    yield c("matmul", "const @ x (reflected)", lambda np, x: onp.ones((2, 2)) @ x, [kind(2, 3)], 0)
    yield c("matmul", "x @ x", lambda np, x: x @ x, [kind(2, 2)], 0)
    tds = [((2, 3), (3, 2), 1), ((2, 3), (2, 3), 2), ((2, 3), (2, 2), 0), ((2, 3, 2), (3, 2, 2), 2), ((2, 3, 2), (2, 3), 1), ((2,), (3,), 0), ((3,), (3,), 1),
           ((2, 3), (3, 2), ([1], [0])), ((2, 3), (3, 2), ([-1], [0])), ((2, 3), (2, 3), ([0, 1], [0, 1])), ((2, 3), (3, 2), ([0, 1], [1, 0])), ((2, 3), (3, 2), ([1, 0], [0, 1])),
           ((2, 3, 2), (2, 3), ([0, 1], [0, 1])), ((2, 3, 2), (2, 3), ([-1, 1], [0, -1])), ((2, 3, 2), (3, 2, 2), ((1, 0), (0, 2))), ((2, 3), (3, 2), (1, 0)), ((2, 3), (2, 2), (0, -1)),
           ((2, 3, 2), (2, 2), ([0], [1])), ((2, 3, 2), (2, 2), ([2, 0], [0, 1])), ((2, 3), (3,), ([1], [0])), ((), (2,), 0), ((2,), (), 0), ((2, 3), (3, 2), ([], [])),
           # crossed axis pairings with EQUAL extents (a wrong inverse permutation keeps the shape) and permuted total contractions
           ((3, 3), (2, 3, 3), ([0, 1], [2, 1])), ((3, 3), (3, 2, 3), ([1, 0], [0, 2])), ((2, 2), (2, 2), ([0, 1], [1, 0])), ((2, 2, 2), (2, 2, 2), ([0, 1, 2], [2, 0, 1])),
           ((2, 2, 2), (2, 2, 2), ([2, 0], [0, 1])), ((2, 3, 3), (3, 3), ([1, 2], [1, 0])), ((2, 2), (2, 2), ([1, 0], [1, 0]))]
    for a, b, ax in tds:
        for k in (0, 1):
            yield c("tensordot", "np.tensordot(x,y,%r)" % (ax,), lambda np, x, y, _a=ax: np.tensordot(x, y, _a), [kind(*a), kind(*b)], k)
            yield c("tensordot", "np.tensordot(x,y,axes=%r)" % (ax,), lambda np, x, y, _a=ax: np.tensordot(x, y, axes=_a), [kind(*a), kind(*b)], k)
    yield c("tensordot", "np.tensordot(x,y) default axes", lambda np, x, y: np.tensordot(x, y), [kind(2, 3, 2), kind(3, 2, 2)], 0)
    yield c("tensordot", "np.tensordot(x,y) default axes", lambda np, x, y: np.tensordot(x, y), [kind(2, 3, 2), kind(3, 2, 2)], 1)
    for a, b in [((3,), (3,)), ((2, 3), (3,)), ((3,), (2, 3)), ((2, 3), (2, 3)), ((), (2,)), ((2,), ()), ((2, 2, 3), (2, 3)), ((2, 3), (1, 2, 3)), ((), ())]:
        for k in (0, 1):
            yield c("inner", "np.inner(x,y)", lambda np, x, y: np.inner(x, y), [kind(*a), kind(*b)], k)
    for a, b in [((2,), (3,)), ((2, 2), (3,)), ((2,), (2, 2)), ((2, 2), (2, 2)), ((), (2,)), ((2,), ()), ((1,), (1,))]:
        for k in (0, 1):
            yield c("outer", "np.outer(x,y)", lambda np, x, y: np.outer(x, y), [kind(*a), kind(*b)], k)
    eins = [("ij,jk->ik", [(2, 3), (3, 2)]), ("ij,jk", [(2, 3), (3, 2)]), ("ij->ji", [(2, 3)]), ("ii->i", [(2, 2)]), ("ii", [(2, 2)]), ("ij->", [(2, 3)]), ("ij->i", [(2, 3)]),
            ("i,i->", [(3,), (3,)]), ("i,j->ij", [(2,), (3,)]), ("ij,j->i", [(2, 3), (3,)]), ("...ij,jk->...ik", [(2, 2, 3), (3, 2)]), ("...ij,...jk->...ik", [(2, 2, 3), (1, 3, 2)]),
            ("ij,ij->ij", [(2, 3), (2, 3)]), ("ij,ij->", [(2, 3), (2, 3)]), ("i,i,i->", [(2,), (2,), (2,)]), ("ij,jk,kl->il", [(2, 2), (2, 3), (3, 2)]), ("i...->...", [(2, 3)]),
            ("...i,...i->...", [(2, 3), (3,)]), ("ijk->kji", [(2, 3, 2)]), ("iij->j", [(2, 2, 3)]), ("i,->i", [(2,), ()]), (",->", [(), ()]), ("ij,kj->ik", [(2, 3), (2, 3)]),
            ("i->ii", [(2,)]), ("ij...,jk...->ik...", [(2, 3, 2), (3, 2, 1)]), ("...,...->...", [(2, 3), (3,)]), ("ab , bc -> ac", [(2, 3), (3, 2)]), ("ij,ij->j", [(2, 1), (2, 3)]),
            ("ij,j->ij", [(1, 3), (3,)]), ("...j,j->...", [(1, 3), (3,)])]
    for sub, shs in eins:
        for k in range(len(shs)):
            yield c("einsum", "np.einsum(%r,...)" % sub, lambda np, *xs, _s=sub: np.einsum(_s, *xs), [kind(*s) for s in shs], k)
    yield c("einsum", "np.einsum(x,[0,1],y,[1,2],[0,2]) sublists", lambda np, x, y: np.einsum(x, [0, 1], y, [1, 2], [0, 2]), [kind(2, 3), kind(3, 2)], 0)
    yield c("einsum", "np.einsum(x,[0,1],y,[1,2],[0,2]) sublists", lambda np, x, y: np.einsum(x, [0, 1], y, [1, 2], [0, 2]), [kind(2, 3), kind(3, 2)], 1)
    yield c("einsum", "np.einsum(x,[0,1],y,[1,2]) sublists no output", lambda np, x, y: np.einsum(x, [0, 1], y, [1, 2]), [kind(2, 3), kind(3, 2)], 0)
    yield c("einsum", "np.einsum(x,[Ellipsis,0],y,[Ellipsis,0],[Ellipsis]) sublists ellipsis", lambda np, x, y: np.einsum(x, [Ellipsis, 0], y, [Ellipsis, 0], [Ellipsis]), [kind(2, 3), kind(3)], 1)
    yield c("einsum", "np.einsum(x,[0,Ellipsis],y,[0,Ellipsis],[Ellipsis]) sublists ellipsis last", lambda np, x, y: np.einsum(x, [0, Ellipsis], y, [0, Ellipsis], [Ellipsis]), [kind(2, 3), kind(2, 1)], 1)
    # sublist convention with a TRAILING / MIDDLE Ellipsis where the differentiated operand lacks the broadcast dimensions
    # (unbroadcast must sum the axes at the Ellipsis position, not the leading ones); distinct extents
    for k in (0, 1):
        yield c("einsum", "np.einsum(x,[0,1,...],y,[1,2,...],[0,2,...]) trailing ellipsis, x without batch dims", lambda np, x, y: np.einsum(x, [0, 1, Ellipsis], y, [1, 2, Ellipsis], [0, 2, Ellipsis]), [kind(2, 3), kind(3, 2, 4)], k)
        yield c("einsum", "np.einsum(x,[0,...,1],y,[1,...,2],[0,...,2]) middle ellipsis, x without batch dims", lambda np, x, y: np.einsum(x, [0, Ellipsis, 1], y, [1, Ellipsis, 2], [0, Ellipsis, 2]), [kind(2, 3), kind(3, 4, 2)], k)
        yield c("einsum", "np.einsum('...ij,...jk->...ik') size-1 batch dim broadcast against a larger one", lambda np, x, y: np.einsum("...ij,...jk->...ik", x, y), [kind(1, 2, 3), kind(2, 3, 2)], k)
        yield c("einsum", "np.einsum('ij,jk->ik') named size-1 dim broadcast", lambda np, x, y: np.einsum("ij,jk->ik", x, y), [kind(2, 1), kind(3, 2)], k)
        yield c("einsum", "np.einsum('i...j,j...k->i...k') middle ellipsis string form", lambda np, x, y: np.einsum("i...j,j...k->i...k", x, y), [kind(2, 1, 3), kind(3, 2, 2)], k)
    yield c("einsum", "np.einsum('ij,jk->ik',x,x) same arg twice", lambda np, x: np.einsum("ij,jk->ik", x, x), [kind(2, 2)], 0)
    for sa, sb in [((2, 2, 3), (2, 3, 2)), ((2, 3), (2, 3, 2)), ((2, 2, 3), (3,)), ((1, 2, 3), (2, 3, 2))]:
        for k in (0, 1):
            yield c("matmul", "x @ y operator, batched %r @ %r" % (sa, sb), lambda np, x, y: x @ y, [kind(*sa), kind(*sb)], k)
    yield c("matmul", "W0 @ x reflected operator with a batched right operand", lambda np, x: onp.arange(6.0).reshape(2, 3) @ x, [kind(2, 3, 2)], 0)
    yield c("einsum", "np.einsum('ij,jk->ik',x,y,optimize=True)", lambda np, x, y: np.einsum("ij,jk->ik", x, y, optimize=True), [kind(2, 3), kind(3, 2)], 0)


def fam_linalg(tier, kind=R):
    c = lambda prim, lab, f, args, k=0: Config(prim, lab, f, args, k)
    T = tier == "thorough"
    for s in [(2, 2), (1, 1), (2, 2, 2)] + ([(3, 3)] if T else []):
        yield c("det", "la.det(x)", lambda np, x: np.linalg.det(x), [kind(*s)])
        yield c("inv", "la.inv(x)", lambda np, x: np.linalg.inv(x), [kind(*s)])
        yield c("slogdet", "la.slogdet(x)[1]", lambda np, x: np.linalg.slogdet(x)[1], [kind(*s)])
        yield c("slogdet", "la.slogdet(x) both", lambda np, x: np.linalg.slogdet(x)[0] * np.linalg.slogdet(x)[1], [kind(*s)])
    yield c("det", "la.det(x) 3x3", lambda np, x: np.linalg.det(x), [kind(3, 3)])
    for a, b in [((2, 2), (2,)), ((2, 2), (2, 2)), ((2, 2), (2, 3)), ((2, 2, 2), (2, 2, 1)), ((2, 2, 2), (2, 2)), ((2, 2), (2, 2, 2)), ((1, 1), (1,))]:
        for k in (0, 1):
            yield c("solve", "la.solve(a,b)", lambda np, a, b: np.linalg.solve(a, b), [kind(*a), kind(*b)], k)
    for s in [(3,), (2, 2), (2, 3), (2, 2, 2)]:
        yield c("norm", "la.norm(x)", lambda np, x: np.linalg.norm(x), [kind(*s)])
        nd = len(s)
        for o in [None, 2, 3, 4, "fro", "nuc", INF, -INF, 1, 0, 0.5, -1, 2.5, 1.5]:
            if o in (2.5, 1.5, 4) and not T:
                continue
            if len(s) > 1 and int(onp.prod(s)) > (6 if T else 4) and o not in (None, "fro", 2):
                continue  # piecewise / high-degree norms only on <= 4 entries (thorough: 6): path and solver cost
            if T and o in (2.5, 1.5, 4) and int(onp.prod(s)) > 4:
                continue
            yield c("norm", "la.norm(x,%r)" % (o,), lambda np, x, _o=o: np.linalg.norm(x, _o), [kind(*s)])
            for ax in list(range(-nd, nd)) + ([(0, 1), (1, 0), (-1, -2), (0, -1)] if nd >= 2 else []) + ([(0, 2), (1, 2), (2, 0)] if nd == 3 else []):
                yield c("norm", "la.norm(x,%r,axis=%r)" % (o, ax), lambda np, x, _o=o, _a=ax: np.linalg.norm(x, _o, axis=_a), [kind(*s)])
        yield c("norm", "la.norm(x,axis=0,keepdims=True)", lambda np, x: np.linalg.norm(x, axis=0, keepdims=True), [kind(*s)])
        yield c("norm", "la.norm(x,ord=2,axis=-1)", lambda np, x: np.linalg.norm(x, ord=2, axis=-1), [kind(*s)])
    for n in ("cholesky", "eigh", "eig", "svd", "pinv", "qr", "eigvalsh", "eigvals", "matrix_rank", "cond", "lstsq", "tensorinv", "tensorsolve"):
        yield c(n, "la.%s(x) [LAPACK: outside the engine]" % n, lambda np, x, _n=n: getattr(np.linalg, _n)(x), [kind(2, 2)])
    # rectangular / batched / option layouts of the LAPACK-backed rules (decided on float64: probes and the reuse protocol)
    for s in [(2, 3), (3, 2), (2, 2, 3), (3, 3)]:
        yield c("svd", "la.svd(x,full_matrices=False) [LAPACK: outside the engine]", lambda np, x: np.linalg.svd(x, full_matrices=False), [kind(*s)])
        yield c("svd", "la.svd(x,compute_uv=False) [LAPACK: outside the engine]", lambda np, x: np.linalg.svd(x, compute_uv=False), [kind(*s)])
        yield c("pinv", "la.pinv(x) rectangular [LAPACK: outside the engine]", lambda np, x: np.linalg.pinv(x), [kind(*s)])
        yield c("qr", "la.qr(x) rectangular [LAPACK: outside the engine]", lambda np, x: np.linalg.qr(x), [kind(*s)])
    for s in [(3, 3), (2, 2, 2)]:
        yield c("eigh", "la.eigh(x + x^T) [LAPACK: outside the engine]", lambda np, x: np.linalg.eigh(x + np.swapaxes(x, -1, -2)), [kind(*s)])
        yield c("cholesky", "la.cholesky(x x^T + 3I) [LAPACK: outside the engine]", lambda np, x: np.linalg.cholesky(np.matmul(x, np.swapaxes(x, -1, -2)) + 3.0 * onp.eye(x.shape[-1])), [kind(*s)])
        yield c("slogdet", "la.slogdet(x)[1] batched", lambda np, x: np.linalg.slogdet(x)[1], [kind(*s)])


def _ro_int(t):
    a = onp.array(t)
    a.flags.writeable = False
    return a


def fam_fft(tier, kind=R):
    c = lambda prim, lab, f, args, k=0: Config(prim, lab, f, args, k)
    norms = [None, "ortho", "forward", "backward"]
    for n in ("fft", "ifft"):
        for s in [(4,), (2,), (2, 4), (1,), (4, 2), (3,)] + ([(6,), (2, 3)] if tier == "thorough" else []):
            yield c(n, "fft.%s(x)" % n, lambda np, x, _n=n: getattr(np.fft, _n)(x), [kind(*s)])
            for nn in [1, 2, 4, 3] + ([6] if tier == "thorough" else []):
                yield c(n, "fft.%s(x,%d)" % (n, nn), lambda np, x, _n=n, _k=nn: getattr(np.fft, _n)(x, _k), [kind(*s)])
                yield c(n, "fft.%s(x,n=%d)" % (n, nn), lambda np, x, _n=n, _k=nn: getattr(np.fft, _n)(x, n=_k), [kind(*s)])
            for ax in range(-len(s), len(s)):
                yield c(n, "fft.%s(x,axis=%d)" % (n, ax), lambda np, x, _n=n, _a=ax: getattr(np.fft, _n)(x, axis=_a), [kind(*s)])
                yield c(n, "fft.%s(x,2,%d) positional" % (n, ax), lambda np, x, _n=n, _a=ax: getattr(np.fft, _n)(x, 2, _a), [kind(*s)])
            for nm in norms[1:]:
                yield c(n, "fft.%s(x,norm=%r)" % (n, nm), lambda np, x, _n=n, _m=nm: getattr(np.fft, _n)(x, norm=_m), [kind(*s)])
    for n in ("fft2", "ifft2", "fftn", "ifftn"):
        for s in [(2, 2), (2, 4), (2, 2, 2), (4, 1), (3, 2)]:
            yield c(n, "fft.%s(x)" % n, lambda np, x, _n=n: getattr(np.fft, _n)(x), [kind(*s)])
            for ss in [(2, 2), (4, 2), (1, 2), (2, 4)]:
                yield c(n, "fft.%s(x,s=%r)" % (n, ss), lambda np, x, _n=n, _s=ss: getattr(np.fft, _n)(x, s=_s), [kind(*s)])
                yield c(n, "fft.%s(x,%r) positional" % (n, ss), lambda np, x, _n=n, _s=ss: getattr(np.fft, _n)(x, _s), [kind(*s)])
            for ax in [(0, 1), (1, 0), (-1, -2), (0, -1), (-2, 1), (0,), (-1,), (0, 0), (1, -1), (-1, 1)] + ([(0, 2), (2, 0, 1), (0, 1, 2)] if len(s) == 3 else []):
                yield c(n, "fft.%s(x,axes=%r)" % (n, ax), lambda np, x, _n=n, _a=ax: getattr(np.fft, _n)(x, axes=_a), [kind(*s)])
                yield c(n, "fft.%s(x,s=(2,)*k,axes=%r)" % (n, ax), lambda np, x, _n=n, _a=ax: getattr(np.fft, _n)(x, s=(2,) * len(_a), axes=_a), [kind(*s)])
            for nm in norms[1:]:
                yield c(n, "fft.%s(x,norm=%r)" % (n, nm), lambda np, x, _n=n, _m=nm: getattr(np.fft, _n)(x, norm=_m), [kind(*s)])
    if kind is R:
        for n in ("rfft", "irfft"):
            for ax in (0, 1, -1, -2):
                yield c(n, "fft.%s(x,axis=%d) square input" % (n, ax), lambda np, x, _n=n, _a=ax: getattr(np.fft, _n)(x, axis=_a), [R(4, 4)] if n == "rfft" else [Cx(3, 3)])
                yield c(n, "fft.%s(x,4,axis=%d) square input" % (n, ax), lambda np, x, _n=n, _a=ax: getattr(np.fft, _n)(x, 4, axis=_a), [R(3, 3)] if n == "rfft" else [Cx(3, 3)])
            for s in [(4,), (2,), (2, 4), (3,), (4, 2)]:
                arg = [R(*s)] if n == "rfft" else [Cx(*s)]
                if n == "irfft" and s == (4,):
                    arg = [Cx(3)]
                yield c(n, "fft.%s(x)" % n, lambda np, x, _n=n: getattr(np.fft, _n)(x), arg)
                for nn in [2, 4, 1, 3]:
                    yield c(n, "fft.%s(x,%d)" % (n, nn), lambda np, x, _n=n, _k=nn: getattr(np.fft, _n)(x, _k), arg)
                    yield c(n, "fft.%s(x,n=%d)" % (n, nn), lambda np, x, _n=n, _k=nn: getattr(np.fft, _n)(x, n=_k), arg)
                for ax in range(-len(s), len(s)):
                    yield c(n, "fft.%s(x,axis=%d)" % (n, ax), lambda np, x, _n=n, _a=ax: getattr(np.fft, _n)(x, axis=_a), arg)
                    yield c(n, "fft.%s(x,2,axis=%d)" % (n, ax), lambda np, x, _n=n, _a=ax: getattr(np.fft, _n)(x, 2, axis=_a), arg)
                for nm in norms[1:]:
                    yield c(n, "fft.%s(x,norm=%r)" % (n, nm), lambda np, x, _n=n, _m=nm: getattr(np.fft, _n)(x, norm=_m), arg)
                    yield c(n, "fft.%s(x,4,norm=%r)" % (n, nm), lambda np, x, _n=n, _m=nm: getattr(np.fft, _n)(x, 4, norm=_m), arg)
        for n in ("rfft2", "irfft2", "rfftn", "irfftn"):
            for s in [(2, 2), (2, 4), (4, 2), (2, 2, 2)]:
                inv = n.startswith("i")
                s_in = s if not inv else s[:-1] + (s[-1] // 2 + 1,)
                arg = [Cx(*s_in)] if inv else [R(*s)]
                yield c(n, "fft.%s(x)" % n, lambda np, x, _n=n: getattr(np.fft, _n)(x), arg)
                for ss in [(2, 2), (4, 2), (2, 4), (1, 2)]:
                    yield c(n, "fft.%s(x,s=%r)" % (n, ss), lambda np, x, _n=n, _s=ss: getattr(np.fft, _n)(x, s=_s), arg)
                for ss in [(4, 2), (2, 4)]:
                    # the shape given as a (read-only) integer ndarray the caller keeps: a rule that edits it in place raises
                    yield c(n, "fft.%s(x,s=ndarray%r)" % (n, ss), lambda np, x, _n=n, _s=_ro_int(ss): getattr(np.fft, _n)(x, s=_s), arg)
                for ax in [(0, 1), (1, 0), (-1, -2), (-2, -1), (0, -1), (0, 0), (-1, 1)]:
                    yield c(n, "fft.%s(x,axes=%r)" % (n, ax), lambda np, x, _n=n, _a=ax: getattr(np.fft, _n)(x, axes=_a), arg)
                    yield c(n, "fft.%s(x,s=(2,2),axes=%r)" % (n, ax), lambda np, x, _n=n, _a=ax: getattr(np.fft, _n)(x, s=(2, 2), axes=_a), arg)
                for nm in norms[1:]:
                    yield c(n, "fft.%s(x,norm=%r)" % (n, nm), lambda np, x, _n=n, _m=nm: getattr(np.fft, _n)(x, norm=_m), arg)
    if kind is R:
        # the inverse real transforms also accept a REAL-valued half-spectrum (NumPy promotes it): the gradient w.r.t. a
        # real array is real
        for n, s_in, kw in [("irfft", (3,), {}), ("irfft", (3,), {"n": 6, "norm": "ortho"}), ("irfft", (2, 3), {"axis": 0}), ("irfft2", (2, 2), {}), ("irfft2", (2, 3), {"s": (2, 2)}),
                            ("irfftn", (2, 2), {}), ("irfftn", (2, 2, 2), {"axes": (0, 2)}), ("irfftn", (3, 2), {"norm": "forward"})]:
            yield c(n, "fft.%s(real x%s)" % (n, "".join(",%s=%r" % kv for kv in sorted(kw.items()))), lambda np, x, _n=n, _k=kw: getattr(np.fft, _n)(x, **_k), [R(*s_in)])
        yield c("irfft", "fft.irfft(tanh(x)) real intermediate", lambda np, x: np.fft.irfft(np.tanh(x)), [R(3)])
    for n in ("fftshift", "ifftshift"):
        for s in [(3,), (4,), (2, 3)]:
            yield c(n, "fft.%s(x)" % n, lambda np, x, _n=n: getattr(np.fft, _n)(x), [kind(*s)])
            for ax in list(range(-len(s), len(s))) + ([(0, 1), (-1,), (1, 0)] if len(s) == 2 else []):
                yield c(n, "fft.%s(x,axes=%r)" % (n, ax), lambda np, x, _n=n, _a=ax: getattr(np.fft, _n)(x, axes=_a), [kind(*s)])
                yield c(n, "fft.%s(x,%r) positional" % (n, ax), lambda np, x, _n=n, _a=ax: getattr(np.fft, _n)(x, _a), [kind(*s)])


def fam_operators(tier, kind=R):
    """functions wrapped by autograd's function transformers that install their own derivative rule
    (checkpoint): positional layouts in which the traced argument is not the first one"""
    import autograd

    W0 = onp.array([[0.5, -1.0, 0.25], [1.5, 0.75, -0.5]])
    X0 = onp.array([0.25, -0.75, 1.25])

    def ck(np, body):
        return autograd.checkpoint(body)

    yield Config("checkpoint", "checkpoint(lambda W,x: tanh(W@x))(W0 const, x)", lambda np, x: ck(np, lambda w, x_: np.tanh(np.dot(w, x_)))(W0, x), [kind(3)], 0)
    yield Config("checkpoint", "checkpoint(lambda W,x: tanh(W@x))(W, x0 const)", lambda np, w: ck(np, lambda w_, x_: np.tanh(np.dot(w_, x_)))(w, X0), [kind(2, 3)], 0)
    for k in (0, 1):
        yield Config("checkpoint", "checkpoint(lambda W,x: tanh(W@x))(W, x) both traced", lambda np, w, x: ck(np, lambda w_, x_: np.tanh(np.dot(w_, x_)))(w, x), [kind(2, 3), kind(3)], k)
    yield Config("checkpoint", "checkpoint(f)(W0 const, 2.0, x, scale=1.5) three slots, keyword", lambda np, x: ck(np, lambda w, m, x_, scale=1.0: np.sum(w, axis=0) * x_ * m * scale)(W0, 2.0, x, scale=1.5), [kind(3)], 0)
    yield Config("checkpoint", "sin(checkpoint(f)(W0 const, sin(x)))", lambda np, x: np.sin(ck(np, lambda w, x_: np.dot(w, x_ * x_))(W0, np.sin(x))), [kind(3)], 0)
    yield Config("checkpoint", "checkpoint(f)(x, x) same traced value in both slots", lambda np, x: ck(np, lambda a, b: a * np.cos(b))(x, x), [kind(3)], 0)
    yield Config("checkpoint", "checkpoint(f)(scalar const, x)", lambda np, x: ck(np, lambda a, b: a * b * b)(3.0, x), [kind(2)], 0)


_EXT = {}


def _ext_prims():
    """user primitives registered through autograd.extend with None (non-differentiable) positions whose shape / kind
    differs from the output's"""
    if _EXT:
        return _EXT
    from autograd.extend import defjvp, defvjp, primitive

    @primitive
    def qdot(x, w):
        return onp.sum(x * x)

    defvjp(qdot, lambda ans, x, w: lambda g: g * 2.0 * x, None)
    defjvp(qdot, lambda g, ans, x, w: onp.sum(2.0 * x * g) if not hasattr(g, "_value") else (2.0 * x * g).sum(), None)

    @primitive
    def qscale(x, s_):
        return x * 3.0

    defvjp(qscale, lambda ans, x, s_: lambda g: g * 3.0, None)
    defjvp(qscale, lambda g, ans, x, s_: g * 3.0, None)

    @primitive
    def qphase(x, t):
        return x * 1j

    defvjp(qphase, lambda ans, x, t: lambda g: g * 1j, None)
    defjvp(qphase, lambda g, ans, x, t: g * 1j, None)
    # f(x, s) = s * exp(x) registered through each of the registration APIs, every rule written IN TERMS OF THE OUTPUT
    # `ans` (d/dx = ans, d/ds = ans / s): under nested differentiation `ans` must reach the rule as seen at that level
    from autograd.extend import defjvp_argnums, defvjp_argnum, defvjp_argnums
    from autograd.core import defjvp_argnum
    import autograd.numpy as anp

    def mk():
        @primitive
        def q(x, s_):
            return s_ * onp.exp(x)

        return q

    qexp_pos, qexp_argnum, qexp_argnums = mk(), mk(), mk()
    vx = lambda ans, x, s_: lambda g: g * ans
    vs_ = lambda ans, x, s_: lambda g: anp.sum(g * ans) / s_
    jx = lambda t, ans, x, s_: t * ans
    js = lambda t, ans, x, s_: t * ans / s_
    defvjp(qexp_pos, vx, vs_)
    defjvp(qexp_pos, jx, js)
    defvjp_argnum(qexp_argnum, lambda argnum, ans, args, kwargs: (vx, vs_)[argnum](ans, *args))
    defjvp_argnum(qexp_argnum, lambda argnum, t, ans, args, kwargs: (jx, js)[argnum](t, ans, *args))
    defvjp_argnums(qexp_argnums, lambda argnums, ans, args, kwargs: lambda g: tuple((vx, vs_)[a](ans, *args)(g) for a in argnums))
    defjvp_argnums(qexp_argnums, lambda argnums, ts, ans, args, kwargs: sum((jx, js)[a](t, ans, *args) for a, t in zip(argnums, ts)))
    # PASS-THROUGH raw functions (the argument object itself is handed back) whose registered rules are NOT the identity:
    # a scaling by 3 (a "gradient scaling" layer), a stop-gradient (None), a per-argnum rule.  The registered rule is what
    # must be used and routed, whatever the raw function returns.
    @primitive
    def qpass3(x):
        return x

    defvjp(qpass3, lambda ans, x: lambda g: 3.0 * g)
    defjvp(qpass3, lambda t, ans, x: 3.0 * t)

    @primitive
    def qstop(x, s_):
        return x

    defvjp(qstop, None, lambda ans, x, s_: lambda g: anp.sum(g) * 0.0 + 0.0 * s_)
    defjvp(qstop, None, lambda t, ans, x, s_: t * 0.0 * x)

    qpass_argnum = primitive(lambda x, s_: x)
    defvjp_argnum(qpass_argnum, lambda argnum, ans, args, kwargs: (lambda g: 5.0 * g) if argnum == 0 else (lambda g: anp.sum(g) * 0.0))
    defjvp_argnum(qpass_argnum, lambda argnum, t, ans, args, kwargs: 5.0 * t if argnum == 0 else 0.0 * ans * t)
    # the LEGACY registration API (autograd.primitive + f.defvjp(rule, argnum=k) / f.defgrad): rules receive
    # (g, ans, vs, gvs, *args, **kwargs) and must see the call's keyword arguments
    import warnings as _w

    import autograd as _ag

    with _w.catch_warnings():
        _w.simplefilter("ignore")

        @_ag.primitive
        def qlegacy(x, w_, gain=1.0, shift=0.0):
            return gain * x * w_ + shift

        qlegacy.defvjp(lambda g, ans, vs, gvs, x, w_, gain=1.0, shift=0.0: g * gain * w_, argnum=0)
        qlegacy.defvjp(lambda g, ans, vs, gvs, x, w_, gain=1.0, shift=0.0: g * gain * x, argnum=1)

    # three traced operands through defvjp's generic branch (L >= 3)
    @primitive
    def qfma3(a, b, c_):
        return a * b + c_

    defvjp(qfma3, lambda ans, a, b, c_: lambda g: g * b, lambda ans, a, b, c_: lambda g: g * a, lambda ans, a, b, c_: lambda g: g)
    defjvp(qfma3, lambda t, ans, a, b, c_: t * b, lambda t, ans, a, b, c_: t * a, lambda t, ans, a, b, c_: t)
    _EXT.update(qdot=qdot, qscale=qscale, qphase=qphase, qexp_pos=qexp_pos, qexp_argnum=qexp_argnum, qexp_argnums=qexp_argnums, qpass3=qpass3, qstop=qstop, qpass_argnum=qpass_argnum,
                qlegacy=qlegacy, qfma3=qfma3)
    return _EXT


def fam_extension(tier, kind=R):
    E = _ext_prims()
    for k in (0, 1):
        yield Config("ext-none", "user primitive qdot(x[3], w[2]) -> scalar, w registered as None", lambda np, x, w: E["qdot"](x, w), [kind(3), kind(2)], k)
        yield Config("ext-none", "user primitive qscale(x[3], s) -> vector, scalar s registered as None", lambda np, x, s_: E["qscale"](x, s_), [kind(3), SC], k)
        yield Config("ext-none", "user primitive qscale(x[2,2], s[2]) None position broadcastable to the output", lambda np, x, s_: E["qscale"](x, s_), [kind(2, 2), kind(2)], k)
    if kind is R:
        import autograd

        X0 = onp.array([0.3, -0.5])
        for api in ("pos", "argnum", "argnums"):
            q = E["qexp_" + api]
            how = {"pos": "defvjp / defjvp", "argnum": "defvjp_argnum / defjvp_argnum", "argnums": "defvjp_argnums / defjvp_argnums"}[api]
            for k in (0, 1):
                yield Config("ext-ans", "user primitive s*exp(x) via %s, rules written in terms of ans" % how, lambda np, x, s_, _q=q: _q(x, s_) if np is not onp else s_ * onp.exp(x), [R(2), SC], k)
            yield Config("ext-ans", "sin(x) * [s*exp(x) via %s] with x in both factors" % how, lambda np, x, _q=q: np.sin(x) * (_q(x, 2.0) if np is not onp else 2.0 * onp.exp(x)), [R(2)], 0)
            # nested: the inner derivative (whose rule multiplies by ans) as a function of the OUTER variable
            for iname, inner in (("reverse", lambda f, at: autograd.elementwise_grad(f)(at)), ("forward", lambda f, at: autograd.make_jvp(f)(at)(onp.ones(2))[1])):
                c = Config("ext-ans", "NESTED d/dx [s*exp(x) via %s] (inner %s mode) as a function of the outer s" % (how, iname),
                           lambda np, s_, _q=q, _in=inner: _in(lambda x: _q(x, s_), X0), [SC], 0)
                c.oracle = lambda np, s_: s_ * onp.exp(X0)
                yield c
                c = Config("ext-ans", "NESTED x * d/dy [2*exp(y) via %s] at y = x (inner %s mode): second derivative through ans" % (how, iname),
                           lambda np, x, _q=q, _in=inner: x * _in(lambda y: _q(y, 2.0), x), [R(2)], 0)
                c.oracle = lambda np, x: x * 2.0 * np.exp(x)
                yield c
        for k in (0, 1):
            yield Config("ext-legacy", "legacy API f.defvjp(rule, argnum=k): keyword arguments gain=2.5, shift=-1 reach the rule",
                         lambda np, x, w_: E["qlegacy"](x, w_, gain=2.5, shift=-1.0) if np is not onp else 2.5 * x * w_ - 1.0, [R(2), R(2)], k)
            yield Config("ext-legacy", "legacy API f.defvjp(rule, argnum=k): default keyword arguments", lambda np, x, w_: E["qlegacy"](x, w_) if np is not onp else x * w_, [R(2), R(2)], k)
        yield Config("ext-3", "primitive with three traced operands applied TWICE before the backward pass: f(x, x*x, sin x) * f(2x, x, cos x)",
                     lambda np, x: (E["qfma3"](x, x * x, np.sin(x)) * E["qfma3"](2.0 * x, x, np.cos(x))) if np is not onp else ((x * x * x + np.sin(x)) * (2.0 * x * x + np.cos(x))), [R(2)], 0)
        yield Config("ext-3", "primitive with three traced operands, nested: x * d/dy f(y, y*x, x)", lambda np, x: x * autograd.elementwise_grad(lambda y: E["qfma3"](y, y * x, x))(x) + E["qfma3"](x, x, x) if np is not onp else x * (2.0 * x * x) + x * x + x, [R(2)], 0)
        yield Config("ext-none", "user primitive qphase(x[2], t[3]) complex output, real t registered as None", lambda np, x, t: E["qphase"](x, t), [R(2), R(3)], 1)
        yield Config("ext-none", "sum(qscale(x, s)) + s**2 : None position also used elsewhere", lambda np, x, s_: np.sum(E["qscale"](x, s_)) + s_ ** 2, [R(3), SC], 1)


def extension_pass_configs():
    """user primitives whose RAW function hands back its argument object while the registered rules are not the identity.
    Value and derivative are deliberately inconsistent (that is the point: the registered rule must be used), so these
    configurations carry the function the RULES describe as their first-order oracle and are used by the extension-contract
    check (C17) only - not by the value-transparency or second-order checks, for which they would be ill-posed."""
    import autograd

    E = _ext_prims()
    out = []
    # pass-through raw functions with non-identity registered rules; the oracle is the function the RULES describe
    def pt(lab, call, oracle, args, k=0):
        c_ = Config("ext-pass", lab, call, args, k)
        c_.oracle = oracle
        return c_

    out.append(pt("pass-through primitive with rules scaling by 3 (scalar)", lambda np, x: E["qpass3"](x) * x, lambda np, x: 2.0 * x * x, [SC]))
    out.append(pt("pass-through primitive with rules scaling by 3 (array), then sin", lambda np, x: np.sin(E["qpass3"](x)) + x, lambda np, x: 3.0 * np.sin(x) + x, [R(2)]))
    out.append(pt("pass-through primitive whose argument is registered as None (stop-gradient) plus a live path", lambda np, x: E["qstop"](x, 2.0) * 4.0 + x * x, lambda np, x: x * x, [R(2)]))
    out.append(pt("pass-through primitive via defvjp_argnum / defjvp_argnum scaling by 5", lambda np, x: E["qpass_argnum"](x, 2.0) + x, lambda np, x: 6.0 * x, [R(2)]))
    out.append(pt("NESTED pass-through scaling inside an inner derivative (forward and reverse)", lambda np, x: x * autograd.elementwise_grad(lambda y: E["qpass3"](y))(x) + x * autograd.make_jvp(lambda y: E["qpass3"](y))(x)(onp.ones(2))[1],
             lambda np, x: 6.0 * x, [R(2)]))
    return out


FAMILIES = {"extension": fam_extension, "operators": fam_operators, "unary": fam_unary, "binary": fam_binary, "reduce": fam_reduce, "shape": fam_shape, "contract": fam_contract,
            "linalg": fam_linalg, "fft": fam_fft}


def real_grid(tier, families=None):
    out = []
    for n, f in FAMILIES.items():
        if families and n not in families:
            continue
        for cfg in f(tier):
            cfg.tags.add(n)
            out.append(cfg)
    return _uniq(out)


def complexified_grid(tier, families=("shape", "reduce", "contract")):
    """the real grid's shape / reduction / contraction families with every symbolic real array replaced by a
    complex one (C09 thorough): the same call configurations, complex arguments"""
    out = []
    for n in families:
        for cfg in FAMILIES[n]("quick", kind=Cx):
            if not any(getattr(a, "kind", None) in ("c", "cs") for a in _flat_args(cfg.args)):
                continue
            cfg.label = "CPLXGRID " + cfg.label
            cfg.tags.update(("complex", n))
            out.append(cfg)
    return _uniq(out)


def _flat_args(args):
    for a in args:
        if isinstance(a, dict):
            yield from _flat_args(a.values())
        elif isinstance(a, (tuple, list)):
            yield from _flat_args(a)
        else:
            yield a


# ----------------------------------------------------------------------------------------------
# kink grid: explicit-tie primitives, small sizes, full lexicographic forking


def kink_grid(tier):
    out = []

    def k(prim, lab, f, args, argnum=0, pins=None, max_paths=None):
        c = Config(prim, "KINK " + lab, f, args, argnum, tags=("kink",), mode="lex", max_paths=max_paths)
        c.pins = pins
        out.append(c)

    for n in ("maximum", "minimum", "fmax", "fmin"):
        f = lambda np, x, y, _n=n: getattr(np, _n)(x, y)
        for kk in (0, 1):
            k(n, "np.%s(x,y)" % n, f, [R(2), R(2)], kk)
            k(n, "np.%s(x,y) broadcast" % n, f, [R(2), R()], kk)
            k(n, "np.%s(scalar,scalar)" % n, f, [SC, SC], kk)
        k(n, "np.%s(x,0.0)" % n, lambda np, x, _n=n: getattr(np, _n)(x, 0.0), [R(2)], 0)
        k(n, "np.%s(x,x)" % n, lambda np, x, _n=n: getattr(np, _n)(x, x), [R(2)], 0)
    for n in ("max", "min", "amax", "amin"):
        f = lambda np, x, _n=n: getattr(np, _n)(x)
        k(n, "np.%s(x) 3 elements" % n, f, [R(3)])
        if tier == "thorough":
            k(n, "np.%s(x) 4 elements" % n, f, [R(4)], max_paths=20000)
        for ax in (0, 1, -1):
            for kd in (False, True):
                k(n, "np.%s(x,axis=%d,keepdims=%s) 2x2" % (n, ax, kd), lambda np, x, _n=n, _a=ax, _k=kd: getattr(np, _n)(x, axis=_a, keepdims=_k), [R(2, 2)])
        k(n, "np.%s(x) 2x2 axis=None" % n, f, [R(2, 2)], max_paths=5000)
        k(n, "x.%s() method" % n, lambda np, x, _n=n: getattr(x, _n.replace("amax", "max").replace("amin", "min"))(), [R(3)])
    for n in ("abs", "absolute", "fabs"):
        k(n, "np.%s(x)" % n, lambda np, x, _n=n: getattr(np, _n)(x), [R(2)])
        k(n, "np.%s(scalar)" % n, lambda np, x, _n=n: getattr(np, _n)(x), [SC])
        k(n, "np.%s(x) pinned at 0" % n, lambda np, x, _n=n: getattr(np, _n)(x), [R(2)], pins=[((0,), 0)])
    k("abs", "abs(x) builtin", lambda np, x: abs(x), [R(2)])
    for lo, hi in [(-0.5, 0.5), (None, 0.5), (-0.5, None)]:
        k("clip", "np.clip(x,%r,%r)" % (lo, hi), lambda np, x, _l=lo, _h=hi: np.clip(x, _l, _h), [R(2)])
    k("clip", "x.clip(-0.5,0.5) method", lambda np, x: x.clip(-0.5, 0.5), [R(2)])
    for y in (0, 1, 2, 3):
        k("power", "x**%d pinned at x=0" % y, lambda np, x, _y=y: x ** _y, [R(2)], pins=[((0,), 0)])
        k("power", "np.power(x,%d.0) pinned at x=0" % y, lambda np, x, _y=y: np.power(x, float(_y)), [R(2)], pins=[((0,), 0)])
    k("power", "np.power(x,[0,1,2,3]) all pinned at x=0", lambda np, x: np.power(x, onp.array([0.0, 1.0, 2.0, 3.0])), [R(4)],
      pins=[((0,), 0), ((1,), 0), ((2,), 0), ((3,), 0)])
    return out


# ----------------------------------------------------------------------------------------------
# complex grid (C09, and the kind-mix part of C04/C05)

C_UNARY = ["negative", "abs", "absolute", "reciprocal", "exp", "square", "real", "imag", "conj", "conjugate", "angle", "real_if_close",
           "sqrt", "log", "sin", "cos", "tanh", "nan_to_num", "positive"]


def complex_grid(tier):
    out = []

    def c(prim, lab, f, args, k=0):
        out.append(Config(prim, "CPLX " + lab, f, args, k, tags=("complex",)))

    for n in C_UNARY:
        c(n, "np.%s(z)" % n, lambda np, x, _n=n: getattr(np, _n)(x), [Cx(2)])
        c(n, "np.%s(complex scalar)" % n, lambda np, x, _n=n: getattr(np, _n)(x), [CSC])
    c("negative", "-z", lambda np, x: -x, [Cx(2)])
    c("abs", "abs(z) builtin", lambda np, x: abs(x), [Cx(2)])
    c("power", "z**2", lambda np, x: x ** 2, [Cx(2)])
    c("power", "z**3", lambda np, x: x ** 3, [Cx(2)])
    c("power", "z**-1", lambda np, x: x ** -1, [Cx(2)])
    # a COMPLEX base differentiated w.r.t. the exponent: d/dw z**w = log(z) z**w with the complex logarithm (arg(z) included)
    c("power", "z**w w.r.t. the exponent (complex base, complex exponent)", lambda np, x, y: x ** y, [Cx(2), Cx(2)], 1)
    c("power", "np.power(z,t) w.r.t. a real exponent (complex base)", lambda np, x, y: np.power(x, y), [Cx(2), R(2)], 1)
    c("power", "(0.5+1.5j)**t real t", lambda np, x: (0.5 + 1.5j) ** x, [R(2)])
    c("power", "(1j)**t real t, real part", lambda np, x: np.real((1j) ** x), [R(2)])
    c("power", "z**w w.r.t. the base (complex exponent)", lambda np, x, y: x ** y, [Cx(2), Cx(2)], 0)
    c("multiply", "z*1j", lambda np, x: x * 1j, [Cx(2)])
    c("multiply", "x*1j real x", lambda np, x: x * 1j, [R(2)])
    c("add", "x+2j real x", lambda np, x: x + 2j, [R(2)])
    c("true_divide", "1/z", lambda np, x: 1.0 / x, [Cx(2)])
    c("true_divide", "(1+2j)/x real x", lambda np, x: (1 + 2j) / x, [R(2)])
    kinds = {"r": R, "c": Cx}
    for n in ["add", "subtract", "multiply", "divide", "true_divide"]:
        f = lambda np, x, y, _n=n: getattr(np, _n)(x, y)
        for ka, kb in [("r", "c"), ("c", "r"), ("c", "c")]:
            for a, b in [((2,), (2,)), ((2, 1), (3,)), ((), (2,)), ((2,), ())]:
                for k in (0, 1):
                    c(n, "np.%s(%s,%s)" % (n, ka, kb), f, [kinds[ka](*a), kinds[kb](*b)], k)
            c(n, "np.%s(scalar %s, %s)" % (n, ka, kb), f, [SC if ka == "r" else CSC, kinds[kb](2)], 0)
            c(n, "np.%s(%s, scalar %s)" % (n, ka, kb), f, [kinds[ka](2), SC if kb == "r" else CSC], 1)
    for sym_, op in OPS[:4]:
        for ka, kb in [("r", "c"), ("c", "r"), ("c", "c")]:
            for k in (0, 1):
                c("op" + sym_, "%s %s %s" % (ka, sym_, kb), lambda np, x, y, _o=op: _o(x, y), [kinds[ka](2), kinds[kb](2)], k)
        c("op" + sym_, "z %s (1+2j)" % sym_, lambda np, x, _o=op: _o(x, 1 + 2j), [Cx(2)])
        c("op" + sym_, "(1+2j) %s z" % sym_, lambda np, x, _o=op: _o(1 + 2j, x), [Cx(2)])
        c("op" + sym_, "x %s (1+2j) real x" % sym_, lambda np, x, _o=op: _o(x, 1 + 2j), [R(2)])
        c("op" + sym_, "(1+2j) %s x real x" % sym_, lambda np, x, _o=op: _o(1 + 2j, x), [R(2)])
    for n in ["sum", "mean", "prod", "var", "std", "cumsum"]:
        for s in [(2, 2), (3,)]:
            c(n, "np.%s(z)" % n, lambda np, x, _n=n: getattr(np, _n)(x), [Cx(*s)])
            c(n, "np.%s(z,axis=0)" % n, lambda np, x, _n=n: getattr(np, _n)(x, axis=0), [Cx(*s)])
            c(n, "np.%s(z,axis=-1)" % n, lambda np, x, _n=n: getattr(np, _n)(x, axis=-1), [Cx(*s)])
        if n in ("sum", "mean", "prod", "var", "std"):
            c(n, "np.%s(z,axis=0,keepdims=True)" % n, lambda np, x, _n=n: getattr(np, _n)(x, axis=0, keepdims=True), [Cx(2, 2)])
    for n, f, s in [("reshape", lambda np, x: np.reshape(x, (3, 2)), (2, 3)), ("transpose", lambda np, x: np.transpose(x, (1, 0)), (2, 3)), ("T", lambda np, x: x.T, (2, 3)),
                    ("ravel", lambda np, x: np.ravel(x), (2, 2)), ("squeeze", lambda np, x: np.squeeze(x), (1, 2)), ("expand_dims", lambda np, x: np.expand_dims(x, 0), (2,)),
                    ("swapaxes", lambda np, x: np.swapaxes(x, 0, 1), (2, 3)), ("moveaxis", lambda np, x: np.moveaxis(x, 0, -1), (2, 3)), ("roll", lambda np, x: np.roll(x, 1), (3,)),
                    ("flipud", lambda np, x: np.flipud(x), (2, 2)), ("rot90", lambda np, x: np.rot90(x), (2, 2)), ("diag", lambda np, x: np.diag(x), (2,)),
                    ("diag2", lambda np, x: np.diag(x), (2, 2)), ("trace", lambda np, x: np.trace(x), (2, 2)), ("triu", lambda np, x: np.triu(x), (2, 2)),
                    ("tile", lambda np, x: np.tile(x, (2, 1)), (2, 2)), ("repeat", lambda np, x: np.repeat(x, 2, axis=0), (2, 2)), ("broadcast_to", lambda np, x: np.broadcast_to(x, (2, 2)), (1, 2)),
                    ("pad", lambda np, x: np.pad(x, 1, "constant"), (2,)), ("diff", lambda np, x: np.diff(x), (3,)), ("atleast_2d", lambda np, x: np.atleast_2d(x), (2,)),
                    ("split", lambda np, x: np.split(x, 2)[1], (2, 2)), ("getitem", lambda np, x: x[1], (2, 2)), ("getitem slice", lambda np, x: x[::-1, 0], (2, 2)),
                    ("getitem fancy", lambda np, x: x[[0, 0, 1]], (2,)), ("fftshift", lambda np, x: np.fft.fftshift(x), (3,)), ("ifftshift", lambda np, x: np.fft.ifftshift(x, axes=0), (2, 2)),
                    ("linalg.norm", lambda np, x: np.linalg.norm(x), (2,)), ("linalg.norm fro", lambda np, x: np.linalg.norm(x, "fro"), (2, 2)),
                    ("linalg.norm axis", lambda np, x: np.linalg.norm(x, axis=0), (2, 2)), ("linalg.norm ord=3", lambda np, x: np.linalg.norm(x, 3), (2,)),
                    ("det", lambda np, x: np.linalg.det(x), (2, 2)), ("inv", lambda np, x: np.linalg.inv(x), (2, 2)),
                    ("where", lambda np, x: np.where(onp.array([True, False]), x, 0.0), (2,)), ("clip-free: maximum real part", lambda np, x: np.maximum(np.real(x), 0.0), (2,))]:
        c(n, "np %s (z)" % n, f, [Cx(*s)])
    for n, f, shs in [("concatenate", lambda np, x, y: np.concatenate([x, y]), [(2,), (2,)]), ("stack", lambda np, x, y: np.stack([x, y]), [(2,), (2,)]),
                      ("vstack", lambda np, x, y: np.vstack([x, y]), [(2,), (2,)]), ("array", lambda np, x, y: np.array([x, y]), [(2,), (2,)]),
                      ("where3", lambda np, x, y: np.where(onp.array([True, False]), x, y), [(2,), (2,)]),
                      ("dot", lambda np, x, y: np.dot(x, y), [(2, 2), (2,)]), ("dot11", lambda np, x, y: np.dot(x, y), [(2,), (2,)]), ("dot22", lambda np, x, y: np.dot(x, y), [(2, 2), (2, 2)]),
                      ("matmul", lambda np, x, y: x @ y, [(2, 2), (2, 2)]), ("matmul bc", lambda np, x, y: np.matmul(x, y), [(1, 2, 2), (2,)]),
                      ("tensordot", lambda np, x, y: np.tensordot(x, y, 1), [(2, 2), (2, 2)]), ("tensordot axes", lambda np, x, y: np.tensordot(x, y, ([0], [1])), [(2, 2), (2, 2)]),
                      ("inner", lambda np, x, y: np.inner(x, y), [(2,), (2,)]), ("inner2", lambda np, x, y: np.inner(x, y), [(2, 2), (2,)]),
                      ("outer", lambda np, x, y: np.outer(x, y), [(2,), (2,)]), ("kron", lambda np, x, y: np.kron(x, y), [(2,), (2,)]), ("kron2", lambda np, x, y: np.kron(x, y), [(2, 2), (1, 2)]),
                      ("einsum", lambda np, x, y: np.einsum("ij,j->i", x, y), [(2, 2), (2,)]), ("einsum2", lambda np, x, y: np.einsum("ij,jk->ik", x, y), [(2, 2), (2, 2)]),
                      ("einsum3", lambda np, x, y: np.einsum("i,i->", x, y), [(2,), (2,)]), ("multiply bc", lambda np, x, y: x * y, [(2, 1), (2,)]),
                      ("einsum sublists", lambda np, x, y: np.einsum(x, [0, 1], y, [1], [0]), [(2, 2), (2,)]), ("einsum sublists elementwise", lambda np, x, y: np.einsum(x, [0], y, [0], [0]), [(2,), (2,)]),
                      ("einsum sublists ellipsis", lambda np, x, y: np.einsum(x, [Ellipsis, 0], y, [Ellipsis, 0], [Ellipsis]), [(2, 2), (2,)]), ("tensordot lists", lambda np, x, y: np.tensordot(x, y, ([1, 0], [0, 1])), [(2, 2), (2, 2)]),
                      ("clip bounds", lambda np, x, y: np.clip(np.real(x), -0.5, 0.5) * y, [(2,), (2,)]), ("linspace", lambda np, x, y: np.linspace(x, y, 3), [(2,), (2,)]),
                      ("solve", lambda np, x, y: np.linalg.solve(x, y), [(2, 2), (2,)]), ("cross", lambda np, x, y: np.cross(x, y), [(3,), (3,)])]:
        for ka, kb in [("r", "c"), ("c", "r"), ("c", "c")]:
            for k in (0, 1):
                c(n, "np %s (%s,%s)" % (n, ka, kb), f, [kinds[ka](*shs[0]), kinds[kb](*shs[1])], k)
    # FFTs of complex and real input (complex output)
    for n in ("fft", "ifft"):
        for kd in ("r", "c"):
            for s in [(4,), (2,), (2, 2)]:
                c(n, "fft.%s(%s)" % (n, kd), lambda np, x, _n=n: getattr(np.fft, _n)(x), [kinds[kd](*s)])
                c(n, "fft.%s(%s,n=2)" % (n, kd), lambda np, x, _n=n: getattr(np.fft, _n)(x, n=2), [kinds[kd](*s)])
                c(n, "fft.%s(%s,4,axis=0)" % (n, kd), lambda np, x, _n=n: getattr(np.fft, _n)(x, 4, axis=0), [kinds[kd](*s)])
                c(n, "fft.%s(%s,norm='ortho')" % (n, kd), lambda np, x, _n=n: getattr(np.fft, _n)(x, norm="ortho"), [kinds[kd](*s)])
                c(n, "fft.%s(%s,norm='forward')" % (n, kd), lambda np, x, _n=n: getattr(np.fft, _n)(x, norm="forward"), [kinds[kd](*s)])
    for n in ("fft2", "ifft2", "fftn", "ifftn"):
        for kd in ("r", "c"):
            c(n, "fft.%s(%s)" % (n, kd), lambda np, x, _n=n: getattr(np.fft, _n)(x), [kinds[kd](2, 2)])
            c(n, "fft.%s(%s,s=(4,2))" % (n, kd), lambda np, x, _n=n: getattr(np.fft, _n)(x, s=(4, 2)), [kinds[kd](2, 2)])
            c(n, "fft.%s(%s,axes=(-1,0))" % (n, kd), lambda np, x, _n=n: getattr(np.fft, _n)(x, axes=(-1, 0)), [kinds[kd](2, 2)])
            c(n, "fft.%s(%s,axes=(0,-2)) repeated axis, mixed signs" % (n, kd), lambda np, x, _n=n: getattr(np.fft, _n)(x, axes=(0, -2)), [kinds[kd](2, 2)])
            c(n, "fft.%s(%s,axes=(1,1)) repeated axis" % (n, kd), lambda np, x, _n=n: getattr(np.fft, _n)(x, axes=(1, 1)), [kinds[kd](2, 2)])
    # real -> real through complex intermediates
    KC = onp.array([0.7 + 0.2j, -1.3 + 0.6j, 0.4 - 0.9j, 1.1 + 0.3j])
    CC = onp.array([0.5 - 1.0j, 2.0 + 0.25j])
    WC = onp.array([1.0 + 2.0j, -0.5 + 0.5j])
    c("concatenate", "real(sum(concatenate([real(exp(1j x) w), c_complex]) * k_complex)) real piece joined with complex constants",
      lambda np, x: np.real(np.sum(np.concatenate([np.real(np.exp(1j * x) * WC), CC]) * KC)), [R(2)])
    c("concatenate", "real(sum(concatenate([x, c_complex]) * k_complex)) minimal", lambda np, x: np.real(np.sum(np.concatenate([x, CC]) * KC)), [R(2)])
    c("stack", "imag(sum(stack([x * x, c_complex]) * k)) real row stacked with a complex row", lambda np, x: np.imag(np.sum(np.stack([x * x, CC]) * KC.reshape(2, 2))), [R(2)])
    c("where", "real(sum(where(mask, x, c_complex) * k))", lambda np, x: np.real(np.sum(np.where(onp.array([True, False]), x, CC) * KC[:2])), [R(2)])
    c("real(fft)", "sum real(fft(x))^2", lambda np, x: np.real(np.fft.fft(x)) ** 2, [R(4)])
    c("abs(fft)", "|fft(x)|^2 via real/imag", lambda np, x: np.real(np.fft.fft(x)) ** 2 + np.imag(np.fft.fft(x)) ** 2, [R(2)])
    c("irfft(rfft)", "irfft(rfft(x)*w)", lambda np, x: np.fft.irfft(np.fft.rfft(x) * onp.array([1.0, 2j, 0.5])), [R(4)])
    c("abs2", "abs(x+1j*y)**2 wrt x", lambda np, x, y: np.abs(x + 1j * y) ** 2, [R(2), R(2)], 0)
    c("abs2", "abs(x+1j*y)**2 wrt y", lambda np, x, y: np.abs(x + 1j * y) ** 2, [R(2), R(2)], 1)
    c("real(z*conj z)", "real(z*conj(z))", lambda np, x: np.real(x * np.conj(x)), [Cx(2)])
    c("imag(z*z)", "imag(z*z)", lambda np, x: np.imag(x * x), [Cx(2)])
    c("angle", "np.angle(z, deg=True)", lambda np, x: np.angle(x, deg=True), [Cx(2)])
    return _uniq(out)


# ----------------------------------------------------------------------------------------------
# composite programs (C03-A, and reused by C04/C06/C07/C10/C17)


def program_grid(tier):
    out = []

    def p(lab, f, args, k=0, max_paths=None):
        out.append(Config("program", "PROG " + lab, f, args, k, tags=("program",), max_paths=max_paths))

    def diamond(np, x):
        a = np.sin(x)
        b = a * a + a
        return b * a

    p("diamond sin", diamond, [R(2)])
    # contractions with explicit axis lists inside a graph: both operands built from the same value (diamond), crossed
    # pairing of two contracted axes with EQUAL extents (a wrong inverse permutation in the rule keeps every shape)
    def td_cross(np, x):
        a = np.outer(x, np.sin(x))  # (3, 3)
        b = np.stack([np.outer(x, x), np.outer(np.cos(x), x)])  # (2, 3, 3)
        return np.tensordot(a, b, [(0, 1), (2, 1)]) + np.tensordot(b, a, [(2, 1), (0, 1)]) * 0.5

    p("tensordot crossed pairing, both operands from one value", td_cross, [R(3)])
    p("tensordot permuted total contraction trace(A @ B) with A, B from one value", lambda np, x: np.tensordot(np.outer(x, x * x), np.outer(np.sin(x), x), ([0, 1], [1, 0])) * x, [R(2)])
    p("einsum with a crossed subscript pairing next to tensordot", lambda np, x: np.einsum("ij,kji->k", np.outer(x, np.sin(x)), np.stack([np.outer(x, x), np.outer(np.cos(x), x)])) + np.sum(np.tensordot(np.outer(x, x), np.outer(x, x), ([1, 0], [0, 1]))), [R(2)])
    p("multi-edge x*x", lambda np, x: x * x, [R(2)])
    p("multi-edge dot(x,x)", lambda np, x: np.dot(x, x), [R(2, 2)])
    p("multi-edge x@x@x", lambda np, x: x @ x @ x, [R(2, 2)])
    p("same value twice add", lambda np, x: np.add(x, x), [R(2)])
    p("same value twice where", lambda np, x: np.where(onp.array([True, False]), x, x), [R(2)])

    def dead(np, x):
        z = np.exp(x) * 3.0  # never reaches the output
        w = np.sum(z)  # noqa
        return np.sum(x ** 2)

    p("dead branch", dead, [R(3)])

    def fanout(np, x):
        s = np.sum(x)
        return x * s + s * s

    p("fan-out of a reduction", fanout, [R(3)])

    def branch(np, x):
        if x[0] > 0:
            return x * x
        return -x

    p("value-dependent branch", branch, [R(2)])

    def loopn(np, x):
        n = 1 if x[0] > x[1] else 2
        y = x
        for _ in range(n):
            y = y * x + 1.0
        return y

    p("value-dependent trip count", loopn, [R(2)])

    def whl(np, x):
        y = x
        k = 0
        while np.sum(y) < 1.0 and k < 2:
            y = y * 2.0 + x
            k += 1
        return y

    p("while loop on traced value", whl, [R(2)])

    def rec(np, x):
        def f(z, depth):
            return z if depth == 0 else f(z * x + 1.0, depth - 1)

        return f(x, 3)

    p("recursion with closure", rec, [R(2)])
    p("constants mixed in", lambda np, x: 2.0 * x + onp.array([1.0, 2.0]) * x ** 2 - 3.0, [R(2)])
    p("indexing mixture", lambda np, x: x[0] * x + x[::-1] + x[[0, 0, 1]][1:], [R(2)])
    p("value gathered twice through a list inside a tuple index (diamond)", lambda np, x: np.sum(x[[0, 0, 1], 1:] * x[[1, 0, 0], :2]) + np.sum(x[:, [1, 1, 2]] ** 2), [R(2, 3)])
    p("aliasing gather (k and k-n) times the value itself", lambda np, x: x[[0, -2, 1]] * x[[1, 1, 0]] + x[[0, 0, 0]], [R(2)])
    p("take / repeat / tile of one value recombined", lambda np, x: np.sum(np.repeat(x, 2) * np.tile(x, 2)) + np.take(x, [1, 1, 0]) * x[0], [R(2)])
    _KC = onp.array([0.7 + 0.2j, -1.3 + 0.6j, 0.4 - 0.9j, 1.1 + 0.3j])
    _CC = onp.array([0.5 - 1.0j, 2.0 + 0.25j])
    p("real value computed from a complex sub-graph, joined with complex constants, projected back to the reals",
      lambda np, x: np.real(np.sum(np.concatenate([np.real(np.exp(1j * x) * onp.array([1.0 + 2.0j, -0.5 + 0.5j])), _CC]) * _KC)) + np.imag(np.sum(np.exp(1j * x) ** 2)), [R(2)])
    p("power spectrum through fftshift: sum(w * |fftshift(fft(x))|^2)", lambda np, x: np.sum(onp.array([1.0, -2.0, 0.5, 3.0]) * (np.real(np.fft.fftshift(np.fft.fft(x))) ** 2 + np.imag(np.fft.fftshift(np.fft.fft(x))) ** 2)), [R(4)])
    p("ifftshift of a complex spectrum, back through ifft", lambda np, x: np.real(np.fft.ifft(np.fft.ifftshift(np.fft.fftshift(np.fft.fft(x)) * onp.array([1.0 + 1.0j, 0.5, 2.0 - 1.0j, 1.0])))) * x, [R(4)])
    p("standardise", lambda np, x: (x - np.mean(x)) / np.std(x), [R(3)])
    p("softmax", lambda np, x: np.exp(x) / np.sum(np.exp(x)), [R(3)])
    p("logsumexp", lambda np, x: np.log(np.sum(np.exp(x))), [R(3)])
    p("tanh layer", lambda np, x, w: np.tanh(np.dot(w, x)), [R(2), R(2, 2)], 0)
    p("tanh layer", lambda np, x, w: np.tanh(np.dot(w, x)), [R(2), R(2, 2)], 1)
    p("quadratic form", lambda np, x, a: np.dot(x, np.dot(a, x)), [R(2), R(2, 2)], 0)
    p("quadratic form", lambda np, x, a: np.dot(x, np.dot(a, x)), [R(2), R(2, 2)], 1)
    p("norm of residual", lambda np, x, a: np.linalg.norm(np.dot(a, x) - 1.0), [R(2), R(2, 2)], 0)
    p("broadcast chain", lambda np, x, y: np.sum(x[:, None] * y[None, :] + x[:, None], axis=0), [R(2), R(3)], 0)
    p("broadcast chain", lambda np, x, y: np.sum(x[:, None] * y[None, :] + x[:, None], axis=0), [R(2), R(3)], 1)
    p("concatenate + reshape + transpose", lambda np, x: np.transpose(np.reshape(np.concatenate([x, 2 * x]), (2, 2))) @ x, [R(2)])
    p("relu-like maximum", lambda np, x: np.sum(np.maximum(x, 0.0) * x), [R(2)])
    p("abs and sign", lambda np, x: np.abs(x) * np.sign(x) + x, [R(2)])
    p("x*floor(x)", lambda np, x: x * np.floor(x), [R(2)])
    p("argmax gather", lambda np, x: x[np.argmax(x)] * x, [R(3)])
    p("det times x", lambda np, x: np.linalg.det(x) * x, [R(2, 2)])
    p("scalar chain", lambda np, x: np.exp(x) * np.sin(x) + x ** 3 / (1.0 + x * x), [SC])
    p("power tower", lambda np, x: (x ** 2) ** 1.5 + x ** x, [R(2)])
    if tier == "thorough":
        p("3-layer", lambda np, x, w: np.tanh(np.dot(w, np.tanh(np.dot(w, np.tanh(np.dot(w, x)))))), [R(2), R(2, 2)], 1)
        p("diamond 3x3", lambda np, x: (x @ x.T) * (x.T @ x), [R(3, 3)])
        p("inv then det", lambda np, x: np.linalg.det(np.linalg.inv(x)) * x, [R(2, 2)])
    return _uniq(out)


# ----------------------------------------------------------------------------------------------
# nested differentiation with NumPy primitives (C08-A / C07): call uses autograd operators, oracle is the closed form


def nested_grid(tier):
    import autograd

    grad, make_jvp, make_vjp, egrad = autograd.grad, autograd.make_jvp, autograd.make_vjp, autograd.elementwise_grad
    out = []

    def n(lab, f, oracle, args, k=0):
        c = Config("nested", "NEST " + lab, f, args, k, tags=("nested",))
        c.oracle = oracle
        out.append(c)

    def dfw(f, at):  # forward-mode derivative of an elementwise function
        return make_jvp(f)(at)(onp.ones(onp.shape(at)) if onp.shape(at) else 1.0)[1]

    # an OUTER traced scalar meets an inner traced array in one binary operation, decided AT pinned values of the scalar
    # (p == 2, 1, 0, -1, 3): value-based shortcuts on a traced operand (x ** p computed as square(x) when p == 2, x * p
    # returned as x when p == 1, ...) lose the dependence on the outer variable
    XP = onp.array([1.5, 0.5])
    for pv in (2, 1, 0, -1, 3):
        for iname, inner in (("rev", lambda f_, at: egrad(f_)(at)), ("fwd", dfw)):
            for lab, body, orc in (("x ** p", lambda x, p: x ** p, lambda np, p: p * XP ** (p - 1)),
                                   ("x * p * x", lambda x, p: x * p * x, lambda np, p: 2.0 * XP * p),
                                   ("(x + p) * x", lambda x, p: (x + p) * x, lambda np, p: 2.0 * XP + p),
                                   ("x * x / (p + 4)", lambda x, p: x * x / (p + 4.0), lambda np, p: 2.0 * XP / (p + 4.0)),
                                   ("p ** x", lambda x, p: (p + 4.0) ** x, lambda np, p: (p + 4.0) ** XP * np.log(p + 4.0))):
                c = Config("nested", "NEST pinned outer value p == %d: d/dx [%s] (inner %s) as a function of p" % (pv, lab, iname),
                           lambda np, p, _b=body, _in=inner: _in(lambda x: _b(x, p), XP), [SC], 0, tags=("nested", "pinned"))
                c.oracle = orc
                c.pin_args = [(0, None, pv)]
                out.append(c)
    # classic perturbation confusion: d/dx [ x * d/dy (x + y) |_{y=1} ] = 1
    n("x * d/dy(x+y) rev-in-rev", lambda np, x: x * egrad(lambda y: x + y)(onp.ones(2)), lambda np, x: x * 1.0, [R(2)])
    n("x * d/dy(x+y) fwd-in-fwd/rev", lambda np, x: x * dfw(lambda y: x + y, onp.ones(2)), lambda np, x: x * 1.0, [R(2)])
    n("x * d/dy(x*y) at y=x rev", lambda np, x: x * egrad(lambda y: x * y)(x), lambda np, x: x * x, [R(2)])
    n("x * d/dy(x*y) at y=x fwd", lambda np, x: x * dfw(lambda y: x * y, x), lambda np, x: x * x, [R(2)])
    n("x * d/dy(x*y*y) at y=x rev", lambda np, x: x * egrad(lambda y: x * y * y)(x), lambda np, x: 2 * x ** 3, [R(2)])
    n("x * d/dy(x*y*y) at y=x fwd", lambda np, x: x * dfw(lambda y: x * y * y, x), lambda np, x: 2 * x ** 3, [R(2)])
    n("grad of sum sin(x*y) wrt y at y=x", lambda np, x: grad(lambda y: np.sum(np.sin(x * y)))(x), lambda np, x: np.cos(x * x) * x, [R(2)])
    n("inner closes over outer, dot", lambda np, x: grad(lambda y: np.dot(x, y) * np.dot(y, y))(2.0 * x), lambda np, x: x * np.dot(2 * x, 2 * x) + np.dot(x, 2 * x) * 4 * x, [R(2)])
    n("depth 3 rev", lambda np, x: x * egrad(lambda y: y * egrad(lambda z: x * y * z * z)(y))(x), lambda np, x: x * (6 * x * x * x), [R(2)])
    n("depth 3 mixed", lambda np, x: x * dfw(lambda y: y * egrad(lambda z: x * y * z * z)(y), x), lambda np, x: x * (6 * x * x * x), [R(2)])
    n("depth 3 fwd", lambda np, x: x * dfw(lambda y: y * dfw(lambda z: x * y * z * z, y), x), lambda np, x: x * (6 * x * x * x), [R(2)])
    n("inner at constant", lambda np, x: x * egrad(lambda y: x * y * y)(onp.array([3.0, 5.0])), lambda np, x: x * 2 * x * onp.array([3.0, 5.0]), [R(2)])
    n("inner result independent of ITS variable but built from the outer one (rev)", lambda np, x: x * egrad(lambda y: x * x)(x) + x, lambda np, x: x * 0.0 + x, [R(2)])
    n("inner result independent of ITS variable but built from the outer one (fwd)", lambda np, x: x * dfw(lambda y: x * x, x) + x, lambda np, x: x * 0.0 + x, [R(2)])
    n("inner piecewise constant in ITS variable, scaled by the outer one (rev)", lambda np, x: x * egrad(lambda y: x * np.floor(y))(onp.array([2.5, 3.5])) + x, lambda np, x: x * 0.0 + x, [R(2)])
    n("inner piecewise constant in ITS variable, scaled by the outer one (fwd)", lambda np, x: x * dfw(lambda y: x * np.floor(y), onp.array([2.5, 3.5])) + x, lambda np, x: x * 0.0 + x, [R(2)])
    n("inner grad of an outer-only scalar", lambda np, x: grad(lambda y: np.sum(x * x))(x) + x, lambda np, x: x * 0.0 + x, [R(2)])
    n("inner ignores outer", lambda np, x: x * egrad(lambda y: y * y)(x), lambda np, x: x * 2 * x, [R(2)])
    n("scalar nested", lambda np, x: x * grad(lambda y: x * y * y)(x), lambda np, x: 2 * x ** 3, [SC])
    n("hvp-like: grad(sum(grad f * v))", lambda np, x: grad(lambda z: np.sum(grad(lambda w: np.sum(w ** 3))(z) * x))(x), lambda np, x: 6 * x * x, [R(2)])
    # library operators that nest two differentiations internally, w.r.t. a NON-default argument that the function
    # shares with argument 0 (the levels must differentiate the same variable): f(a, y) = sum(a*y^3) + sum(a^2 * y)
    hvp, hes, mhvp = autograd.hessian_vector_product, autograd.hessian, autograd.make_hvp
    f2 = lambda np: (lambda a, y: np.sum(a * y ** 3) + np.sum(a * a * y))
    n("hessian_vector_product(f, argnum=1)(a=x, y=2x, v=x)", lambda np, x: hvp(f2(np), 1)(x, 2.0 * x, x), lambda np, x: 6 * x * (2 * x) * x, [R(2)])
    n("hessian_tensor_product(f, 1) at constant a", lambda np, x: autograd.hessian_tensor_product(f2(np), 1)(onp.array([3.0, 5.0]), x, x), lambda np, x: 6 * onp.array([3.0, 5.0]) * x * x, [R(2)])
    n("make_hvp(f, 1)(a=x, y=x)(v)", lambda np, x: mhvp(f2(np), 1)(x, x)[0](onp.array([1.0, -2.0])), lambda np, x: 6 * x * x * onp.array([1.0, -2.0]), [R(2)])
    n("diag hessian(f, 1)(a=x, y=x)", lambda np, x: np.diag(hes(f2(np), 1)(x, x)), lambda np, x: 6 * x * x, [R(2)])
    n("grad(grad(f,1),1) mixed with grad(f,0)", lambda np, x: egrad(egrad(f2(np), 1), 1)(x, x) + egrad(f2(np), 0)(x, x), lambda np, x: 6 * x * x + x ** 3 + 2 * x * x, [R(2)])
    # non-differentiable (no-trace) functions of TWO arguments whose operands belong to different nesting levels
    n("inner y * logical_and(y, outer x)", lambda np, x: x * egrad(lambda y: y * np.logical_and(y, x))(x + 1.0), lambda np, x: x * 1.0, [R(2)])
    n("inner y * (y > outer x) with floor_divide", lambda np, x: x * egrad(lambda y: y * np.floor_divide(y + 10.0, np.abs(x) + 1.0))(x), lambda np, x: x * np.floor_divide(x + 10.0, np.abs(x) + 1.0), [R(2)])
    n("inner where(isclose(y, outer x), y, 2y)", lambda np, x: x * egrad(lambda y: np.where(np.isclose(y, x), y, 2.0 * y))(x + 1.0), lambda np, x: x * 2.0, [R(2)])
    n("inner y * sign(y - outer x) fwd", lambda np, x: x * dfw(lambda y: y * np.logical_or(y, x), x + 1.0), lambda np, x: x * 1.0, [R(2)])
    # an operation with its own derivative rule built by a function transformer (checkpoint) inside an inner derivative:
    # its recomputed local derivative must stay a function of the enclosing level's variable
    ck_sin = lambda np: autograd.checkpoint(lambda y: np.sin(y))
    n("inner derivative through a checkpointed segment (rev)", lambda np, x: x * egrad(lambda y: ck_sin(np)(y) * y)(x), lambda np, x: x * (np.cos(x) * x + np.sin(x)), [R(2)])
    n("checkpointed segment whose arguments belong to different levels", lambda np, x: egrad(lambda y: autograd.checkpoint(lambda a, b: np.sin(a) * b * b)(x, y))(2.0 * x), lambda np, x: np.sin(x) * 4.0 * x, [R(2)])
    n("second derivative of x^2 * checkpoint(sin)(x)", lambda np, x: egrad(lambda y: y * y * ck_sin(np)(y))(x), lambda np, x: 2.0 * x * np.sin(x) + x * x * np.cos(x), [R(2)])
    # values an inner operator hands back besides the derivative (aux output, function value) belong to the outer level too
    gaa, vag = autograd.grad_and_aux, autograd.value_and_grad
    n("aux output of an inner grad_and_aux depends on the outer variable", lambda np, x: x * gaa(lambda y: (np.sum(y * y), np.sin(y) * x))(x)[1] + gaa(lambda y: (np.sum(y * y), np.sin(y) * x))(x)[0],
      lambda np, x: x * np.sin(x) * x + 2.0 * x, [R(2)])
    n("value output of an inner value_and_grad depends on the outer variable", lambda np, x: x * vag(lambda y: np.sum(np.cos(y) * x))(2.0 * x)[0] + vag(lambda y: np.sum(np.cos(y) * x))(2.0 * x)[1],
      lambda np, x: x * np.sum(np.cos(2.0 * x) * x) - np.sin(2.0 * x) * x, [R(2)])
    n("two inner derivatives summed", lambda np, x: egrad(lambda y: x * y)(x) + dfw(lambda y: y * y * x, x), lambda np, x: x + 2 * x * x, [R(2)])
    return _uniq(out)


# ----------------------------------------------------------------------------------------------
# indexing (C11)


def _idx_repr(i):
    if isinstance(i, tuple):
        return "(" + ", ".join(_idx_repr(j) for j in i) + ")"
    if isinstance(i, slice):
        return "%s:%s%s" % ("" if i.start is None else i.start, "" if i.stop is None else i.stop, "" if i.step is None else ":%s" % i.step)
    if i is Ellipsis:
        return "..."
    if isinstance(i, onp.ndarray):
        return "array(%s)" % (i.tolist(),)
    return repr(i)


def index_exprs(shape, tier):
    nd = len(shape)
    S_ = slice
    basic = [0, -1, 1, S_(None), S_(1, None), S_(None, 2), S_(None, None, 2), S_(None, None, -1), S_(-2, None), S_(0, 0), None, Ellipsis]
    red = [0, -1, S_(None), S_(1, None), S_(None, None, -1), None, Ellipsis]
    out = []
    for b in basic:
        out.append(b)
        out.append((b,))
    pool = basic if (tier == "thorough" or nd <= 2) else red
    if nd >= 2:
        for a in pool:
            for b in pool:
                out.append((a, b))
    if nd >= 3 or tier == "thorough":
        for a in red:
            for b in red:
                for c in red:
                    out.append((a, b, c))
    # advanced indexing
    n0 = shape[0]
    adv = [[1 % n0, (1 % n0) - n0, 0] if n0 > 1 else [0, -1], onp.array([0, -n0]), onp.array([n0 - 1, -1, 0][: max(2, n0)]),  # distinct VALUES, same POSITION (k and k-n)
           [0, 0, n0 - 1], [n0 - 1, 0], [-1, 0, -1], onp.array([0, 0, 1 % n0]), onp.array([[0, n0 - 1], [n0 - 1, 0]]), onp.array([], dtype=int), [True] + [False] * (n0 - 1),
           onp.array([i % 2 == 0 for i in range(n0)]), onp.array(0), (onp.array([0, 0]),), ([0, 0],)]
    out.extend(adv)
    if nd >= 2:
        n1 = shape[1]
        out.extend([(onp.array([[0, -n0], [n0 - 1, 0]]),), ([0, -n0], [n1 - 1, -1]), ([0, 0 - n0, 0], [0, 0, -n1]),  # aliasing through mixed signs in 2-D
                    ([0, 1], [1, 1]), ([0, 0, 1], [n1 - 1, n1 - 1, 0]), (onp.array([[0], [1]]), onp.array([0, n1 - 1])), (S_(None), [0, 0]), ([1, 0], S_(None)), ([1, 0, 1], S_(None, None, -1)),
                    (S_(1, None), [0, -1]), ([0, 1], None, S_(None)), (None, [0, 1]), (Ellipsis, [0, 0]), ([0], Ellipsis), (0, [0, 1, 1]), ([0, 1, 1], 0), ([0, 1], -1),
                    onp.ones(shape[:2], dtype=bool), onp.array([[True, False] * n1][0][:n1] * 1 and [[(i + j) % 2 == 0 for j in range(n1)] for i in range(n0)]),
                    (onp.array([True] + [False] * (n0 - 1)),), (S_(None), onp.array([j % 2 == 0 for j in range(n1)])), (onp.array([True] * n0), 0), (onp.array([i % 2 == 0 for i in range(n0)]), [0] * ((n0 + 1) // 2))])
    if nd >= 3:
        out.extend([([0, 1], S_(None), [1, 0]), ([0, 1], [1, 2], [0, 0]), (S_(None), [0, 1], [1, 0]), ([0, 1], [0, 1], S_(None)), (0, S_(None), [0, 0, 1]), (Ellipsis, [1, 0], 0),
                    (onp.array([[0, 1]]), onp.array([[0], [2]]), 1), ([1], None, S_(None), [0]), onp.ones(shape[:2], dtype=bool), (S_(None), onp.ones(shape[1:], dtype=bool))])
    # validity filter on a plain float array, dedupe by repr
    probe = onp.arange(float(onp.prod(shape))).reshape(shape)
    seen = set()
    good = []
    for i in out:
        r = _idx_repr(i)
        if r in seen:
            continue
        seen.add(r)
        try:
            probe[i]
        except Exception:
            continue
        good.append(i)
    return good


def index_grid(tier):
    out = []
    shapes = [(3,), (2, 3), (2, 3, 2)] + ([(2, 2, 2, 2)] if tier == "thorough" else []) + [()]
    for s in shapes:
        if s == ():
            for i in [(), Ellipsis, None, (None, None), (Ellipsis, None), True, False, onp.array(True), onp.array(False), (True,), (False, None), (Ellipsis, True)]:
                out.append(Config("getitem", "IDX x[%s] on shape %s" % (_idx_repr(i), list(s)), lambda np, x, _i=i: x[_i], [R()], 0, tags=("index",)))
            continue
        for i in index_exprs(s, tier):
            out.append(Config("getitem", "IDX x[%s] on shape %s" % (_idx_repr(i), list(s)), lambda np, x, _i=i: x[_i], [R(*s)], 0, tags=("index",)))
    # k sparse and m dense uses of ONE value, in every order
    idxs = [[0, 0, 2], (slice(None, None, -1)), 1, onp.array([True, False, True]), slice(1, None)]
    import itertools

    for L in (2, 3, 4):
        for pat in itertools.product("ID", repeat=L):
            if "I" not in pat:
                continue

            def f(np, x, _pat=pat):
                tot = None
                for j, t in enumerate(_pat):
                    if t == "I":
                        term = np.sum(x[idxs[j % len(idxs)]] * float(j + 2))
                    else:
                        term = np.sum(x * onp.array([1.0, -2.0, 0.5]) * float(j + 1))
                    tot = term if tot is None else tot + term
                return tot

            out.append(Config("getitem", "IDX mix order %s" % "".join(pat), f, [R(3)], 0, tags=("index", "mix")))
    # the same on a RANK-0 value (a 0-d array, and a 0-d pick x[2] of a vector): indices (), ..., None; running sums of 0-d
    # cotangents collapse into NumPy scalars
    idx0 = [(), Ellipsis, None, (None, Ellipsis)]
    for L in (2, 3, 4):
        for pat in itertools.product("ID", repeat=L):
            if "I" not in pat:
                continue

            def f0(np, x, _pat=pat):
                tot = None
                for j, t in enumerate(_pat):
                    term = np.sum(x[idx0[j % len(idx0)]] * float(j + 2)) if t == "I" else (np.sin(x) if j % 2 else x * x) * float(j + 1)
                    tot = term if tot is None else tot + term
                return tot

            out.append(Config("getitem", "IDX rank-0 mix order %s" % "".join(pat), f0, [R()], 0, tags=("index", "mix")))
            if L <= 3 or tier == "thorough":
                out.append(Config("getitem", "IDX rank-0 pick x[2] mix order %s" % "".join(pat), lambda np, x, _f=f0: _f(np, x[2]), [R(3)], 0, tags=("index", "mix")))
    # two sibling values joined by a same-shape pass-through node (s = u + v hands ONE cotangent array to both parents),
    # with indexed and dense uses of s, u and v in every order
    def _sib(np, x, order):
        u, v = np.sin(x), np.cos(x)
        s_ = u + v
        terms = [lambda: np.sum(s_[[0, 0, 2]] ** 2), lambda: np.sum(s_ ** 2) * 0.5, lambda: np.sum(u[[2, 1, 1]] ** 3), lambda: np.sum(v[::-1] ** 2 * onp.array([1.0, 2.0, 3.0]))]
        tot = None
        for i in order:
            t = terms[i]()
            tot = t if tot is None else tot + t
        return tot

    perms = list(itertools.permutations(range(4)))
    for od in (perms if tier == "thorough" else perms[::2]):
        out.append(Config("getitem", "IDX sibling values sharing a cotangent, uses in order %s" % "".join(map(str, od)), lambda np, x, _o=od: _sib(np, x, _o), [R(3)], 0, tags=("index", "mix")))
    # the same with array-valued outputs and nested indexing
    out.append(Config("getitem", "IDX x[1:][::-1][[0,0]] chained", lambda np, x: x[1:][::-1][[0, 0]], [R(3)], 0, tags=("index",)))
    out.append(Config("getitem", "IDX x[idx] * x + x[idx2] array-valued mix", lambda np, x: x[[0, 0, 2]] * x + x[::-1], [R(3)], 0, tags=("index", "mix")))
    out.append(Config("getitem", "IDX 2-D rows then cols", lambda np, x: x[[1, 0]][:, [0, 0, 2]], [R(2, 3)], 0, tags=("index",)))
    # boolean masks computed from the value itself on a rank-0 array (a relu written as a masked sum), mixed with dense uses
    out.append(Config("getitem", "IDX rank-0 masked sum: sum(x[x > 0] * 3) + sin(x)", lambda np, x: np.sum(x[x > 0.0] * 3.0) + np.sin(x), [R()], 0, tags=("index", "mix")))
    out.append(Config("getitem", "IDX rank-0 masked sum, dense use first: x * x + sum(x[x < 0.5]) + sum(x[True]) + sum(x[False])", lambda np, x: x * x + np.sum(x[x < 0.5]) + np.sum(x[True]) * 2.0 + np.sum(x[False]) * 5.0, [R()], 0, tags=("index", "mix")))
    out.append(Config("getitem", "IDX rank-1 masked sum from the value: sum(x[x > 0] ** 2) + x[0]", lambda np, x: np.sum(x[x > 0.0] ** 2) + x[0], [R(2)], 0, tags=("index", "mix")))
    out.append(Config("getitem", "IDX scalar picks summed x[0,1]+x[0,1]+x[1,2]", lambda np, x: x[0, 1] + x[0, 1] * 2.0 + x[1, 2], [R(2, 3)], 0, tags=("index", "mix")))
    out.append(Config("getitem", "IDX x[i] for i in range: python loop", lambda np, x: sum(x[i] * float(i + 1) for i in range(3)), [R(3)], 0, tags=("index", "mix")))
    return _uniq(out)


# ----------------------------------------------------------------------------------------------
# containers (C12-A)


def _prepend_loop(np, t):
    """(h2, h1) + t[1:] built by two successive single prepends and one double prepend of plain tuples of traced values"""
    m = t[1:]
    m = (np.sin(t[0]),) + m
    m = (t[0] * 2.0, np.cos(t[1])) + m
    return m


def container_grid(tier):
    import autograd.builtins as ab

    out = []

    def c(lab, f, args, k=0):
        out.append(Config("container", "CONT " + lab, f, args, k, tags=("container",)))

    W = onp.array([[1.0, -2.0], [0.5, 3.0]])
    c("tuple (array, scalar)", lambda np, t: np.sum(t[0] ** 2) * t[1], [(R(2), SC)])
    c("list [a, b] dot", lambda np, l: np.dot(l[0], l[1]) + np.sum(l[1]), [[R(2), R(2)]])
    c("dict {w, b}", lambda np, d: np.sum(np.tanh(np.dot(d["w"], onp.array([1.0, 2.0])) + d["b"])), [{"w": R(2, 2), "b": R(2)}])
    c("dict.get / items / iteration", lambda np, d: np.sum(d.get("w") * 2.0) + sum(np.sum(v * v) for k_, v in sorted(d.items())) + sum(np.sum(d[k_]) for k_ in d), [{"w": R(2), "b": R(2)}])
    c("nested depth 3: dict of list of tuples", lambda np, p: sum(np.sum(np.dot(w, onp.ones(2)) * b) for (w, b) in p["layers"]) + p["bias"] * 2.0,
      [{"layers": [(R(2, 2), R(2)), (R(2, 2), R(2))], "bias": SC}])
    c("tuple with an unused leaf", lambda np, t: np.sum(t[0] * 3.0), [(R(2), R(3), SC)])
    c("nested tuple, same leaf used twice", lambda np, t: np.sum(t[0][0] * t[0][0] * t[1]) + np.sum(t[0][1]), [((R(2), R(2)), R(2))])
    c("empty containers inside", lambda np, t: np.sum(t[1][0] ** 2), [((), [R(2)], {})])
    c("tuple slice", lambda np, t: np.sum(t[1:][0]) * 2.0 + np.sum(t[:2][1] ** 2), [(R(2), R(2), R(2))])
    c("tuple reversed slice t[::-1]", lambda np, t: sum(np.sum(e * float(i + 1)) for i, e in enumerate(t[::-1])), [(R(2), R(2), R(2))])
    c("list slices with negative steps and open ends", lambda np, l: np.sum(l[::-2][0] * l[::-2][1]) + np.sum(l[2::-1][0] * 3.0) + np.sum(l[:0:-1][1] * l[-1:0:-2][0]), [[R(2), R(2), R(2), R(2)]])
    c("tuple slice with negative bounds", lambda np, t: np.sum(t[-2:][0] * t[:-1][1]) + np.sum(t[-3:-1][1] ** 2), [(R(2), R(2), R(2))])
    c("tuple negative index", lambda np, t: np.sum(t[-1] * t[-2]), [(R(2), R(2), R(2))])
    c("list concatenation + iteration", lambda np, l, k: sum(np.sum(e * float(i + 1)) for i, e in enumerate(l + [k])), [[R(2), R(2)], R(2)])
    c("reflected concatenation", lambda np, l, k: sum(np.sum(e * float(i + 1)) for i, e in enumerate((k,) + l)), [(R(2), R(2)), R(2)])
    # several values prepended / appended at once, each consumed differently (every element has its own slot)
    c("TWO traced values prepended to a traced tuple", lambda np, t, k: sum(np.sum(e * float(i * i + 1)) for i, e in enumerate((np.sin(k), k * 2.0) + t)), [(R(2), R(2)), R(2)], 0)
    c("TWO traced values prepended to a traced tuple", lambda np, t, k: sum(np.sum(e * float(i * i + 1)) for i, e in enumerate((np.sin(k), k * 2.0) + t)), [(R(2), R(2)), R(2)], 1)
    c("[traced, const, traced] + traced list, diamond", lambda np, l: (lambda m: np.sum(m[0] * m[3]) + np.sum(m[1] * m[2] * m[4]) * 3.0)([np.cos(l[0]), onp.array([2.0, -1.0]), l[1] * l[0]] + l), [[R(2), R(2)]])
    c("values prepended one by one in a loop to a slice of the argument", lambda np, t: (lambda m: sum(np.sum(e) * float(i + 1) for i, e in enumerate(m)))(_prepend_loop(np, t)), [(R(2), R(2), R(2))])
    c("THREE traced values appended to a traced list", lambda np, l, k: sum(np.sum(e * float(i * i + 1)) for i, e in enumerate(l + [np.sin(k), k * 2.0, k * k])), [[R(2), R(2)], R(2)], 0)
    c("THREE traced values appended to a traced list", lambda np, l, k: sum(np.sum(e * float(i * i + 1)) for i, e in enumerate(l + [np.sin(k), k * 2.0, k * k])), [[R(2), R(2)], R(2)], 1)
    c("prepend and append around a slice", lambda np, t, k: sum(np.sum(e * float(2 * i + 1)) for i, e in enumerate((k, k * k) + t[1:] + (np.exp(k), t[0] * k))), [(R(2), R(2), R(2)), R(2)], 0)
    c("prepend and append around a slice", lambda np, t, k: sum(np.sum(e * float(2 * i + 1)) for i, e in enumerate((k, k * k) + t[1:] + (np.exp(k), t[0] * k))), [(R(2), R(2), R(2)), R(2)], 1)
    c("tuple consumed WHOLE three times (three dense container cotangents)", lambda np, t, k: sum(np.sum((t + (k,))[0] * (t + (k,))[1]) * float(i + 1) for i in range(3)), [(R(2), R(2)), R(2)])
    c("list consumed WHOLE four times", lambda np, l, k: sum(np.sum(e) * float(j + 1) for i in range(4) for j, e in enumerate(l + [k * float(i)])), [[R(2), R(2)], R(2)])
    c("concatenation of two traced lists", lambda np, l: sum(np.sum(e * float(i + 1)) for i, e in enumerate(l + l)), [[R(2), R(2)]])
    c("traced tuple + EMPTY tuple", lambda np, t: sum(np.sum(e * float(i + 1)) for i, e in enumerate(t + ())), [(R(2), R(3))])
    c("EMPTY list + traced list", lambda np, l: sum(np.sum(e * float(i + 1)) for i, e in enumerate([] + l)), [[R(2), R(3)]])
    c("traced list + EMPTY list, inside a dict", lambda np, d: sum(np.sum(e * float(i + 2)) for i, e in enumerate(d["layers"] + [])) + d["b"], [{"layers": [R(2), R(1)], "b": SC}])
    # SCALAR leaves (immutable: an in-place `+=` on them only rebinds a name): whole-container (dense) cotangents and indexed
    # (sparse) ones in several orders
    c("tuple of scalars: two concatenations then indexed reads", lambda np, t, k: t[0] * np.sin(t[1]) + (t + (k,))[0] * (t + (k,))[1] * 2.0 + ((k,) + t)[1] * ((k,) + t)[2] * 3.0, [(SC, SC), SC])
    c("tuple of scalars: indexed reads then two concatenations", lambda np, t, k: (t + (k,))[0] * (t + (k,))[1] * 2.0 + ((k,) + t)[1] * ((k,) + t)[2] * 3.0 + t[0] * np.sin(t[1]), [(SC, SC), SC])
    c("list of scalars placed twice in a container then indexed", lambda np, l: (lambda a, b: a[0][0] * a[1][1] + b[0][1] * 2.0 + l[0] * l[1] * l[0])([l, l], [l, 1.0]), [[SC, SC]])
    c("dict of scalars: whole-dict uses through values() twice, then key reads", lambda np, d: sum(v * float(i + 1) for i, v in enumerate(d.values())) + sum(v * v for v in d.values()) + d["a"] * np.cos(d["b"]), [{"a": SC, "b": SC}])
    c("tuple of scalars consumed WHOLE four times (dense container cotangents only)", lambda np, t, k: sum((t + (k,))[0] * (t + (k,))[1] * float(i + 1) + (t + (k,))[2] for i in range(4)), [(SC, SC), SC])
    c("list of a scalar and an array placed three times in a constructor", lambda np, l: (lambda a: sum(a[i][0] * float(i + 1) + np.sum(a[i][1]) for i in range(3)))([l, l, l]), [[SC, R(2)]])
    # type queries with Python's OWN isinstance against autograd's list / tuple / dict classes (what the tutorial recommends)
    AT = lambda np: tuple if np is onp else ab.tuple
    AL = lambda np: list if np is onp else ab.list
    AD = lambda np: dict if np is onp else ab.dict
    import builtins as _b

    c("builtin isinstance(t, autograd tuple) selects the branch", lambda np, t: np.sum(t[0] * t[1]) * (2.0 if _b.isinstance(t, AT(np)) else 5.0) + (7.0 if _b.isinstance(t, AL(np)) else 1.0) * np.sum(t[1]), [(R(2), R(2))])
    c("builtin isinstance(l, autograd list) selects the branch", lambda np, l: np.sum(l[0] * l[1]) * (2.0 if _b.isinstance(l, AL(np)) else 5.0) + (7.0 if _b.isinstance(l, AD(np)) else 1.0) * np.sum(l[1]), [[R(2), R(2)]])
    c("builtin isinstance(d, autograd dict) selects the branch", lambda np, d: np.sum(d["a"] * d["b"]) * (2.0 if _b.isinstance(d, AD(np)) else 5.0) + (7.0 if _b.isinstance(d, AT(np)) else 1.0) * np.sum(d["b"]), [{"a": R(2), "b": R(2)}])
    c("builtin isinstance on a NESTED traced container and on a slice of it", lambda np, t: np.sum(t[1][0]) * (2.0 if _b.isinstance(t[1], AL(np)) else 5.0) + np.sum(t[0]) * (3.0 if _b.isinstance(t[:1], AT(np)) else 11.0) + (0.0 if _b.isinstance(t[0], (AT(np), AL(np), AD(np))) else 1.0) * np.sum(t[1][1]), [(R(2), [R(2), R(2)])])
    c("autograd isinstance / type queries on traced containers", lambda np, t: np.sum(t[0]) * (2.0 if (isinstance if np is onp else ab.isinstance)(t, tuple) else 5.0) + np.sum(t[1][0]) * (3.0 if (isinstance if np is onp else ab.isinstance)(t[1], list) else 7.0) + (4.0 if (type if np is onp else ab.type)(t) is tuple else 9.0) * np.sum(t[1][0]), [(R(2), [R(2)])])
    # dict.get on a traced dict: a key that is PRESENT with a falsy value (0.0) is not a missing key (decided at the pinned
    # value 0 of that entry), an absent key yields the default
    for pv in (0, 1):
        cg = Config("container", "CONT dict.get(key, default) with the stored entry pinned to %d, an absent key, and d[key]" % pv,
                    lambda np, d: d.get("offset", 7.0) * np.sum(d["w"]) + d.get("gain", 3.0) * d["w"][0] + d.get("missing", 2.0) * d["w"][1] + (d.get("nothing") is None) * d["offset"],
                    [{"offset": SC, "gain": SC, "w": R(2)}], 0, tags=("container", "pinned"))
        cg.pin_args = [(0, "offset", pv)]
        out.append(cg)
    c("len / in / unpacking", lambda np, t: (lambda a, b: np.sum(a * b) * len(t))(*t), [(R(2), R(2))])
    c("wrt second container argument", lambda np, x, t: np.sum(x * t[0]) + t[1] * np.sum(x), [R(2), (R(2), SC)], 1)
    c("wrt array next to a container", lambda np, x, t: np.sum(x * t[0]) + t[1] * np.sum(x), [R(2), (R(2), SC)], 0)
    c("dict values()/keys()", lambda np, d: sum(np.sum(v) * float(i + 1) for i, v in enumerate(d.values())) * len(d.keys()), [{"a": R(2), "b": R(2)}])
    # container-valued outputs through autograd's own constructors
    T = lambda np: (lambda xs: tuple(xs)) if np is onp else ab.tuple
    L = lambda np: (lambda xs: list(xs)) if np is onp else ab.list
    Dd = lambda np: (lambda **kw: dict(**kw)) if np is onp else (lambda **kw: ab.dict(kw))
    c("output tuple via autograd tuple", lambda np, x: T(np)((x * 2.0, np.sum(x * x))), [R(2)])
    c("output list via autograd list", lambda np, x: L(np)([x[0] * x, x[::-1]]), [R(2)])
    c("output dict via autograd dict", lambda np, x: Dd(np)(a=x * x, b=np.sum(x)), [R(2)])
    c("output nested via constructors", lambda np, t: T(np)((L(np)([t[0] * 2.0, t[1] * t[0]]), t[1])), [(R(2), R(2))])
    c("inner tuple shared by three outer slots", lambda np, x: (lambda t: L(np)([t, t, t]))(T(np)((np.sin(x), 2.0 * x))), [R(2)])
    c("inner list shared by four dict entries", lambda np, x: (lambda t: Dd(np)(a=t, b=t, c=t, d=t))(L(np)([x * x, x + 1.0])), [R(2)])
    c("slice of a traced tuple returned inside the output AND an element of it used again", lambda np, t: t[1:] + (np.sin(t[1]) * t[2],), [(R(2), R(2), R(2))])
    c("overlapping slices of a traced list", lambda np, l: T(np)((l[:2][1] * 2.0, l[1:][0] * l[1:][1])), [[R(2), R(2), R(2)]])
    c("slice output plus integer index output", lambda np, t: T(np)((t[:2], t[0] * t[1])), [(R(2), R(2), R(2))])
    c("container in, container out", lambda np, d: T(np)((d["a"] * d["b"], d["b"] + 1.0)), [{"a": R(2), "b": R(2)}])
    return _uniq(out)


def flatten_cases():
    W = onp.array([1.0, -2.0])
    return [
        ("tuple (array, scalar)", (R(2), SC), lambda np, t: np.sum(t[0] ** 2) * t[1]),
        ("dict of list of tuples", {"layers": [(R(2, 2), R(2))], "bias": SC}, lambda np, p: sum(np.sum(np.dot(w, W) * b) for (w, b) in p["layers"]) + p["bias"] * 2.0),
        ("list [a, b]", [R(2), R(3)], lambda np, l: np.sum(l[0]) * np.sum(l[1] ** 2)),
        ("dict unsorted keys", {"z": R(2), "a": R(1), "m": SC}, lambda np, d: np.sum(d["z"]) * d["a"][0] + d["m"] ** 2),
        ("single array", R(2, 2), lambda np, x: np.sum(x * x)),
        ("scalar", SC, lambda np, x: x * x),
        ("empty containers inside", ((), [R(2)], {}), lambda np, t: np.sum(t[1][0] ** 2)),
        ("0-d array leaf", (R(), R(2)), lambda np, t: t[0] * np.sum(t[1])),
        ("Fortran-contiguous matrix leaf [layout:F]", {"w": R(2, 3), "b": R(2)}, lambda np, d: np.sum(d["w"] * onp.array([[1.0, 2.0, 3.0], [4.0, 5.0, 6.0]])) + np.sum(d["b"] ** 2)),
        ("mixed real and complex leaves: complex first", {"a": Cx(2), "w": R(2), "z": (Cx(1), CSC, SC)}, lambda np, d: np.sum(np.abs(d["a"]) ** 2) + np.sum(d["w"] ** 2) + np.abs(d["z"][0][0] * d["z"][1]) ** 2 * d["z"][2]),
        ("mixed real and complex leaves: complex after real", (R(2), Cx(2), R(1), CSC), lambda np, t: np.sum(t[0]) * np.sum(np.real(t[1] * t[1])) + t[2][0] * np.imag(t[3]) + np.real(t[3]) ** 2),
        ("tuple with a Fortran-contiguous leaf [layout:F]", (R(3, 2), SC), lambda np, t: np.sum(t[0] * onp.arange(6.0).reshape(3, 2)) * t[1]),
    ]



# ----------------------------------------------------------------------------------------------
# second-order grid (C07): configurations with at most 4 input entries


def second_order_grid(tier):
    def small(c):
        n = 0
        a = c.args[c.argnum]
        if isinstance(a, (tuple, list, dict)):
            return False
        n = int(onp.prod(a.shape)) if a.shape is not None else 1
        return n <= (4 if tier == "quick" else 6)

    keep = []
    seen_prim = {}
    for c in real_grid("quick") + program_grid("quick"):
        if not small(c):
            continue
        # bound the number of configurations per primitive (quick: 6, thorough: 30), spread over the list
        lim = 6 if tier == "quick" else 30
        n = seen_prim.get(c.prim, 0)
        if c.prim != "program" and n >= lim:
            continue
        seen_prim[c.prim] = n + 1
        keep.append(c)
    # complex arguments: rules whose second derivative differs from the real case (phases, conjugates, abs)
    seen_c = {}
    for c in complex_grid("quick"):
        if not small(c):
            continue
        lim = 1 if tier == "quick" else 8
        n = seen_c.get(c.prim, 0)
        if tier == "quick" and c.prim not in ("linalg.norm", "linalg.norm ord=3", "abs", "angle", "multiply", "dot", "power", "conj"):
            continue
        if n >= lim and not c.prim.startswith("linalg.norm"):
            continue
        seen_c[c.prim] = n + 1
        keep.append(c)
    return keep
