"""Translation validation of the shape-level model (Engine D): on random CONCRETE shapes the harness bodies are run
(a) with the model bound into the real helper code and (b) the same call is made on real float64 arrays through
autograd; the shapes produced by (a) must equal the shapes produced by (b), and the model must not hit a gap."""
import random
import warnings


def run(seed=0, n=300):
    import numpy as onp
    import autograd.numpy as anp
    from autograd import make_vjp, make_jvp
    from vf.ch import h_shape as h
    from vf.shp.model import NS, ShArr

    rng = random.Random(seed)
    rs = lambda k, lo=0, hi=3: [rng.randint(lo, hi) for _ in range(k)]
    problems = []
    checked = 0
    del h.GAPS[:]

    def real_vjp_shape(f, x):
        with warnings.catch_warnings():
            warnings.simplefilter("ignore")
            vjp, ans = make_vjp(f)(x)
            return onp.shape(vjp(onp.ones(onp.shape(ans)))), onp.shape(ans)

    for _ in range(n):
        k = rng.randint(1, 3)
        sh = rs(k)
        x = onp.ones(sh)
        # repeat
        rep, ax = rng.randint(1, 3), (rng.randint(-k, k - 1) if rng.random() < 0.7 else None)
        got, ans_shape = real_vjp_shape(lambda z: anp.repeat(z, rep, ax), x)
        if tuple(NS.repeat(ShArr(sh), rep, ax).shape) != tuple(ans_shape):
            problems.append("forward model of repeat: %r %r %r" % (sh, rep, ax))
        if h.repeat_body(sh, rep, ax is not None, ax if ax is not None else 0) != (tuple(got) == tuple(sh)):
            problems.append("repeat: model and real run disagree on %r %r %r" % (sh, rep, ax))
        # tile
        reps = rs(rng.randint(1, 3), 1, 3)
        got, ans_shape = real_vjp_shape(lambda z: anp.tile(z, tuple(reps)), x)
        if h.tile_body(sh, reps, False) != (tuple(got) == tuple(sh)):
            problems.append("tile: model and real run disagree on %r %r" % (sh, reps))
        # transpose
        perm = list(range(k))
        rng.shuffle(perm)
        perm = [p - k if rng.random() < 0.5 else p for p in perm]
        shd = rng.sample([2, 3, 4, 5], k)  # distinct dimensions: equal ones would hide a wrong permutation from the real run
        got, ans_shape = real_vjp_shape(lambda z: anp.transpose(z, tuple(perm)), onp.ones(shd))
        if tuple(NS.transpose(ShArr(shd), tuple(perm)).shape) != tuple(ans_shape):
            problems.append("forward model of transpose: %r %r" % (shd, perm))
        if h.transpose_body(shd, tuple(perm)) != (tuple(got) == tuple(shd)):
            problems.append("transpose: model and real run disagree on %r %r" % (shd, perm))
        # sum with axis / keepdims (repeat_to_match_shape)
        kind = rng.randint(0, 2)
        a0, a1 = rng.randint(-k, k - 1), rng.randint(-k, k - 1)
        if kind < 2 or a0 % k != a1 % k:
            axis = None if kind == 0 else (a0 if kind == 1 else (a0, a1))
            kd = rng.random() < 0.5
            got, ans_shape = real_vjp_shape(lambda z: anp.sum(z, axis=axis, keepdims=kd), x)
            if h.rtms_body(sh, kind, a0, a1, kd) != (tuple(got) == tuple(sh)):
                problems.append("sum: model and real run disagree on %r axis=%r keepdims=%r" % (sh, axis, kd))
        # broadcasting binary op (unbroadcast / broadcast)
        other = rs(k, 0, 3)
        extra = rs(rng.randint(0, 2), 0, 3)
        ysh = extra + [(other[i] if sh[i] == 1 else (sh[i] if rng.random() < 0.7 else 1)) for i in range(k)]
        y = onp.ones(ysh)
        try:
            onp.broadcast_shapes(tuple(sh), tuple(ysh))
        except ValueError:
            continue
        got, ans_shape = real_vjp_shape(lambda z: z * y, x)
        if tuple(got) != tuple(sh):
            problems.append("real run: unbroadcast gives %r for %r * %r" % (got, sh, ysh))
        with warnings.catch_warnings():
            warnings.simplefilter("ignore")
            tan = make_jvp(lambda z: z * y)(x)(onp.ones(sh))[1]
        if onp.shape(tan) != tuple(ans_shape):
            problems.append("real run: broadcast (JVP) gives %r for output %r" % (onp.shape(tan), ans_shape))
        # broadcast_to
        ones = [rng.random() < 0.5 for _ in range(k)]
        old = [1 if ones[i] else sh[i] for i in range(k)]
        got, _ = real_vjp_shape(lambda z: anp.broadcast_to(z, tuple(sh)), onp.ones(old))
        if h.broadcast_to_body(sh, ones) != (tuple(got) == tuple(old)):
            problems.append("broadcast_to: model and real run disagree on %r -> %r" % (old, sh))
        # concatenate
        m = rng.randint(1, 4)
        sizes = rs(m)
        rest = rs(rng.randint(0, 2))
        pos = rng.randint(0, len(rest))
        arg = rng.randint(1, m)
        arrs = []
        for s_ in sizes:
            s2 = list(rest)
            s2.insert(pos, s_)
            arrs.append(onp.ones(s2))
        got, _ = real_vjp_shape(lambda z: anp.concatenate(arrs[: arg - 1] + [z] + arrs[arg:], axis=pos), arrs[arg - 1])
        if h.concat_body(sizes, rest, pos, arg, False) != (tuple(got) == onp.shape(arrs[arg - 1])):
            problems.append("concatenate: model and real run disagree on %r %r" % (sizes, rest))
        # dot / tensordot / matmul: the model-run verdict against the real run's shapes
        r = lambda: rng.randint(0, 3)
        ra, rb, wrt = rng.randint(0, 3), rng.randint(0, 3), rng.randint(0, 1)
        da, db, kk = [r(), r(), 7], [r(), r(), r()], r()
        if ra == 0 or rb == 0:
            ash, bsh = da[:ra], db[:rb]
        elif rb == 1:
            ash, bsh = da[: ra - 1] + [kk], [kk]
        else:
            ash, bsh = da[: ra - 1] + [kk], db[: rb - 2] + [kk] + [db[2]]
        A_, B_ = onp.ones(ash), onp.ones(bsh)
        got, _ = real_vjp_shape((lambda z: anp.dot(z, B_)) if wrt == 0 else (lambda z: anp.dot(A_, z)), A_ if wrt == 0 else B_)
        if h.dot_body(ra, rb, da, db, kk, wrt, False, False) != (tuple(got) == onp.shape(A_ if wrt == 0 else B_)):
            problems.append("dot: model and real run disagree on %r %r" % (ash, bsh))
        nn = rng.randint(0, 2)
        ra, rb = rng.randint(nn, min(3, nn + 2)), rng.randint(nn, min(3, nn + 2))
        form, perm, negs = rng.randint(0, 2), rng.randint(1, 2), rng.random() < 0.5
        if form == 0 or nn >= 1:
            da, db, ks = [r(), r()], [r(), r()], [r(), r()]
            ash, bsh = da[: ra - nn] + ks[:nn], ks[:nn] + db[: rb - nn]
            if form == 0:
                axes = nn
            else:
                order = [[0], [0, 1], [1, 0]][perm][:nn] if nn == 2 else list(range(nn))
                ax_a, ax_b = [ra - nn + i for i in order], [i for i in order]
                if negs:
                    ax_a, ax_b = [i - ra for i in ax_a], [i - rb for i in ax_b]
                axes = (ax_a, ax_b) if form == 1 else ((ax_a[0], ax_b[0]) if nn == 1 else (ax_a, ax_b))
            A_, B_ = onp.ones(ash), onp.ones(bsh)
            got, _ = real_vjp_shape((lambda z: anp.tensordot(z, B_, axes)) if wrt == 0 else (lambda z: anp.tensordot(A_, z, axes)), A_ if wrt == 0 else B_)
            if h.tensordot_body(ra, rb, nn, da, db, ks, wrt, form, perm, negs) != (tuple(got) == onp.shape(A_ if wrt == 0 else B_)):
                problems.append("tensordot: model and real run disagree on %r %r axes=%r" % (ash, bsh, axes))
        ra, rb = rng.randint(1, 3), rng.randint(1, 3)
        bd = r()
        ao, bo = rng.random() < 0.3, rng.random() < 0.3
        m_, k_, n_ = r(), r(), r()
        ash = [k_] if ra == 1 else [1 if ao else bd][: ra - 2] + [m_, k_]
        bsh = [k_] if rb == 1 else [1 if bo else bd][: rb - 2] + [k_, n_]
        A_, B_ = onp.ones(ash), onp.ones(bsh)
        got, _ = real_vjp_shape((lambda z: anp.matmul(z, B_)) if wrt == 0 else (lambda z: anp.matmul(A_, z)), A_ if wrt == 0 else B_)
        if h.matmul_body(ra, rb, [1 if ao else bd], [1 if bo else bd], m_, k_, n_, wrt) != (tuple(got) == onp.shape(A_ if wrt == 0 else B_)):
            problems.append("matmul: model and real run disagree on %r %r" % (ash, bsh))
        # rollaxis / moveaxis forward shapes, pad round trip
        n4 = rng.randint(1, 4)
        xx = onp.ones(list(range(2, 2 + n4)))
        a_, st_ = rng.randint(-n4, n4 - 1), rng.randint(-n4, n4)
        if onp.rollaxis(xx, a_, st_).shape != NS.rollaxis(ShArr(xx.shape), a_, st_).shape:
            problems.append("forward model of rollaxis: %r %r %r" % (xx.shape, a_, st_))
        s_, d_ = rng.randint(-n4, n4 - 1), rng.randint(-n4, n4 - 1)
        if onp.moveaxis(xx, s_, d_).shape != NS.moveaxis(ShArr(xx.shape), s_, d_).shape:
            problems.append("forward model of moveaxis: %r %r %r" % (xx.shape, s_, d_))
        got, _ = real_vjp_shape(lambda z: anp.moveaxis(z, s_, d_), xx)
        if h.perm_body("moveaxis", n4, s_, d_) != (tuple(got) == xx.shape):
            problems.append("moveaxis: model and real run disagree on %r %r %r" % (xx.shape, s_, d_))
        form = rng.randint(0, 4)
        lo, hi, lo2, hi2 = [rng.randint(0, 2) for _ in range(4)]
        width = [lo, (lo,), (lo, hi), ((lo, hi),), tuple([(lo, hi), (lo2, hi2), (hi, lo2)][:k])][form]
        got, ans_shape = real_vjp_shape(lambda z: anp.pad(z, width, "constant"), x)
        if tuple(NS.pad(ShArr(sh), width).shape) != tuple(ans_shape):
            problems.append("forward model of pad: %r %r" % (sh, width))
        if h.pad_body(sh, form, lo, hi, lo2, hi2) != (tuple(got) == tuple(sh)):
            problems.append("pad: model and real run disagree on %r %r" % (sh, width))
        checked += 1
    return {"samples": checked, "problems": problems[:10], "model_gaps": sorted(set(h.GAPS))[:10]}


if __name__ == "__main__":
    import json
    print(json.dumps(run(), indent=1))
