"""Engine D: a shape-level model of the NumPy namespace.  Arrays are reduced to (shape, is-complex); dimensions are
plain Python ints, so under CrossHair they are symbolic and UNBOUNDED.  The real helper code of
autograd.numpy.numpy_vjps / numpy_jvps (unbroadcast, broadcast, repeat_to_match_shape, grad_repeat, grad_tile,
grad_transpose, grad_concatenate_args, grad_broadcast_to, ...) is executed with its module globals `anp` / `onp`
bound to this namespace; what it computes on shapes is then exactly what it computes on real arrays, as far as shapes
and the real/complex kind go (validated against real NumPy on concrete shapes by vf.shp.validate)."""


class ShapeError(Exception):
    """an operation NumPy would reject (size mismatch in reshape, axis out of range, incompatible broadcast)"""


def _ax(ax, nd):
    if not (-nd <= ax < nd):
        raise ShapeError("axis %r out of range for ndim %r" % (ax, nd))
    return ax + nd if ax < 0 else ax


def _prod(xs):
    p = 1
    for d in xs:
        p = p * d
    return p


def _bshape(a, b):
    a, b = list(a), list(b)
    while len(a) < len(b):
        a.insert(0, 1)
    while len(b) < len(a):
        b.insert(0, 1)
    out = []
    for x, y in zip(a, b):
        if x == y:
            out.append(x)
        elif x == 1:
            out.append(y)
        elif y == 1:
            out.append(x)
        else:
            raise ShapeError("operands could not be broadcast together")
    return tuple(out)


class ShArr:
    __slots__ = ("shape", "cplx", "origin")

    def __init__(self, shape, cplx=False, origin=None):
        self.shape = tuple(shape)
        self.cplx = cplx
        self.origin = origin  # for a basic-slicing result: [(lo, hi) | None per source axis]

    @property
    def ndim(self):
        return len(self.shape)

    @property
    def size(self):
        return _prod(self.shape)

    def _bin(self, o):
        if isinstance(o, ShArr):
            return ShArr(_bshape(self.shape, o.shape), self.cplx or o.cplx)
        if isinstance(o, complex):
            return ShArr(self.shape, True)
        if isinstance(o, (int, float)):
            return ShArr(self.shape, self.cplx)
        return NotImplemented

    __add__ = __radd__ = __sub__ = __rsub__ = __mul__ = __rmul__ = __truediv__ = __rtruediv__ = _bin

    def __neg__(self):
        return ShArr(self.shape, self.cplx)

    def __getitem__(self, idx):
        if not isinstance(idx, tuple):
            idx = (idx,)
        if len(idx) > len(self.shape):
            raise ShapeError("too many indices")
        out = []
        org = []
        for i, d in enumerate(self.shape):
            if i >= len(idx):
                out.append(d)
                org.append((0, d))
                continue
            s = idx[i]
            if isinstance(s, slice):
                if s.step is not None:
                    raise ShapeError("model: stepped slices not modelled")
                lo = 0 if s.start is None else (s.start + d if s.start < 0 else s.start)
                hi = d if s.stop is None else (s.stop + d if s.stop < 0 else s.stop)
                lo = 0 if lo < 0 else (d if lo > d else lo)
                hi = 0 if hi < 0 else (d if hi > d else hi)
                out.append(hi - lo if hi > lo else 0)
                org.append((lo, hi))
            else:
                _ax(s, d)  # integer index: bounds check, axis removed
                org.append(None)
        return ShArr(out, self.cplx, org)

    def __repr__(self):
        return "ShArr(%r%s)" % (self.shape, ", complex" if self.cplx else "")


class IntVec:
    """onp.array(<tuple of ints>) as used for shape arithmetic"""

    def __init__(self, xs):
        self.xs = list(xs)

    def __len__(self):
        return len(self.xs)

    def __iter__(self):
        return iter(self.xs)

    def _sel(self, key):
        n = len(self.xs)
        if key is None:
            return list(range(n))
        if isinstance(key, (list, tuple, IntVec)):
            return [_ax(k, n) for k in key]
        return None

    def __getitem__(self, key):
        if isinstance(key, slice):
            return IntVec(self.xs[key])
        sel = self._sel(key)
        if sel is None:
            return self.xs[_ax(key, len(self.xs))]
        return IntVec([self.xs[i] for i in sel])

    def __setitem__(self, key, val):
        sel = self._sel(key)
        if sel is None:
            sel = [_ax(key, len(self.xs))]
        for i in sel:
            self.xs[i] = val

    def __mod__(self, m):
        return IntVec([x % m for x in self.xs])

    def __eq__(self, o):
        return [x == o for x in self.xs]

    def __ne__(self, o):
        return [x != o for x in self.xs]

    def __gt__(self, o):
        return [x > o for x in self.xs]

    def __ge__(self, o):
        return [x >= o for x in self.xs]

    def __lt__(self, o):
        return [x < o for x in self.xs]

    def __le__(self, o):
        return [x <= o for x in self.xs]

    __hash__ = None


def _shape_arg(s):
    if isinstance(s, IntVec):
        return tuple(s.xs)
    if isinstance(s, (tuple, list)):
        return tuple(s)
    return (s,)


class NS:
    """the namespace bound to `anp` and `onp` inside the real helper code"""

    newaxis = None

    @staticmethod
    def ndim(x):
        return x.ndim if isinstance(x, ShArr) else 0

    @staticmethod
    def shape(x):
        if isinstance(x, ShArr):
            return x.shape
        if isinstance(x, (list, tuple)):  # nested Python sequences (pad widths)
            return (len(x),) + (NS.shape(x[0]) if len(x) else ())
        return ()

    @staticmethod
    def iscomplexobj(x):
        return x.cplx if isinstance(x, ShArr) else isinstance(x, complex)

    @staticmethod
    def isscalar(x):
        return isinstance(x, (int, float, complex))

    @staticmethod
    def real(x):
        return ShArr(x.shape, False) if isinstance(x, ShArr) else x

    @staticmethod
    def conj(x):
        return x

    @staticmethod
    def metadata(x):
        return NS.shape(x), NS.ndim(x), None, NS.iscomplexobj(x)

    @staticmethod
    def sum(x, axis=None, keepdims=False):
        nd = x.ndim
        if axis is None:
            axes = list(range(nd))
        elif isinstance(axis, (tuple, list, IntVec)):
            axes = [_ax(a, nd) for a in axis]
            if len(set(axes)) != len(axes):
                raise ShapeError("duplicate value in 'axis'")
        else:
            axes = [_ax(axis, nd)]
        if keepdims:
            return ShArr([1 if i in axes else d for i, d in enumerate(x.shape)], x.cplx)
        return ShArr([d for i, d in enumerate(x.shape) if i not in axes], x.cplx)

    @staticmethod
    def reshape(x, shape, order="C"):
        new = _shape_arg(shape)
        if _prod(new) != x.size:
            raise ShapeError("cannot reshape array of size %r into shape %r" % (x.size, new))
        return ShArr(new, x.cplx)

    @staticmethod
    def zeros(shape, dtype=None):
        return ShArr(_shape_arg(shape), False)

    ones = zeros

    @staticmethod
    def array(x, dtype=None):
        if isinstance(x, (tuple, list)):
            return IntVec(x)
        return x

    @staticmethod
    def prod(x):
        if isinstance(x, IntVec):
            return _prod(x.xs)
        if isinstance(x, (tuple, list)):
            return _prod(x)
        return x

    @staticmethod
    def expand_dims(x, axis):
        sh = list(x.shape)
        a = axis + len(sh) + 1 if axis < 0 else axis
        if not (0 <= a <= len(sh)):
            raise ShapeError("axis out of range")
        sh.insert(a, 1)
        return ShArr(sh, x.cplx)

    @staticmethod
    def repeat(x, repeats, axis=None):
        if isinstance(x, (list, tuple)):  # repeat rows of a nested list along axis 0 (pad widths)
            if axis != 0:
                raise TypeError("model: repeat of a nested list only along axis 0")
            return [row for row in x for _ in range(repeats)]
        if axis is None:
            return ShArr((x.size * repeats,), x.cplx)
        a = _ax(axis, x.ndim)
        return ShArr([d * repeats if i == a else d for i, d in enumerate(x.shape)], x.cplx)

    @staticmethod
    def transpose(x, axes=None):
        nd = x.ndim
        if axes is None:
            return ShArr(x.shape[::-1], x.cplx)
        ax = [_ax(a, nd) for a in axes]
        if len(ax) != nd or sorted(ax) != list(range(nd)):
            raise ShapeError("axes don't match array")
        return ShArr([x.shape[a] for a in ax], x.cplx)

    @staticmethod
    def argsort(v):
        xs = list(v)
        return IntVec(sorted(range(len(xs)), key=lambda i: xs[i]))

    @staticmethod
    def sort(v):
        return IntVec(sorted(v))

    @staticmethod
    def split(x, n, axis=0):
        a = _ax(axis, x.ndim)
        d = x.shape[a]
        if n <= 0 or d % n != 0:
            raise ShapeError("array split does not result in an equal division")
        piece = ShArr([d // n if i == a else e for i, e in enumerate(x.shape)], x.cplx)
        return [piece] * n

    @staticmethod
    def concatenate(xs, axis=0):
        xs = list(xs)
        if all(isinstance(x, IntVec) for x in xs):
            return IntVec([e for x in xs for e in x.xs])
        if all(isinstance(x, (list, tuple)) for x in xs):
            return [e for x in xs for e in x]
        a = _ax(axis, xs[0].ndim)
        tot = 0
        for x in xs:
            if x.ndim != xs[0].ndim:
                raise ShapeError("all the input array dimensions must match")
            for i, (d, e) in enumerate(zip(x.shape, xs[0].shape)):
                if i != a and d != e:
                    raise ShapeError("all the input array dimensions except for the concatenation axis must match")
            tot = tot + x.shape[a]
        return ShArr([tot if i == a else d for i, d in enumerate(xs[0].shape)], any(x.cplx for x in xs))

    @staticmethod
    def diff(x, n=1, axis=-1):
        a = _ax(axis, x.ndim)
        d = x.shape[a] - n
        return ShArr([(d if d > 0 else 0) if i == a else e for i, e in enumerate(x.shape)], x.cplx)

    @staticmethod
    def asarray(x, dtype=None):
        if isinstance(x, (list, tuple, range)):
            return IntVec(x)
        return x

    @staticmethod
    def arange(n):
        return IntVec(range(n))

    @staticmethod
    def delete(v, idx):
        drop = set(_ax(i, len(v)) for i in idx)
        return IntVec([x for i, x in enumerate(v.xs) if i not in drop])

    @staticmethod
    def swapaxes(x, i, j):
        sh = list(x.shape)
        i, j = _ax(i, len(sh)), _ax(j, len(sh))
        sh[i], sh[j] = sh[j], sh[i]
        return ShArr(sh, x.cplx)

    @staticmethod
    def rollaxis(x, axis, start=0):
        n = x.ndim
        axis = _ax(axis, n)
        if start < 0:
            start = start + n
        if not (0 <= start <= n):
            raise ShapeError("rollaxis: start out of range")
        if start > axis:
            start = start - 1
        axes = list(range(n))
        axes.remove(axis)
        axes.insert(start, axis)
        return ShArr([x.shape[a] for a in axes], x.cplx)

    @staticmethod
    def moveaxis(x, source, destination):
        n = x.ndim
        src = [_ax(a, n) for a in (source if isinstance(source, (tuple, list)) else (source,))]
        dst = [_ax(a, n) for a in (destination if isinstance(destination, (tuple, list)) else (destination,))]
        if len(src) != len(dst) or len(set(src)) != len(src) or len(set(dst)) != len(dst):
            raise ShapeError("moveaxis: bad source / destination")
        order = [a for a in range(n) if a not in src]
        for d, s_ in sorted(zip(dst, src)):
            order.insert(d, s_)
        return ShArr([x.shape[a] for a in order], x.cplx)

    @staticmethod
    def pad(x, width, mode="constant"):
        w = width
        if isinstance(w, (int,)):
            w = [[w, w]] * x.ndim
        elif NS.shape(w) == (1,):
            w = [[w[0], w[0]]] * x.ndim
        elif NS.shape(w) == (2,):
            w = [list(w)] * x.ndim
        elif NS.shape(w)[0] == 1:
            w = [list(w[0])] * x.ndim
        if len(w) != x.ndim:
            raise ShapeError("pad: width does not match ndim")
        return ShArr([d + lo + hi for d, (lo, hi) in zip(x.shape, w)], x.cplx)

    @staticmethod
    def squeeze(x, axis=None):
        if axis is None:
            return ShArr([d for d in x.shape if d != 1], x.cplx)
        axes = [_ax(a, x.ndim) for a in (axis if isinstance(axis, (tuple, list)) else (axis,))]
        for a in axes:
            if x.shape[a] != 1:
                raise ShapeError("cannot select an axis to squeeze out which has size not equal to one")
        return ShArr([d for i, d in enumerate(x.shape) if i not in axes], x.cplx)

    @staticmethod
    def ravel(x, order="C"):
        return ShArr((x.size,), x.cplx)

    @staticmethod
    def tensordot(a, b, axes=2):
        if not isinstance(a, ShArr):
            a = ShArr((), isinstance(a, complex))
        if not isinstance(b, ShArr):
            b = ShArr((), isinstance(b, complex))
        if isinstance(axes, int):
            if axes < 0 or axes > a.ndim or axes > b.ndim:
                raise ShapeError("tensordot: bad axes")
            aa = list(range(a.ndim - axes, a.ndim))
            bb = list(range(axes))
        else:
            aa, bb = axes
            aa = [aa] if isinstance(aa, int) else list(aa)
            bb = [bb] if isinstance(bb, int) else list(bb)
            aa = [_ax(i, a.ndim) for i in aa]
            bb = [_ax(i, b.ndim) for i in bb]
        if len(aa) != len(bb):
            raise ShapeError("shape-mismatch for sum")
        for i, j in zip(aa, bb):
            if a.shape[i] != b.shape[j]:
                raise ShapeError("shape-mismatch for sum")
        out = [d for i, d in enumerate(a.shape) if i not in aa] + [d for j, d in enumerate(b.shape) if j not in bb]
        return ShArr(out, a.cplx or b.cplx)

    @staticmethod
    def dot(a, b):
        if not isinstance(a, ShArr) or not isinstance(b, ShArr) or a.ndim == 0 or b.ndim == 0:
            return a * b
        if b.ndim == 1:
            return NS.tensordot(a, b, [[a.ndim - 1], [0]])
        return NS.tensordot(a, b, [[a.ndim - 1], [b.ndim - 2]])

    @staticmethod
    def matmul(a, b):
        if a.ndim == 0 or b.ndim == 0:
            raise ShapeError("matmul: scalar operand")
        ash = list(a.shape) if a.ndim > 1 else [1, a.shape[0]]
        bsh = list(b.shape) if b.ndim > 1 else [b.shape[0], 1]
        if ash[-1] != bsh[-2]:
            raise ShapeError("matmul: core dimension mismatch")
        batch = _bshape(ash[:-2], bsh[:-2])
        out = list(batch) + ([ash[-2]] if a.ndim > 1 else []) + ([bsh[-1]] if b.ndim > 1 else [])
        return ShArr(out, a.cplx or b.cplx)

    @staticmethod
    def logical_and(a, b):
        return [p and q for p, q in zip(a, b)]

    @staticmethod
    def where(c):
        return (IntVec([i for i, b in enumerate(c) if b]),)
