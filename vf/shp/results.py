"""Engine D as a source of result items for a grid property (C05): CrossHair conditions over the shape-level model,
the reachability twin, and the concrete translation validation."""
import os

CONDS = [
    ("_unbroadcast", "unbroadcast (all broadcasting VJPs): result shape == target shape, kind", 120),
    ("_broadcast", "broadcast (all broadcasting JVPs): result shape == output shape, kind", 120),
    ("_repeat_to_match_shape", "repeat_to_match_shape (sum/mean/prod/var/std/max/min VJPs): axis None / int / pair, negative, keepdims", 200),
    ("_grad_repeat", "VJP of np.repeat: axis None / any axis incl. negative, any repeat count", 120),
    ("_grad_tile", "VJP of np.tile: reps scalar / shorter / longer than ndim (reps 1..3)", 120),
    ("_grad_transpose", "VJP of np.transpose: every permutation, negative axes", 120),
    ("_grad_concatenate2", "VJP of np.concatenate, 2 operands: slice == exactly the operand's block", 120),
    ("_grad_concatenate3", "VJP of np.concatenate, 3 operands of rank 3", 240),
    ("_grad_concatenate4", "VJP of np.concatenate, 4 operands", 120),
    ("_grad_broadcast_to", "VJP of np.broadcast_to", 120),
    ("_grad_broadcast_to_lead", "VJP of np.broadcast_to when the target has extra leading dimensions: refuses, or returns the argument's shape", 120),
    ("_dot", "VJPs of np.dot, ranks 0..3 x 0..3, real/complex kinds", 200),
    ("_tensordot", "VJPs of np.tensordot: axes int 0..2, explicit axis lists in both orders, negative", 300),
    ("_matmul", "VJPs of np.matmul: ranks 1..3, broadcast batch dimensions", 200),
    ("_rollaxis", "VJP of np.rollaxis: every axis / start on ranks 1..4 (negative ones must be refused)", 120),
    ("_moveaxis", "VJP of np.moveaxis: every source / destination incl. negative, ranks 1..4", 120),
    ("_moveaxis2_4", "VJP of np.moveaxis with pairs of axes on rank 4", 240),
    ("_swapaxes", "VJP of np.swapaxes, ranks 1..4", 120),
    ("_pad", "VJP of np.pad (constant): all width forms, unbounded widths: the slice removes exactly the padding", 120),
]


def run(seed):
    from ..ch import run as chrun
    from . import validate

    tier = os.environ.get("VF_TIER_CUR", "quick")
    H = "vf.ch.h_shape"
    conds = [dict(module=H, func=f, what=w, timeout={"quick": t, "thorough": 4 * t}) for f, w, t in CONDS]
    conds.append(dict(module=H, func="_unbroadcast_reach", expect="counterexample", what="reachability twin", timeout=60))
    res = chrun.run_conditions(conds, tier)
    out = []
    for r in res:
        key = "SHAPE-D %s | %s" % (r["func"], r.get("what", ""))
        want_cex = r.get("expect") == "counterexample"
        if want_cex:
            st = "holds" if r["verdict"] == "counterexample" else "error"
            detail = "reachability twin: " + r["verdict"]
        elif r["verdict"] == "confirmed":
            st, detail = "holds", "confirmed over all paths (dimensions unbounded)"
        elif r["verdict"] == "counterexample" and r.get("replay_violated"):
            st, detail = "violation", "%s ; %s" % (r.get("detail"), r.get("replay"))
        elif r["verdict"] == "counterexample":
            st, detail = "error", "counterexample does not reproduce in plain Python: %s" % (r.get("detail"),)
        else:
            st, detail = "inconclusive", "%s: %s" % (r["verdict"], (r.get("detail") or "")[:200])
        out.append({"key": key, "status": st, "detail": detail, "paths": 1, "queries": 1, "validated": 0, "verdicts": {}, "prim": "shape",
                    "cex": {"mode": "crosshair", "module": H, "func": r["func"], "args": r.get("cex_args")} if st == "violation" else None})
    v = validate.run(seed, 150 if tier == "quick" else 600)
    vkey = "SHAPE-D translation validation | model-run vs real float64 run on %d concrete shape samples" % v["samples"]
    if v["problems"]:
        out.append({"key": vkey, "status": "error", "detail": "; ".join(v["problems"][:4]), "paths": 0, "queries": 0, "validated": 0, "verdicts": {}})
    elif v["model_gaps"]:
        out.append({"key": vkey, "status": "inconclusive", "detail": "the shape model lacks something the code uses (no verdict for the affected conditions): " + "; ".join(v["model_gaps"][:4]),
                    "paths": 0, "queries": 0, "validated": 0, "verdicts": {}})
    else:
        out.append({"key": vkey, "status": "holds", "detail": "", "paths": 0, "queries": 0, "validated": v["samples"], "verdicts": {}})
    return out
