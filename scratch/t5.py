import sys
sys.path.insert(0,'/verif')
from vf import solve
import z3
x,y=z3.Reals("x y")
print(solve.cvc5_check(z3.Solver().to_smt2() if False else (lambda s:(s.add(x*x+y*y<0),s.to_smt2())[1])(z3.Solver())))
print(solve.cvc5_check((lambda s:(s.add(x*x+y*y==2, x>y),s.to_smt2())[1])(z3.Solver())))
