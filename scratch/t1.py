import sys, time
sys.path.insert(0,'/verif')
from vf import enga
enga.init()
from vf.enga import Config, R, K, SC, Cx
from vf.checks_a import check_vjp, check_jvp
import numpy as onp
cfgs=[
 Config("sum","sum(x,axis=(0,-1))", lambda np,x: np.sum(x,axis=(0,-1)), [R(2,3,2)]),
 Config("multiply","x*y bc", lambda np,x,y: np.multiply(x,y), [R(2,1),R(3,)], 0),
 Config("multiply","x*y bc", lambda np,x,y: np.multiply(x,y), [R(2,1),R(3,)], 1),
 Config("exp","exp", lambda np,x: np.exp(x), [R(2)]),
 Config("tanh","tanh", lambda np,x: np.tanh(x), [R(2)]),
 Config("sqrt","sqrt", lambda np,x: np.sqrt(x), [R(2)]),
 Config("repeat","repeat(x,2,axis=-1)", lambda np,x: np.repeat(x,2,axis=-1), [R(2,3)]),
 Config("tile","tile(x,2)", lambda np,x: np.tile(x,2), [R(2,3)]),
 Config("max","max axis=1", lambda np,x: np.max(x,axis=1), [R(2,2)]),
 Config("dot","dot", lambda np,x,y: np.dot(x,y), [R(2,3),R(3,2)],1),
 Config("power","x**y", lambda np,x,y: x**y, [R(2),R(2)],0),
 Config("power","x**y", lambda np,x,y: x**y, [R(2),R(2)],1),
 Config("add","x+2.0 scalar", lambda np,x: x+2.0, [SC]),
 Config("det","det", lambda np,x: np.linalg.det(x), [R(2,2)]),
 Config("norm","norm", lambda np,x: np.linalg.norm(x), [R(3)]),
 Config("sort","sort", lambda np,x: np.sort(x), [R(3)]),
 Config("fft","fft", lambda np,x: np.fft.fft(x), [R(4)]),
 Config("logaddexp","logaddexp", lambda np,x,y: np.logaddexp(x,y), [R(2),R(2)]),
]
for c in cfgs:
    for fn in (check_vjp, check_jvp):
        t=time.time()
        try:
            o=fn(c)
            print(fn.__name__, c.label, c.argnum, '->', o.status, '|', o.detail[:150], '| paths',o.paths,'q',o.queries,'val',o.validated,'%.2fs'%(time.time()-t))
        except BaseException as e:
            import traceback; traceback.print_exc()
            print(fn.__name__, c.label, "EXC", type(e).__name__, e)
