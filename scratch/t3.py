import sys, time
sys.path.insert(0,'/verif')
from vf import enga, solve
enga.init()
import vf.solve
vf.solve.HAVE_CVC5=False
from vf.enga import Config, R, K, SC, Cx
from vf import checks_a
import z3
orig=solve.check
def chk(assertions, **kw):
    r=orig(assertions, **kw)
    if r[0]=='unknown':
        s=z3.Solver(); [s.add(a) for a in assertions if a is not True]
        print(s.to_smt2())
    return r
solve.check=chk
c=Config("tanh","tanh", lambda np,x: np.tanh(x), [R(1)])
o=checks_a.check_vjp(c); print(o.status,o.detail)
