import sys, time, faulthandler
faulthandler.dump_traceback_later(20, exit=True)
sys.path.insert(0,'/verif')
from vf import enga
enga.init()
from vf.enga import Config, R, K, SC, Cx
from vf.checks_a import check_vjp, check_jvp
c=Config("tanh","tanh", lambda np,x: np.tanh(x), [R(2)])
print(check_vjp(c).status)
