import sys, time
sys.path.insert(0,'/verif')
from vf import enga, solve
enga.init()
from vf.sym import *
from vf.enga import *
import z3, numpy as onp
anp=enga.anp
from autograd import core
n=int(sys.argv[1])
CTX.reset_path([])
x=sym_array("x",(n,),{1:"d"})
y=onp.tanh(x)
xp=sym_array("x",(n,))
vjp,yv=core.make_vjp(lambda x: anp.tanh(x), xp)
g=sym_array("g",(n,))
got=vjp(g)
lhs=pair(got,x,0,1); rhs=pair(g,y,0,1)
ante=CTX.assume+CTX.axioms
t=time.time(); print("bilinear", solve.check(ante+[lhs!=rhs],timeout_ms=5000,use_cvc5=False)[0], time.time()-t)
dv=[e.co(1) for e in x]
for i in range(n):
    sub=[(dv[k], z3.RealVal(1 if k==i else 0)) for k in range(n)]
    c=z3.substitute(lhs-rhs, *sub)
    t=time.time(); print("split",i, solve.check(ante+[c!=0],timeout_ms=5000,use_cvc5=False)[0], time.time()-t)
