import warnings
warnings.filterwarnings("ignore")
from autograd.core import make_vjp
from autograd.extend import Box, VSpace, primitive, defvjp
class Q:
    __slots__ = ("v",)
    def __init__(self, v): self.v = v
    def __add__(self, o): return Q(self.v + o.v)
    def __iadd__(self, o):
        self.v = self.v + o.v
        return self
class QBox(Box):
    __slots__ = []
QBox.register(Q)
class QVSpace(VSpace):
    def __init__(self, value): pass
    def zeros(self): return Q(0)
    def ones(self): return Q(1)
QVSpace.register(Q)
@primitive
def padd(u, w): return Q(u.v + w.v)
defvjp(padd, lambda ans,u,w: lambda g: g, lambda ans,u,w: lambda g: g)   # returns the incoming cotangent object itself, like anp.add

def run(sel, x0, g0, n):
    def f(x):
        vals = [x]
        for k in range(n):
            vals.append(padd(vals[sel[2*k]], vals[sel[2*k+1]]))
        return vals[n]
    d = [1]
    for k in range(n):
        d.append(d[sel[2*k]] + d[sel[2*k+1]])
    vjp, y = make_vjp(f, Q(x0))
    gin = Q(g0)
    r1 = vjp(gin).v
    ok = (gin.v == g0)
    r2 = vjp(gin).v
    return ok and gin.v == g0 and r1 == g0 * d[n] and r2 == r1

def _alias3(a1:int,b1:int,a2:int,b2:int,x0:int,g0:int) -> bool:
    """
    pre: 0<=a1<=1 and 0<=b1<=1 and 0<=a2<=2 and 0<=b2<=2
    post: _
    """
    return run([0,0,a1,b1,a2,b2],x0,g0,3)
