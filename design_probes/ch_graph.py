import warnings
warnings.filterwarnings("ignore")
from autograd.core import make_vjp, make_jvp
from autograd.extend import Box, VSpace, primitive, defvjp, defjvp

class Q:
    """pure-Python scalar over ints so that CrossHair never hits a C boundary"""
    __slots__ = ("v",)
    def __init__(self, v): self.v = v
    def __add__(self, o): return Q(self.v + o.v)
    def __iadd__(self, o):
        self.v = self.v + o.v
        return self
    def __mul__(self, a): return Q(self.v * a)

class QBox(Box):
    __slots__ = []
QBox.register(Q)

class QVSpace(VSpace):
    def __init__(self, value): pass
    def zeros(self): return Q(0)
    def ones(self): return Q(1)
    def _inner_prod(self, x, y): return x.v * y.v
QVSpace.register(Q)

LOG = []
def mkprim(k, c, d):
    @primitive
    def p(u, w): return Q(c * u.v + d * w.v)
    def v0(ans, u, w):
        def vjp(g):
            LOG.append((k, 0)); return Q(c * g.v)
        return vjp
    def v1(ans, u, w):
        def vjp(g):
            LOG.append((k, 1)); return Q(d * g.v)
        return vjp
    defvjp(p, v0, v1)
    defjvp(p, lambda g, ans, u, w: Q(c * g.v), lambda g, ans, u, w: Q(d * g.v))
    return p

def run(sel, coef, x0, g0, n, mode):
    prims = [mkprim(k, coef[2*k], coef[2*k+1]) for k in range(n)]
    used = [False] * (n + 1)
    def f(x):
        vals = [x]
        for k in range(n):
            a, b = sel[2*k], sel[2*k+1]
            vals.append(prims[k](vals[a], vals[b]))
        return vals[n]
    # reference: forward accumulation of d v_k / d x
    d = [1]
    for k in range(n):
        d.append(coef[2*k] * d[sel[2*k]] + coef[2*k+1] * d[sel[2*k+1]])
    if mode == 0:
        del LOG[:]
        vjp, y = make_vjp(f, Q(x0))
        got = vjp(Q(g0)).v
        # liveness: node k (1-based value index k+1) live iff reaches output
        live = [False] * (n + 1); live[n] = True
        for k in range(n - 1, -1, -1):
            if live[k + 1]:
                live[sel[2*k]] = True; live[sel[2*k+1]] = True
        for k in range(n):
            cnt0 = LOG.count((k, 0)); cnt1 = LOG.count((k, 1))
            exp = 1 if live[k + 1] else 0
            if cnt0 != exp or cnt1 != exp: return False
        return got == g0 * d[n]
    else:
        y, t = make_jvp(f, Q(x0))(Q(g0))
        return t.v == g0 * d[n]

def _graph3(a1:int,b1:int,a2:int,b2:int,c0:int,d0:int,c1:int,d1:int,c2:int,d2:int,x0:int,g0:int) -> bool:
    """
    pre: 0<=a1<=1 and 0<=b1<=1 and 0<=a2<=2 and 0<=b2<=2
    post: _
    """
    return run([0,0,a1,b1,a2,b2],[c0,d0,c1,d1,c2,d2],x0,g0,3,0)
