import warnings; warnings.filterwarnings("ignore")
from symnum import *
import autograd.numpy as np
from autograd import make_vjp
from autograd.numpy.numpy_boxes import ArrayBox
from autograd.numpy.numpy_vspaces import ArrayVSpace
ArrayBox.register(S); ArrayVSpace.register(S)
def check_vjp(name, f, xshape, generic=True):
    t0=time.time()
    def body():
        x=arr("x",xshape,"d"); y=f(x)
        xp=plain("x",xshape); vjp,yv=make_vjp(f)(xp); g=plain("g",onp.shape(yv)); got=vjp(g)
        lhs=sum((a.v*b.d for a,b in zip(flat(got),flat(x))), R(0)); rhs=sum((a.v*b.d for a,b in zip(flat(g),flat(y))), R(0))
        return lhs,rhs
    paths=explore(body); res={}
    for pc,assume,ax,(lhs,rhs) in paths:
        if any(any(str(v).startswith("d") for v in z3.z3util.get_vars(c)) for c in pc): continue
        for tac in ["default","nlsat"]:
            s=z3.Solver() if tac=="default" else z3.Then('simplify','solve-eqs','qfnra-nlsat').solver()
            s.set('timeout',30000); s.add(*pc,*assume,*ax, lhs!=rhs); t=time.time(); r=str(s.check())
            res.setdefault(tac,[]).append((r,round(time.time()-t,2)))
    print(name,{k:(sorted(set(r for r,_ in v)),round(sum(t for _,t in v),2)) for k,v in res.items()},"paths",len(paths),"%.1fs"%(time.time()-t0))
check_vjp("norm ord3 axis0 (2,2)", lambda x: np.linalg.norm(x,ord=3,axis=0), (2,2))
check_vjp("std (3,)", lambda x: np.std(x), (3,))
check_vjp("tanh", lambda x: np.tanh(x), (2,))
check_vjp("x**2.5", lambda x: x**2.5, (1,))
check_vjp("arctan2-like sqrt", lambda x: np.sqrt(x[0]*x[0]+x[1]*x[1])/x[0], (2,))

check_vjp("norm ord2.5 axis1 (2,2)", lambda x: np.linalg.norm(x,ord=2.5,axis=1), (2,2))
check_vjp("sqrt", lambda x: np.sqrt(x), (2,))
check_vjp("x**-0.5", lambda x: x**-0.5, (2,))
check_vjp("norm fro (2,2)", lambda x: np.linalg.norm(x), (2,2))
