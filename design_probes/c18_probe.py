import warnings; warnings.filterwarnings("ignore")
from symnum import *
import symnum; symnum.NOFORK_ABS=True
import numpy as onp
_cnt=[0]
def sym_randn(*shape):
    _cnt[0]+=1
    if shape==(): return S(z3.Real("r%d"%_cnt[0]))
    return plain("r%d_"%_cnt[0], shape)
onp.random.randn = sym_randn
import autograd.numpy as np
from autograd.extend import primitive, defvjp, defjvp
from autograd.test_util import check_grads
from autograd.numpy.numpy_boxes import ArrayBox
from autograd.numpy.numpy_vspaces import ArrayVSpace
ArrayBox.register(S); ArrayVSpace.register(S)
def mk(delta_vjp=0.0, delta_jvp=0.0):
    @primitive
    def foo(x): return x*x*3.0
    defvjp(foo, lambda ans,x: lambda g: g*6.0*x*(1.0+delta_vjp))
    defjvp(foo, lambda g,ans,x: g*6.0*x*(1.0+delta_jvp))
    return foo
def run(name, foo, modes, order, shape):
    t0=time.time(); outcomes={"accept":[], "reject":[]}
    def body():
        _cnt[0]=0
        x=plain("x",shape) if shape!=() else S(z3.Real("x"))
        try:
            check_grads(foo, modes=modes, order=order)(x); return "accept"
        except AssertionError: return "reject"
    paths=explore(body, maxpaths=3000)
    box=[]
    for pc,assume,ax,res in paths: outcomes[res].append((pc,assume,ax))
    # box: all symbols within [-10,10], and |x|>=0.1
    def boxc(cs):
        vs=set()
        for c in cs:
            for v in z3.z3util.get_vars(c): vs.add(v)
        return [z3.And(v>=-10,v<=10) for v in vs]
    def feas(lst, extra=lambda vs: []):
        n=0
        for pc,assume,ax in lst:
            s=z3.Solver(); s.set('timeout',20000); s.add(*pc,*assume,*ax,*boxc(pc)); 
            r=str(s.check())
            if r!="unsat": n+=1
        return n
    print(name,"paths",len(paths),"accept-paths feasible in box:",feas(outcomes["accept"]),"/",len(outcomes["accept"]),"reject-paths feasible in box:",feas(outcomes["reject"]),"/",len(outcomes["reject"]),"%.1fs"%(time.time()-t0))
    return outcomes
run("correct rev order1 scalar", mk(), ["rev"], 1, ())
run("correct fwd+rev order2 scalar", mk(), ["fwd","rev"], 2, ())
o=run("defect vjp 1e-3 rev order1 scalar", mk(delta_vjp=1e-3), ["rev"], 1, ())
# rejection region: accepted => |x * r1 * r2| small ?  ask solver: accepted AND |projection| >= theta  unsat?
x=z3.Real("x")
for theta in [1e-4,1e-3,1e-2]:
    bad=0
    for pc,assume,ax in o["accept"]:
        vs=set()
        for c in pc:
            for v in z3.z3util.get_vars(c): vs.add(v)
        rs=[v for v in vs if str(v).startswith("r")]
        s=z3.Solver(); s.set('timeout',20000); s.add(*pc,*assume,*ax)
        prod=6*x
        for r in rs: prod=prod*r
        s.add(z3.Or(prod>=R(theta),prod<=-R(theta)))
        if str(s.check())!="unsat": bad+=1
    print("theta",theta,"accept-paths compatible with |6 x r1 r2|>=theta:",bad)
