import warnings; warnings.filterwarnings("ignore")
from symnum import *
import autograd.numpy as np
from autograd import make_vjp, make_jvp
from autograd.numpy.numpy_boxes import ArrayBox
from autograd.numpy.numpy_vspaces import ArrayVSpace
ArrayBox.register(S); ArrayVSpace.register(S)

def check_vjp(name, f, xshape, kink_ok=False):
    t0=time.time(); stats=dict(paths=0,smooth=0,kink=0,q=0)
    verdict="HOLDS"; cex=None
    def run(sign):
        x=arr("x",xshape,"d")
        if sign<0:
            for i in onp.ndindex(*xshape): x[i]=S(x[i].v,-x[i].d)
        y=f(x)                       # numpy's own primal on dual symbolic entries -> y.v, y.d = f'(x; +-d)
        return x,y
    def body():
        x,y=run(+1)
        xp=plain("x",xshape)
        vjp,yv=make_vjp(f)(xp)
        g=plain("g",onp.shape(yv))
        got=vjp(g)
        if onp.shape(got)!=xshape: return ("shape",onp.shape(got))
        lhs=sum((a.v*b.d for a,b in zip(flat(got),flat(x))), R(0))     # <vjp(g), d>
        rhs=sum((a.v*b.d for a,b in zip(flat(g),flat(y))), R(0))       # <g, f'(x;d)>
        val_ok=[a.v==b.v for a,b in zip(flat(yv),flat(y))]
        return ("eq",lhs,rhs,val_ok)
    try:
        paths=explore(body)
    except Exception as e:
        print(name,"RAISES",type(e).__name__,str(e)[:100]); return
    for pc,assume,ax,res in paths:
        stats["paths"]+=1
        if res[0]=="shape": verdict="SHAPE %s"%(res[1],); break
        _,lhs,rhs,val_ok=res
        s=z3.Solver(); s.set('timeout',20000); s.add(*pc,*assume,*ax)
        if str(s.check())!="sat": continue     # vacuous path
        # smooth iff no equality forced between value parts: here: path is 'open' if adding d-part atoms irrelevant; approximate: PC mentions d vars => tie path
        ties=any(any(str(v).startswith("d") for v in z3.z3util.get_vars(c)) for c in pc)
        s.push(); s.add(z3.Not(z3.And(*val_ok)))
        if str(s.check())!="unsat": verdict="PRIMAL MISMATCH"; break
        s.pop()
        if not ties:
            stats["smooth"]+=1
            s.add(lhs!=rhs); r=str(s.check()); stats["q"]+=1
            if r!="unsat": verdict=r; cex=s.model() if r=="sat" else None; break
        else:
            stats["kink"]+=1
            # one-sided: need f'(x;-d) too. On this tie path rhs = <g,f'(x;d)>. generalized-gradient check: lhs <= max(rhs, -rhs(-d)) etc. -- here check weaker: finite & between for linear-homogeneous pieces via second run skipped in probe
    print(name, verdict, stats, "%.2fs"%(time.time()-t0), ("cex=%s"%cex if cex is not None else ""))

check_vjp("maximum", lambda x: np.maximum(x[0],x[1]), (2,))
check_vjp("max axis", lambda x: np.max(x,axis=1), (2,2))
check_vjp("abs", lambda x: np.abs(x), (2,))
check_vjp("clip", lambda x: np.clip(x,-0.5,0.5), (2,))
check_vjp("where", lambda x: np.where(x>0, x*x, 2*x), (2,))
check_vjp("exp", lambda x: np.exp(x*x), (2,))
check_vjp("tanh", lambda x: np.tanh(x), (2,))
check_vjp("sqrt", lambda x: np.sqrt(x), (2,))
check_vjp("log", lambda x: np.log(x*x+1), (2,))
check_vjp("std", lambda x: np.std(x,axis=0), (3,))
check_vjp("var ddof", lambda x: np.var(x,axis=1,ddof=1), (2,3))
check_vjp("norm", lambda x: np.linalg.norm(x), (3,))
check_vjp("norm ord3 axis", lambda x: np.linalg.norm(x,ord=3,axis=0), (2,2))
check_vjp("power x**y", lambda x: x[0]**x[1], (2,))
check_vjp("x**2.5", lambda x: x**2.5, (2,))
check_vjp("div", lambda x: x[0]/x[1], (2,))
check_vjp("prod", lambda x: np.prod(x,axis=0), (3,))
check_vjp("sort", lambda x: np.sort(x), (3,))
check_vjp("sin*cos", lambda x: np.sin(x)*np.cos(x), (2,))
check_vjp("mean+scalar", lambda x: x[0]*x[0]+np.sum(x), (2,3))
check_vjp("mod", lambda x: x % 0.7, (2,))
check_vjp("sinc", lambda x: np.sinc(x), (1,))
check_vjp("logaddexp", lambda x: np.logaddexp(x[0],x[1]), (2,))
print("queries(feasibility):", CTX.nq)
