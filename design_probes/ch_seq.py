import warnings
warnings.filterwarnings("ignore")
from typing import List
from autograd.core import make_vjp
from autograd.extend import Box, VSpace, primitive, defvjp
import autograd.builtins as ab
class Q:
    __slots__ = ("v",)
    def __init__(self, v): self.v = v
    def __add__(self, o): return Q(self.v + o.v)
    def __iadd__(self, o):
        self.v = self.v + o.v
        return self
class QBox(Box):
    __slots__ = []
QBox.register(Q)
class QVSpace(VSpace):
    def __init__(self, value): pass
    def zeros(self): return Q(0)
    def ones(self): return Q(1)
    def __eq__(self, o): return type(o) is QVSpace
QVSpace.register(Q)
@primitive
def scale(a, c): return Q(a.v * c)
defvjp(scale, lambda ans, a, c: lambda g: Q(g.v * c))

def _ext(xs: List[int], ys: List[int], pick: int, left: bool, c: int, g0: int) -> bool:
    """
    pre: len(xs) <= 3 and 1 <= len(ys) <= 3
    pre: 0 <= pick < len(xs) + len(ys)
    post: _
    """
    n, m = len(xs), len(ys)
    consts = tuple(Q(v) for v in xs)
    def f(t):                      # t: traced tuple of len m ; concatenated with a constant tuple on either side
        z = (consts + t) if left else (t + consts)     # SequenceBox.__radd__ / __add__
        return scale(z[pick], c)
    arg = tuple(Q(v) for v in ys)
    vjp, val = make_vjp(f, arg)
    got = vjp(Q(g0))
    if not (isinstance(got, tuple) and len(got) == m): return False
    # which leaf of t was picked?
    idx = pick - n if left else pick
    for i in range(m):
        want = g0 * c if i == idx else 0
        if got[i].v != want: return False
    return True
