import warnings; warnings.filterwarnings("ignore")
import threading
from autograd import grad
import autograd.tracer as tr
class Sched:
    """strict serialisation: exactly one thread runs at a time; order[k] names who runs segment k."""
    def __init__(s, order): s.order=order; s.i=0; s.cv=threading.Condition()
    def _wait(s, me):
        while s.i < len(s.order) and s.order[s.i]!=me: s.cv.wait()
    def start(s, me):
        with s.cv: s._wait(me)
    def point(s, me):
        with s.cv:
            s.i+=1; s.cv.notify_all(); s._wait(me)
    def done(s, me):
        with s.cv: s.i+=1; s.cv.notify_all()
def progA(S):
    S.start("A")
    def outer(x):
        S.point("A")                       # segment boundary: now inside outer trace
        def inner(y): return y*y*x
        r = grad(inner)(x)
        return x*r
    r = grad(outer)(2.0); S.done("A"); return r
def progB(S):
    S.start("B")
    def f(x):
        S.point("B")                       # inside B's trace
        return x*x
    r = grad(f)(3.0); S.done("B"); return r
def run(order):
    S=Sched(order); out={}
    ta=threading.Thread(target=lambda: out.__setitem__("A",progA(S)))
    tb=threading.Thread(target=lambda: out.__setitem__("B",progB(S)))
    ta.start(); tb.start(); ta.join(); tb.join(); return out
print("A A B B:", run(["A","A","B","B"]))
print("B A B A  (B enters; A enters outer; B exits; A enters inner):", run(["B","A","B","A"]))
print("top after:", tr.trace_stack.top)
