"""Throwaway feasibility prototype: symbolic scalars for numpy object arrays + forking executor."""
import z3, numpy as onp, fractions, time, math, itertools
class Infeasible(Exception): pass
class Ctx:
    def __init__(s):
        s.solver = z3.Solver(); s.solver.set('timeout',5000); s.solver.set('timeout',5000); s.assume=[]; s.pc=[]; s.decisions=[]; s.pos=0; s.pending=[]; s.nq=0; s.uf_axioms=[]
    def reset_path(s, decisions):
        s.pc=[]; s.assume=[]; s.decisions=list(decisions); s.pos=0; s.uf_axioms=[]
    def feasible(s, extra):
        s.nq+=1
        s.solver.push(); s.solver.add(*s.assume, *s.uf_axioms, *s.pc, extra)
        r=s.solver.check(); s.solver.pop(); return str(r)!="unsat"
    def branch(s, cond):
        cond=z3.simplify(cond)
        if z3.is_true(cond): return True
        if z3.is_false(cond): return False
        if s.pos < len(s.decisions):
            d=s.decisions[s.pos]; s.pos+=1
        else:
            t=s.feasible(cond); f=s.feasible(z3.Not(cond))
            if t and f:
                s.pending.append(s.decisions[:s.pos]+[False]); d=True
            elif t: d=True
            elif f: d=False
            else: raise Infeasible()
            if not(t and f):
                s.pc.append(cond if d else z3.Not(cond)); return d
            s.decisions.append(True); s.pos+=1
        s.pc.append(cond if d else z3.Not(cond)); return d
CTX=Ctx()
def R(x):
    if isinstance(x,z3.ExprRef): return x
    return z3.RealVal(str(fractions.Fraction(float(x))) if not isinstance(x,(int,onp.integer,bool,onp.bool_)) else int(x))
UF={}
ACK={}
NOFORK_ABS=False
def uf(name,n=1):
    def app(arg):
        key=(name, z3.simplify(arg).sexpr())
        if key not in ACK: ACK[key]=z3.Real("%s!%d"%(name,len(ACK)))
        return ACK[key]
    return app
class S:
    """dual number: v + eps*d, both z3 Real terms. comparisons are lexicographic (one-sided limits)."""
    __slots__=("v","d")
    def __init__(s,v,d=0): s.v=R(v); s.d=R(d)
    @staticmethod
    def L(o):
        if isinstance(o,S): return o
        if isinstance(o,(int,float,onp.integer,onp.floating,bool,onp.bool_)): return S(o,0)
        return NotImplemented
    def __add__(a,b):
        b=S.L(b); return b if b is NotImplemented else S(a.v+b.v,a.d+b.d)
    __radd__=__add__
    def __sub__(a,b):
        b=S.L(b); return b if b is NotImplemented else S(a.v-b.v,a.d-b.d)
    def __rsub__(a,b):
        b=S.L(b)
        return b if b is NotImplemented else S(b.v-a.v,b.d-a.d)
    def __mul__(a,b):
        b=S.L(b); return b if b is NotImplemented else S(a.v*b.v,a.v*b.d+a.d*b.v)
    __rmul__=__mul__
    def __truediv__(a,b):
        b=S.L(b)
        if b is NotImplemented: return b
        CTX.assume.append(b.v!=0); return S(a.v/b.v,(a.d*b.v-a.v*b.d)/(b.v*b.v))
    def __rtruediv__(a,b):
        b=S.L(b)
        return b if b is NotImplemented else b.__truediv__(a)
    def __neg__(a): return S(-a.v,-a.d)
    def __pos__(a): return a
    def __pow__(a,n):
        if isinstance(n,S):
            if z3.is_rational_value(z3.simplify(n.v)) and z3.is_rational_value(z3.simplify(n.d)) :
                n=float(z3.simplify(n.v).as_fraction())
            else: return (n*a.log()).exp()
        if float(n)==int(n):
            n=int(n)
            if n==0: return S(1,0)
            if n<0: return S(1,0)/(a**(-n))
            r=a
            for _ in range(n-1): r=r*a
            return r
        fr=fractions.Fraction(float(n)).limit_denominator(64)
        if abs(float(fr)-float(n))<1e-15:
            return a._root(fr.numerator, fr.denominator)
        return (S(n)*a.log()).exp()
    def _root(a,p,q):
        # r = a**(p/q) for a>0 :  r**q == a**p, r>0 ; exact in real closed fields
        key=("root",p,q,z3.simplify(a.v).sexpr())
        if key not in ACK: ACK[key]=z3.Real("root!%d"%len(ACK))
        r=ACK[key]
        def ipow(t,k):
            out=R(1)
            for _ in range(abs(k)): out=out*t
            return out
        CTX.assume.append(a.v>0)
        if p>=0: CTX.uf_axioms.extend([ipow(r,q)==ipow(a.v,p), r>0])
        else: CTX.uf_axioms.extend([ipow(r,q)*ipow(a.v,-p)==1, r>0])
        # d/da a**(p/q) = (p/q) * r / a
        return S(r, R(p)/R(q)*r/a.v*a.d)
    def __rpow__(a,b): return (a*S.L(b).log()).exp()
    def _uf(a,name,dfun,dom=None,ax=None):
        t=uf(name)(a.v)
        if dom is not None: CTX.assume.append(dom(a.v))
        if ax is not None: CTX.uf_axioms.extend(ax(a.v,t))
        return S(t, dfun(a.v,t)*a.d)
    def exp(a): return a._uf("exp",lambda x,t:t, ax=lambda x,t:[t>0])
    def log(a): return a._uf("log",lambda x,t:1/x, dom=lambda x:x>0)
    def sqrt(a): return a._root(1,2)
    def sin(a): return a._uf("sin",lambda x,t:uf("cos")(x), ax=lambda x,t:[t*t+uf("cos")(x)*uf("cos")(x)==1])
    def cos(a): return a._uf("cos",lambda x,t:-uf("sin")(x), ax=lambda x,t:[t*t+uf("sin")(x)*uf("sin")(x)==1])
    def sinh(a): return a._uf("sinh",lambda x,t:uf("cosh")(x), ax=lambda x,t:[uf("cosh")(x)*uf("cosh")(x)-t*t==1, uf("cosh")(x)>0])
    def cosh(a): return a._uf("cosh",lambda x,t:uf("sinh")(x), ax=lambda x,t:[t*t-uf("sinh")(x)*uf("sinh")(x)==1, t>0])
    def tanh(a): return a._uf("tanh",lambda x,t:1-t*t, ax=lambda x,t:[t*uf("cosh")(x)==uf("sinh")(x), uf("cosh")(x)*uf("cosh")(x)-uf("sinh")(x)*uf("sinh")(x)==1, uf("cosh")(x)>0])
    def conjugate(a): return a
    def __floor__(a):
        t=uf('floor')(a.v); CTX.assume.append(t!=a.v); return S(t,0)
    def floor(a): return a.__floor__()
    def __mod__(a,b): b=S.L(b); return a-b*(a/b).floor()
    real=property(lambda a:a); imag=property(lambda a:S(0,0))
    def _cmp(a,b,op):
        b=S.L(b)
        if CTX.branch(a.v==b.v): return CTX.branch(op(a.d,b.d))
        return CTX.branch(op(a.v,b.v))
    def __lt__(a,b): return a._cmp(b,lambda x,y:x<y)
    def __le__(a,b): return a._cmp(b,lambda x,y:x<=y)
    def __gt__(a,b): return a._cmp(b,lambda x,y:x>y)
    def __ge__(a,b): return a._cmp(b,lambda x,y:x>=y)
    def __eq__(a,b):
        b=S.L(b)
        if b is NotImplemented: return False
        return CTX.branch(a.v==b.v) and CTX.branch(a.d==b.d)
    def __ne__(a,b): return not a.__eq__(b)
    def __bool__(a): return a.__ne__(0)
    def __abs__(a):
        if not NOFORK_ABS: return a if a>=0 else -a
        key=("abs",z3.simplify(a.v).sexpr())
        if key not in ACK: ACK[key]=z3.Real("abs!%d"%len(ACK))
        r=ACK[key]; CTX.uf_axioms.extend([r*r==a.v*a.v, r>=0])
        return S(r, 0)
    def __hash__(a): return id(a)
    def __repr__(a): return "S(%s | %s)"%(z3.simplify(a.v),z3.simplify(a.d))
_rt=onp.result_type
def _result_type(*args): return _rt(*[onp.dtype(object) if isinstance(a,S) else a for a in args])
onp.result_type=_result_type
def arr(name,shape,dname=None):
    a=onp.empty(shape,dtype=object)
    for idx in onp.ndindex(*shape):
        sfx="_".join(map(str,idx))
        a[idx]=S(z3.Real(name+sfx), z3.Real(dname+sfx) if dname else 0)
    return a
def plain(name,shape): return arr(name,shape,None)
def flat(a): return [S.L(e) for e in onp.asarray(a,dtype=object).ravel()]
def explore(fn, maxpaths=500):
    """run fn() once per feasible path; fn returns list of (kind, z3 claim) to be proved under PC"""
    CTX.pending=[[]]; out=[]
    while CTX.pending:
        dec=CTX.pending.pop(); CTX.reset_path(dec)
        try: res=fn()
        except Infeasible: continue
        out.append((list(CTX.pc),list(CTX.assume),list(CTX.uf_axioms),res))
        if len(out)>maxpaths: raise RuntimeError("path bound exceeded")
    return out
