import warnings; warnings.filterwarnings("ignore")
from symnum import *
import numpy as onp, signal
import autograd.numpy as np
import autograd.numpy.linalg as la, autograd.numpy.fft as fft
from autograd import make_vjp
from autograd.tracer import isbox
from autograd.core import primitive_vjps, primitive_jvps
from autograd.numpy.numpy_boxes import ArrayBox
from autograd.numpy.numpy_vspaces import ArrayVSpace
ArrayBox.register(S); ArrayVSpace.register(S)
class TO(Exception): pass
def alarm(*a): raise TO()
signal.signal(signal.SIGALRM, alarm)
def templates(x):
    return [("x",lambda f,x: f(x)), ("x,x",lambda f,x: f(x,x)), ("x,1",lambda f,x: f(x,1)), ("x,2",lambda f,x:f(x,2)), ("[x,x]",lambda f,x: f([x,x])),("x,x,x",lambda f,x:f(x,x,x)),("x,(2,2)",lambda f,x:f(x,(2,2)))]
stats={"prim_total":0,"numpy_runs_on_sym":0,"no_template_runs":[], "traced":0,"untraced":0,"raises_under_vjp":0}
names=[]
for mod,mn in [(np,"np"),(la,"linalg"),(fft,"fft")]:
    for n,f in sorted(vars(mod).items()):
        if callable(f) and getattr(f,"_is_autograd_primitive",False) or getattr(f,"_is_primitive",False): names.append((mn,n,f))
stats["prim_total"]=len(names)
untr=[]; rais=[]
for mn,n,f in names:
    ok=False
    for tn,call in templates(None):
        CTX.reset_path([]); CTX.pending=[]
        x=plain("x",(2,2))
        try:
            signal.alarm(5); y=call(f,x); signal.alarm(0)
        except BaseException as e:
            signal.alarm(0); continue
        ok=True
        try:
            signal.alarm(5)
            vjp,val=make_vjp(lambda x: call(f,x))(plain("x",(2,2))); signal.alarm(0)
            # was output traced? make_vjp returns vjp closure; detect via warning path: end_node None => vjp returns zeros; we detect by checking closure name
            traced = vjp.__closure__ is not None and any("end_node" in (c.cell_contents.__class__.__name__,) or True for c in vjp.__closure__) and vjp.__code__.co_freevars==("end_node",)
            if traced: stats["traced"]+=1
            else: stats["untraced"]+=1; untr.append(f"{mn}.{n}[{tn}]")
        except BaseException as e:
            signal.alarm(0); stats["raises_under_vjp"]+=1; rais.append(f"{mn}.{n}[{tn}]:{type(e).__name__}")
        break
    if ok: stats["numpy_runs_on_sym"]+=1
    else: stats["no_template_runs"].append(f"{mn}.{n}")
print({k:v for k,v in stats.items() if k!="no_template_runs"})
print("NO TEMPLATE RUNS:",len(stats["no_template_runs"]), stats["no_template_runs"])
print("UNTRACED:",untr)
print("RAISES:",rais)
