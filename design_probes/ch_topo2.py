from autograd.util import toposort

def _mk(ms, n):
    # ms: multiplicities for pairs (i, j), j < i, row-major
    P = [[] for _ in range(n)]
    k = 0
    for i in range(n):
        for j in range(i):
            m = ms[k]; k += 1
            if m >= 1: P[i].append(j)
            if m >= 2: P[i].append(j)
    return P

def _check(P, n):
    end = n - 1
    order = list(toposort(end, lambda k: P[k]))
    reach = set(); st = [end]
    while st:
        k = st.pop()
        if k not in reach:
            reach.add(k); st.extend(P[k])
    if sorted(order) != sorted(reach): return False
    pos = {k: i for i, k in enumerate(order)}
    return all(pos[p] > pos[k] for k in reach for p in P[k])

def _topo4(m10:int,m20:int,m21:int,m30:int,m31:int,m32:int) -> bool:
    """
    pre: 0<=m10<=2 and 0<=m20<=2 and 0<=m21<=2 and 0<=m30<=2 and 0<=m31<=2 and 0<=m32<=2
    post: _
    """
    return _check(_mk([m10,m20,m21,m30,m31,m32],4),4)
