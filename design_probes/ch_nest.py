import warnings
warnings.filterwarnings("ignore")
from autograd.core import make_vjp, make_jvp
from autograd.extend import Box, VSpace, primitive, defvjp, defjvp
import autograd.tracer as tr
class Q:
    __slots__ = ("v",)
    def __init__(self, v): self.v = v
    def __add__(self, o): return Q(self.v + o.v)
    def __iadd__(self, o):
        self.v = self.v + o.v
        return self
class QBox(Box):
    __slots__ = []
    def __mul__(self, o): return qmul(self, o)
    def __rmul__(self, o): return qmul(o, self)
QBox.register(Q)
class QVSpace(VSpace):
    def __init__(self, value): pass
    def zeros(self): return Q(0)
    def ones(self): return Q(1)
QVSpace.register(Q)
@primitive
def qmul(a, b): return Q(a.v * b.v)
defvjp(qmul, lambda ans,a,b: lambda g: qmul(g,b), lambda ans,a,b: lambda g: qmul(a,g))
defjvp(qmul, lambda g,ans,a,b: qmul(g,b), lambda g,ans,a,b: qmul(a,g))
def D(f, x, fwd):
    if fwd: return make_jvp(f, x)(Q(1))[1]
    vjp, y = make_vjp(f, x); return vjp(Q(1))
def _nest(k:int, x0:int, m_out:bool, m_in:bool, use_x:bool, at_x:bool, c:int) -> bool:
    """
    pre: -1 <= k <= 1000000
    post: _
    """
    tr.trace_stack.top = k                 # arbitrary history of leaked trace levels
    try:
        def outer(x):
            def inner(y):
                r = qmul(y, y)
                return qmul(r, x) if use_x else r
            pt = x if at_x else Q(c)
            r = D(inner, pt, m_in)
            return qmul(x, r)
        got = D(outer, Q(x0), m_out)
        got = got.v
        ok_top = (tr.trace_stack.top == k)
    finally:
        tr.trace_stack.top = -1
    # closed forms
    if use_x and at_x: want = 6*x0*x0          # x * 2x*x
    elif use_x and not at_x: want = 4*c*x0     # x * 2c*x
    elif (not use_x) and at_x: want = 4*x0     # x * 2x
    else: want = 2*c                           # x * 2c
    return got == want and ok_top
