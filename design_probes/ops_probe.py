import warnings; warnings.filterwarnings("ignore")
from symnum import *
import autograd.numpy as np
import autograd
from autograd import make_vjp, make_jvp, jacobian, hessian, grad, elementwise_grad, hessian_vector_product, make_hvp, tensor_jacobian_product, deriv
from autograd.extend import primitive, defvjp, defjvp
from autograd.numpy.numpy_boxes import ArrayBox
from autograd.numpy.numpy_vspaces import ArrayVSpace
ArrayBox.register(S); ArrayVSpace.register(S)
def prove(name, A, B):
    A=onp.asarray(A,dtype=object); B=onp.asarray(B,dtype=object)
    if A.shape!=B.shape: print(name,"SHAPE",A.shape,B.shape); return
    s=z3.Solver(); s.set('timeout',20000); s.add(*CTX.assume); s.add(z3.Or([S.L(a).v!=S.L(b).v for a,b in zip(A.ravel(),B.ravel())]))
    t=time.time(); r=str(s.check()); print(name,"HOLDS" if r=="unsat" else r,"%.2fs"%(time.time()-t))
CTX.reset_path([])
# generic C^2 function F: R^(2,2) -> R^(3,) : value y, Jacobian J (3,2,2), Hessian H(3,2,2,2,2) symmetric; all free symbols.
insh=(2,2); outsh=(3,)
y0=plain("y",outsh); J=plain("J",outsh+insh); Hraw=plain("H",outsh+insh+insh)
H=(Hraw+onp.transpose(Hraw,(0,3,4,1,2)))   # symmetrise: f is C^2
nin=len(insh)
@primitive
def F(x): return y0.copy()
@primitive
def JF(x): return J.copy()          # Jacobian as a function of x, whose own derivative is H
defvjp(F, lambda ans,x: lambda g: np.tensordot(g, JF(x), np.ndim(g)))
defjvp(F, lambda v,ans,x: np.tensordot(JF(x), v, nin))
defvjp(JF, lambda ans,x: lambda g: np.tensordot(g, H, np.ndim(g)))
defjvp(JF, lambda v,ans,x: np.tensordot(H, v, nin))
x=plain("x",insh); v=plain("v",insh); g=plain("g",outsh)
prove("jacobian == J", jacobian(F)(x), J)
prove("elementwise_grad == sum_i J", elementwise_grad(F)(x), onp.sum(J,axis=0))
prove("make_jvp == J v", make_jvp(F)(x)(v)[1], onp.tensordot(J,v,2))
prove("tjp", tensor_jacobian_product(F)(x,g), onp.tensordot(g,J,1))
prove("jacobian(jacobian) == H", jacobian(jacobian(F))(x), H)
sc=lambda x: np.sum(F(x)*g)      # scalar function with gradient g.J and Hessian g.H
prove("grad scalar", grad(sc)(x), onp.tensordot(g,J,1))
Hs=onp.tensordot(g,H,1)
prove("hessian", hessian(sc)(x), Hs)
prove("hvp", hessian_vector_product(sc)(x,v), onp.tensordot(Hs,v,2))
prove("make_hvp", make_hvp(sc)(x)[0](v), onp.tensordot(Hs,v,2))
prove("fwd-over-rev", make_jvp(grad(sc))(x)(v)[1], onp.tensordot(Hs,v,2))
prove("rev-over-fwd", grad(lambda x: np.sum(make_jvp(sc)(x)(v)[1]))(x), onp.tensordot(Hs,v,2))
# a concrete polynomial with numpy primitives, 2nd order
A=plain("a",(2,2))
p=lambda x: np.sum(np.dot(x,A)*np.dot(A,x)*x)
t=time.time(); Hp=hessian(p)(x); print("poly hessian built %.2fs"%(time.time()-t)); prove("hessian symmetric", Hp, onp.transpose(Hp,(2,3,0,1)))
