import warnings; warnings.filterwarnings("ignore")
from symnum import *
import numpy as onp
class CS:
    """complex symbolic scalar: re, im are S (dual reals)"""
    __slots__=("re","im")
    def __init__(s,re,im=0): s.re=S.L(re); s.im=S.L(im)
    @staticmethod
    def L(o):
        if isinstance(o,CS): return o
        if isinstance(o,S): return CS(o,0)
        if isinstance(o,(complex,onp.complexfloating)): return CS(o.real,o.imag)
        if isinstance(o,(int,float,onp.integer,onp.floating)): return CS(o,0)
        return NotImplemented
    def __add__(a,b):
        b=CS.L(b); return b if b is NotImplemented else CS(a.re+b.re,a.im+b.im)
    __radd__=__add__
    def __sub__(a,b):
        b=CS.L(b); return b if b is NotImplemented else CS(a.re-b.re,a.im-b.im)
    def __rsub__(a,b):
        b=CS.L(b); return b if b is NotImplemented else b-a
    def __mul__(a,b):
        b=CS.L(b); return b if b is NotImplemented else CS(a.re*b.re-a.im*b.im,a.re*b.im+a.im*b.re)
    __rmul__=__mul__
    def __truediv__(a,b):
        b=CS.L(b)
        if b is NotImplemented: return b
        n=b.re*b.re+b.im*b.im; c=a*b.conjugate(); return CS(c.re/n,c.im/n)
    def __rtruediv__(a,b):
        b=CS.L(b); return b if b is NotImplemented else b/a
    def __neg__(a): return CS(-a.re,-a.im)
    def __pow__(a,n):
        n=int(n); r=CS(1,0)
        for _ in range(n): r=r*a
        return r
    def conjugate(a): return CS(a.re,-a.im)
    real=property(lambda a:a.re); imag=property(lambda a:a.im)
    def __abs__(a): return (a.re*a.re+a.im*a.im).sqrt()
    def __eq__(a,b):
        b=CS.L(b); return (a.re==b.re) and (a.im==b.im)
    def __ne__(a,b): return not a.__eq__(b)
    def __bool__(a): return a.__ne__(0)
    def __hash__(a): return id(a)
# S must interoperate with CS: S op CS -> CS
for nm in ["__add__","__sub__","__mul__","__truediv__"]:
    def mk(nm, orig=getattr(S,nm)):
        def f(a,b):
            if isinstance(b,(CS,complex)): return getattr(CS(a,0),nm)(b)
            return orig(a,b)
        return f
    setattr(S,nm,mk(nm))
S.__radd__=lambda a,b: CS(a,0)+b if isinstance(b,(CS,complex)) else S.__add__(a,b)
S.__rmul__=lambda a,b: CS(a,0)*b if isinstance(b,(CS,complex)) else S.__mul__(a,b)
def _has_c(x):
    if isinstance(x,CS): return True
    if isinstance(x,onp.ndarray) and x.dtype==object: return any(isinstance(e,(CS,complex)) for e in x.ravel())
    return False
_isc=onp.iscomplexobj; onp.iscomplexobj=lambda x: True if _has_c(x) else _isc(x)
_real=onp.real; _imag=onp.imag
def _map(x,fn):
    if isinstance(x,onp.ndarray):
        out=onp.empty(x.shape,dtype=object)
        for i in onp.ndindex(*x.shape): out[i]=fn(x[i])
        return out
    return fn(x)
def _re(e): return e.re if isinstance(e,CS) else (e.real if isinstance(e,complex) else e)
def _im(e): return e.im if isinstance(e,CS) else (e.imag if isinstance(e,complex) else (S(0,0) if isinstance(e,S) else 0))
onp.real=lambda x: _map(x,_re) if (isinstance(x,(CS,S)) or (isinstance(x,onp.ndarray) and x.dtype==object)) else _real(x)
onp.imag=lambda x: _map(x,_im) if (isinstance(x,(CS,S)) or (isinstance(x,onp.ndarray) and x.dtype==object)) else _imag(x)
_rt0=onp.result_type
onp.result_type=lambda *a: _rt0(*[onp.dtype(object) if isinstance(x,CS) else x for x in a])
_norm=onp.linalg.norm
def norm_stub(x,ord=None,axis=None,keepdims=False):
    if isinstance(x,onp.ndarray) and x.dtype==object and ord is None and axis is None:
        return sum((abs(e)*abs(e) if isinstance(e,CS) else e*e for e in x.ravel()), S(0,0)).sqrt()
    return _norm(x,ord,axis,keepdims)
onp.linalg.norm=norm_stub
import autograd.numpy as np
from autograd import make_vjp
from autograd.numpy.numpy_boxes import ArrayBox
from autograd.numpy.numpy_vspaces import ArrayVSpace, ComplexArrayVSpace
ArrayBox.register(S); ArrayVSpace.register(S); ArrayBox.register(CS); ComplexArrayVSpace.register(CS)
def carr(name,shape,dual):
    a=onp.empty(shape,dtype=object)
    for i in onp.ndindex(*shape):
        sfx="_".join(map(str,i))
        a[i]=CS(S(z3.Real(name+"r"+sfx), z3.Real("d"+name+"r"+sfx) if dual else 0), S(z3.Real(name+"i"+sfx), z3.Real("d"+name+"i"+sfx) if dual else 0))
    return a
def cflat(a): return [CS.L(e) for e in onp.asarray(a,dtype=object).ravel()]
def check(name,f,shape,complex_out=True):
    def body():
        x=carr("x",shape,True); y=f(x)
        xp=carr("x",shape,False)
        vjp,yv=make_vjp(f)(xp)
        ycomplex=onp.iscomplexobj(yv)
        g=carr("g",onp.shape(yv),False) if ycomplex else plain("g",onp.shape(yv))
        got=vjp(g)
        if onp.shape(got)!=shape: return ("shape",onp.shape(got))
        if not onp.iscomplexobj(got): return ("kind","real gradient for complex arg")
        lhs=sum((a.re.v*b.re.d - a.im.v*b.im.d for a,b in zip(cflat(got),cflat(x))),R(0))
        rhs=sum((a.re.v*b.re.d - a.im.v*b.im.d for a,b in zip(cflat(g),cflat(y))),R(0))
        return ("eq",lhs,rhs)
    try: paths=explore(body)
    except Exception as e:
        import traceback; print(name,"RAISES",type(e).__name__,str(e)[:120]); return
    v="HOLDS"
    for pc,assume,ax,res in paths:
        if res[0]!="eq": v=str(res); break
        s=z3.Solver(); s.set('timeout',20000); s.add(*pc,*assume,*ax); s.add(res[1]!=res[2]); r=str(s.check())
        if r!="unsat": v=r; break
    print(name,v,len(paths),"paths")
check("z*z", lambda z: z*z, (2,))
check("conj", lambda z: np.conj(z)*z, (2,))
check("real", lambda z: np.real(z*z), (2,))
check("imag", lambda z: np.imag(z*z), (2,))
check("abs", lambda z: np.abs(z), (2,))
check("sum", lambda z: np.sum(z*z,axis=0), (2,2))
A=plain("a",(2,2))
check("dot real-complex", lambda z: np.dot(A,z), (2,))
check("1/z", lambda z: 1.0/z, (1,))
check("linalg.norm complex", lambda z: np.linalg.norm(z), (2,))
