#!/bin/bash
# Offline build of the checking environment: an overlay venv on top of /venv (which holds numpy and the
# editable install of /repo) with crosshair-tool, z3-solver and cvc5 from the local wheelhouse.
# Idempotent; nothing is fetched from a network, nothing under /tmp is needed afterwards.
set -e
cd "$(dirname "$0")"
V=/verif/.venv
if [ ! -x "$V/bin/python" ] || ! "$V/bin/python" -c "import z3, crosshair, numpy" >/dev/null 2>&1; then
  rm -rf "$V"
  /venv/bin/python -m venv "$V"
  SP=$("$V/bin/python" -c "import sysconfig; print(sysconfig.get_paths()['purelib'])")
  echo "import site; site.addsitedir('/venv/lib/python3.12/site-packages')" > "$SP/_overlay.pth"
  PIP_NO_INDEX=1 "$V/bin/pip" install -q --no-index --find-links /opt/veriftools/wheels crosshair-tool z3-solver cvc5 >/dev/null 2>&1 \
    || PIP_NO_INDEX=1 "$V/bin/pip" install -q --no-index --find-links /opt/veriftools/wheels crosshair-tool z3-solver
fi
"$V/bin/python" -c "import z3, crosshair, numpy; print('verif env ok: z3', z3.get_version_string(), 'numpy', numpy.__version__)"
